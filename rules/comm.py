"""shared extraction for the communicate engine (C01-C04): the anchors of read_into / do_read / maybe_poll"""
import mirlib as M
from common import *

RI = "communicate::raw::RawCommunicator::read_into"
DR = "communicate::raw::RawCommunicator::do_read"
MP = "communicate::raw::maybe_poll"
FILE_READ = ("<&std::fs::File as std::io::Read>::read", "<std::fs::File as std::io::Read>::read")
FILE_WRITE = ("<&std::fs::File as std::io::Write>::write", "<std::fs::File as std::io::Write>::write")
IO_NAMES = ("read", "write", "write_all", "read_to_end", "read_to_string", "read_exact", "write_fmt", "read_buf", "write_vectored", "read_vectored")

POLLIN, POLLOUT, POLLERR, POLLHUP = 0x1, 0x4, 0x8, 0x10


def is_file_io(name):
    base = name.split("::")[-1]
    return base in IO_NAMES and ("std::io::Read" in name or "std::io::Write" in name) and not name.startswith("<builder::")


class Engine:
    def __init__(self, prog):
        self.prog = prog
        self.ri = prog.one(RI)
        self.dr = prog.one(DR)
        self.mp = prog.one(MP)
        ri = self.ri
        self.T = M.Terms(ri)
        self.selfp = ("param", 1, ri.local_name(1))
        self.params = {ri.local_name(i): i for i in range(1, ri.arg_count + 1)}
        loops = M.sccs(ri)
        self.loop = loops[0] if len(loops) == 1 else set()
        self.nloops = len(loops)
        mp_calls = ri.calls_to(lambda f: M.callee_str(f) == MP)
        self.mp_call = mp_calls[0] if len(mp_calls) == 1 else None
        self.ready = None
        if self.mp_call:
            bb, t = self.mp_call
            call = ("call", MP, tuple(self.T.operand(a) for a in t["args"]), bb)
            br = None
            for b2, t2 in ri.calls():
                if M.callee_str(t2["f"]).endswith("as std::ops::Try>::branch") and self.T.operand(t2["args"][0]) == call:
                    br = ("call", M.callee_str(t2["f"]), (call,), b2)
            self.mp_term = call
            if br:
                pay = ("field", ("downcast", br, "Continue"), "0")
                self.ready = [("field", pay, str(k)) for k in range(3)]
        self.writes = [(bb, t) for bb, t in ri.calls() if M.callee_str(t["f"]) in FILE_WRITE or (is_file_io(M.callee_str(t["f"])) and "Write" in M.callee_str(t["f"]))]
        self.do_reads = ri.calls_to(lambda f: M.callee_str(f) == DR)
        self.reads = [(bb, t) for bb, t in self.dr.calls() if is_file_io(M.callee_str(t["f"])) and "Read" in M.callee_str(t["f"])]

    def ready_edges(self, k, want=True):
        r = self.ready[k]
        return bool_edges(self.ri, self.T, lambda c: c == r, want)

    def len_sum(self, t):
        """is t == len(outvec) + len(errvec) (either order, checked or unchecked add)?"""
        t = t[1] if t[0] == "field" and t[2] == "0" else t
        if not (t[0] == "bin" and t[1] in ("Add", "AddWithOverflow")):
            return False
        names = set()
        for x in (t[2], t[3]):
            if x[0] == "call" and x[1] == "std::vec::Vec::<T, A>::len":
                a = M.noref(x[2][0])
                if a[0] == "param":
                    names.add(a[2])
        return names == {"outvec", "errvec"}


def chunk_of(ch):
    """(base slice term, constant upper bound of the length or None) of a chunk term: `base[..k]`, or `base.get(..K).unwrap_or(base)`
    (the first K bytes when there are that many, else everything -- at most K either way)"""
    ch = M.noref(ch)
    if ch[0] == "call" and "index" in ch[1].lower() and len(ch[2]) == 2 and M.noref(ch[2][1])[0] == "agg" and M.noref(ch[2][1])[1][1] == "std::ops::RangeTo":
        return M.noref(ch[2][0]), upper_const(M.noref(ch[2][1])[2][0])
    if ch[0] == "phi" and len(ch[1]) == 2:
        alts = [M.noref(a_) for a_ in ch[1]]
        pay = [a_ for a_ in alts if a_[0] == "field" and a_[2] == "0" and a_[1][0] == "downcast" and a_[1][2] == "Some"]
        rest = [a_ for a_ in alts if a_ not in pay]
        if len(pay) == 1 and len(rest) == 1:
            g = M.noref(pay[0][1][1])
            if g[0] == "call" and g[1].endswith("<impl [T]>::get") and len(g[2]) == 2 and M.noref(g[2][0]) == rest[0]:
                rng = M.noref(g[2][1])
                if rng[0] == "agg" and rng[1][1] == "std::ops::RangeTo":
                    return rest[0], upper_const(rng[2][0])
    if ch[0] == "call" and ch[1] == "std::option::Option::<T>::unwrap_or" and len(ch[2]) == 2:
        g, d = M.noref(ch[2][0]), M.noref(ch[2][1])
        if g[0] == "call" and g[1].endswith("<impl [T]>::get") and M.noref(g[2][0]) == d and M.noref(g[2][1])[0] == "agg" and M.noref(g[2][1])[1][1] == "std::ops::RangeTo":
            return d, upper_const(M.noref(g[2][1])[2][0])
    return None, None


def stdin_releases(ri, T, selfp):
    """the sites at which read_into closes the child's stdin: `self.stdin.take()` (result not kept) or `self.stdin = None`, the field
    reached directly or through a reference bound to it.  Returns ([(bb, kind, call-term-or-None)], other stores to the field)"""
    from common import stores_to_field
    NONE = ("agg", ("adt", "std::option::Option", "None"), ())
    rel = [(bb, "take", t) for bb, t in ri.calls() if M.callee_str(t["f"]) == "std::option::Option::<T>::take" and M.noref(T.operand(t["args"][0])) == ("field", selfp, "stdin")]
    other = []
    for (b, si, s) in stores_to_field(ri, "stdin", "communicate::raw::RawCommunicator"):
        if si != "term" and s["k"] == "assign" and T.rvalue(s["r"]) == NONE:
            rel.append((b, "store-none", None))
        else:
            other.append((b, si))
    return rel, other


def eval_const(t):
    """fold a constant expression term (BitOr/BitAnd/Add of constants, through casts)"""
    while t[0] == "cast":
        t = t[2]
    if t[0] == "const" and isinstance(t[1], int):
        return t[1]
    if t[0] == "bin":
        a, b = eval_const(t[2]), eval_const(t[3])
        if a is None or b is None:
            return None
        return {"BitOr": a | b, "BitAnd": a & b, "Add": a + b, "BitXor": a ^ b}.get(t[1])
    return None


def upper_const(t):
    """constant upper bound of a length term: const, or min(.., const ..)"""
    c = const_of(t)
    if c is not None:
        return c
    if t[0] == "call" and t[1] in ("std::cmp::min", "core::cmp::min", "std::cmp::Ord::min"):
        bs = [upper_const(x) for x in t[2]]
        bs = [b for b in bs if b is not None]
        return min(bs) if bs else None
    return None
