"""C12 — handles clean up after themselves: no zombies, no self-inflicted hang on drop."""
import itertools
import re
import mirlib as M
from common import *

SPEC = {
    "explanation": (
        "Static decision on the resolved MIR: (a) finite-domain traversal of <Popen as Drop>::drop over all "
        "detached x child_state configurations: Popen::wait is reached exactly under (not detached, Running) and no "
        "other configuration reaches anything that can reach waitpid; `detached` is written only by create (from the "
        "config) and by detach()/the builder (constant true); (b) release-before-wait: in Popen::drop the wait is "
        "dominated by releases (Option::take / None store) of the handle's own stdin, stdout and stderr, so a child "
        "waiting for EOF or blocked writing is released first; every type that owns a Vec<Popen> and exposes one of "
        "its streams (census of ADTs with a Popen-typed field, floor 5) releases, in its own Drop and on every path, "
        "the very element/stream its Read/Write impl touches — necessary because elements are dropped "
        "first-to-last while the dependency runs last-to-first; (c) nothing in the crate can skip a destructor "
        "(no forget/ManuallyDrop/leak on a Popen holder); join/capture wait on the Popen they own; (d) "
        "Exec::communicate / Pipeline::communicate mark every stage detached before spawning."
        " Also: PopenConfig::default() is not detached."
        " R12.8: no function waits for its child (by dropping the Popen, on any path) while its frame still holds a Communicator, a taken stdout/stderr or a pipe read end of that child (reported D15 in both capture()s)."
    ),
    "not_decided": "whether a particular child reacts to EOF / SIGPIPE; scheduling.",
    "trusted_base": ["rustc MIR and drop elaboration (fields/elements are dropped after the type's own Drop::drop, Vec elements in order)",
                     "closing the last descriptor of a pipe end delivers EOF / EPIPE", "mirlib finite-domain exploration, dominance, slot/provenance terms"],
    "assumptions": [],
}

POPEN = "popen::Popen"
WAITERS = ("popen::Popen::wait", "popen::Popen::wait_timeout", "popen::Popen::poll")


def releases(fn, T):
    """[(bb, receiver-term, field)] for every release of an Option<File> stream field:
    `X.field.take()` with the result dropped, or `X.field = None`"""
    out = []
    reads = local_reads(fn)
    for bb, t in fn.calls_to(lambda f: M.callee_str(f) == "std::option::Option::<T>::take"):
        a = M.noref(T.operand(t["args"][0]))
        if a[0] == "field" and a[2] in ("stdin", "stdout", "stderr") and not t["dest"]["proj"]:
            # result must not be kept: never read, or only handed to mem::drop
            if only_dropped(fn, t["dest"]["l"], reads):
                out.append((bb, a[1], a[2]))
    for bb in sorted(fn.live_blocks()):
        for si, s in enumerate(fn.blocks[bb]["stmts"]):
            if s["k"] == "assign" and s["p"]["proj"] and s["p"]["proj"][-1]["k"] == "field" and s["p"]["proj"][-1]["name"] in ("stdin", "stdout", "stderr") \
                    and s["p"]["proj"][-1]["of"] == POPEN:
                v = T.rvalue(s["r"])
                if v == ("agg", ("adt", "std::option::Option", "None"), ()):
                    base = dict(s["p"])
                    base = {"l": s["p"]["l"], "proj": s["p"]["proj"][:-1]}
                    out.append((bb, M.noref(T.place(base)), s["p"]["proj"][-1]["name"]))
    return out


def elem_selector(t, holder):
    """which element of the holder's Vec<Popen> a receiver term denotes: 'first' | 'last' | 'only' | None"""
    t = M.strip(t)
    t = M.noref(t)
    vec = ("field", holder, "0")
    if t == vec or t == holder:
        return "only"
    if t[0] == "call":
        nm = t[1]
        args = [M.noref(M.strip(a)) if isinstance(a, tuple) else a for a in t[2]]
        base = args[0] if args else None
        while base is not None and base[0] == "call" and ("deref" in base[1].lower() or "as_mut_slice" in base[1] or "as_slice" in base[1]):
            base = M.noref(M.strip(base[2][0]))
        if base != vec:
            return None
        if "index" in nm.lower() and len(t[2]) == 2:
            idx = t[2][1]
            if const_of(idx) == 0:
                return "first"
            s = M.term_str(idx)
            if idx[0] == "field" and idx[1][0] == "bin" and idx[1][1] in ("SubWithOverflow", "Sub") and const_of(idx[1][3]) == 1 and "len" in s:
                return "last"
            if idx[0] == "bin" and idx[1] == "Sub" and const_of(idx[3]) == 1 and "len" in s:
                return "last"
            return None
        if nm.endswith("::first_mut") or nm.endswith("::first"):
            return "first"
        if nm.endswith("::last_mut") or nm.endswith("::last"):
            return "last"
    return None


def run(ctx):
    prog = ctx.prog
    held_read_ends(ctx)
    config_defaults(ctx, prog, 'R12.7', ['detached'])
    pd = prog.one("<popen::Popen as std::ops::Drop>::drop")
    T = M.Terms(pd)
    selfp = ("param", 1, pd.local_name(1))
    can_wait = {p for p in prog.fns if "posix::waitpid" in M.local_closure(prog, [p])}
    can_create = {p for p in prog.fns if "popen::Popen::create" in M.local_closure(prog, [p])}

    # ---- R12.1 configurations of Popen::drop -----------------------------------
    n = 0
    for det, (sname, sval) in itertools.product((0, 1), CHILD_STATE.items()):
        n += 1
        ex = M.Explore(pd, assume={self_field("detached"): det, self_field("child_state"): sval})
        waits = [M.callee_str(t["f"]) for _, t in ex.calls() if M.callee_names(t["f"]) & can_wait]
        if det == 0 and sname == "Running":
            ok = "popen::Popen::wait" in waits
            detail = "a non-detached running child must be waited for in drop (calls that reach waitpid: %s)" % waits
        else:
            ok = not waits
            detail = "drop must not wait/reap under detached=%s, child_state=%s (reaches %s)" % (bool(det), sname, waits)
        ctx.ob("R12.1", "drop[detached=%d,%s]" % (det, sname), ok, pd.loc(0), detail)
    ctx.exhaustive = True
    # stores to `detached`
    st = []
    for p, fn in sorted(prog.fns.items()):
        for bb, si, s in stores_to_field(fn, "detached", POPEN):
            st.append((fn, bb, si, s))
        for bb, si in mut_borrows_of_field(fn, "detached", POPEN):
            ctx.ob("R12.1", "detached.mut-borrow@%s" % p, False, fn.loc(bb, si), "Popen::detached mutably borrowed")
    for fn, bb, si, s in st:
        v = M.Terms(fn).rvalue(s["r"])
        ok = fn.path == "popen::Popen::detach" and const_of(v) == 1
        ctx.ob("R12.1", "detached.store@%s" % fn.path, ok, fn.loc(bb, si), "store to Popen::detached in %s = %s (only detach(), constant true)" % (fn.path, M.term_str(v)))
    ctx.floor("R12.1", "stores to Popen::detached", len(st), 1)
    cr = prog.one("popen::Popen::create")
    Tc = M.Terms(cr)
    for bb, si, r in aggregates_of(cr, POPEN):
        v = Tc.operand(r["ops"][r["fields"].index("detached")])
        ctx.ob("R12.1", "create.detached<-config", M.noref(v) == ("field", ("param", 2, cr.local_name(2)), "detached"), cr.loc(bb, si), "initial detached = %s (must be config.detached)" % M.term_str(v))
    bd = prog.one("builder::exec::Exec::detached")
    stb = stores_to_field(bd, "detached", "popen::PopenConfig")
    okb = len(stb) == 1 and const_of(M.Terms(bd).rvalue(stb[0][2]["r"])) == 1
    ctx.ob("R12.1", "Exec::detached.stores-true", okb, bd.loc(0), "Exec::detached() must store constant true into config.detached")

    # ---- R12.2 release before wait ------------------------------------------------
    waits = [(bb, t) for bb, t in pd.calls() if M.callee_names(t["f"]) & can_wait]
    rel = releases(pd, T)
    own = {f: [bb for bb, recv, fld in rel if fld == f and recv == selfp] for f in ("stdin", "stdout", "stderr")}
    released_by_popen = set()
    for f in ("stdin", "stdout", "stderr"):
        ok = bool(waits) and all(dominated_by_blocks(pd, wb, own[f]) for wb, _ in waits)
        if ok:
            released_by_popen.add(f)
        if f == "stdin":
            # mandatory: a Vec<Popen> dropped by an early return (pipeline failing to start, C14) has no holder Drop to rely on
            ctx.ob("R12.2", "Popen::drop.releases-stdin-before-wait", ok, pd.loc(waits[0][0] if waits else 0),
                   "Popen::drop must close self.stdin before it blocks in wait(): a child that only waits for end-of-file on its stdin "
                   "never exits while the handle that waits for it still owns the write end (releases at %s)" % own[f])
        else:
            ctx.note("Popen::drop releases self.%s before wait: %s" % (f, ok))
    # holders
    holders = []
    for path, adt in sorted(prog.adts.items()):
        for v in adt["variants"]:
            for fld in v["fields"]:
                if re.search(r"popen::Popen(?![A-Za-z0-9_])", fld["ty"]) and path != POPEN:
                    holders.append((path, adt, fld))
    ctx.floor("R12.2", "types owning a Popen / Vec<Popen>", len(holders), 5)
    for path, adt, fld in holders:
        is_vec = "Vec<" in fld["ty"]
        # streams its trait impls touch
        touched = set()
        dropfn = None
        for p, fn in prog.fns.items():
            if fn.j.get("impl_self") and fn.j.get("impl_self").startswith(path) or (fn.j.get("container") and path in (fn.j.get("impl_self") or "")):
                pass
        for p, fn in sorted(prog.fns.items()):
            if (fn.j.get("impl_self") or "") != path:
                continue
            if fn.j.get("impl_trait") == "std::ops::Drop":
                dropfn = fn
                continue
            if fn.j.get("impl_trait") == "std::fmt::Debug":
                continue
            Th = M.Terms(fn)
            hself = ("param", 1, fn.local_name(1))
            for bb, t in fn.calls():
                for a in t["args"]:
                    term = M.noref(Th.operand(a))
                    for sub in subterms(term):
                        if sub[0] == "field" and sub[2] in ("stdin", "stdout", "stderr"):
                            sel = elem_selector(sub[1], hself)
                            touched.add((sel, sub[2]))
            # inherent helper returning &mut File (WritePipelineAdapter::stdin)
        touched = {x for x in touched if x[0] is not None}
        key = path.split("::")[-1]
        ctx.ob("R12.2", "%s.touches" % key, bool(touched), "%s:%d" % (adt["file"], adt["line"]), "%s exposes streams %s of the Popen(s) it owns" % (key, sorted(touched)))
        for sel, stream in sorted(touched):
            released = False
            if dropfn is not None:
                Td = M.Terms(dropfn)
                dself = ("param", 1, dropfn.local_name(1))
                rl = [(bb, elem_selector(recv, dself), f) for bb, recv, f in releases(dropfn, Td)]
                blocks = [bb for bb, s2, f in rl if f == stream and (s2 == sel or (sel == "only" and s2 == "only"))]
                released = bool(blocks) and all(dominated_by_blocks(dropfn, r, blocks) for r in dropfn.return_blocks())
            if is_vec:
                ok = released
                detail = ("%s owns a Vec<Popen> and exposes %s.%s: its own Drop must close that stream on every path — the elements are dropped "
                          "(and waited for) first-to-last, so an earlier stage cannot finish while the %s stage's pipe end is still open" % (key, sel, stream, sel))
            else:
                ok = released or stream in released_by_popen
                detail = ("%s exposes %s of its Popen and the caller cannot close it: either %s's own Drop or Popen::drop must close that end before the "
                          "wait, otherwise dropping the adapter while the child still writes (or waits for EOF) hangs forever" % (key, stream, key))
            ctx.ob("R12.2", "%s.releases-%s.%s" % (key, sel, stream), ok, "%s:%d" % (adt["file"], adt["line"]), detail)

    # ---- R12.3 destructors cannot be skipped; join/capture wait on what they own -----
    for p, fn in sorted(prog.fns.items()):
        for bb, t in fn.calls():
            nm = M.callee_str(t["f"])
            last = nm.split("::")[-1]
            if (last in ("forget", "leak", "into_raw") or ("ManuallyDrop" in nm and last == "new")) and p != "posix::make_standard_stream":
                ctx.ob("R12.3", "skip-drop:%s@%s" % (last, p), False, fn.loc(bb), "%s can skip a destructor" % nm)
    for meth in ("builder::exec::Exec::join", "builder::exec::Exec::capture", "builder::pipeline::Pipeline::join", "builder::pipeline::Pipeline::capture"):
        f = prog.fns.get(meth)
        if f is None:
            ctx.missing("R12.3", meth)
            continue
        Tm = M.Terms(f)
        wc = f.calls_to(lambda c: M.callee_str(c) == "popen::Popen::wait")
        ok = len(wc) == 1
        src = None
        if ok:
            recv = Tm.operand(wc[0][1]["args"][0])
            src = M.term_str(recv)
            ok = M.contains(recv, lambda u: u[0] == "call" and u[1] in ("builder::exec::Exec::popen", "builder::pipeline::Pipeline::popen", "builder::exec::Exec::setup_communicate", "builder::pipeline::Pipeline::setup_communicate"))
        ctx.ob("R12.3", "%s.waits-own-popen" % meth.split("builder::")[-1], ok, f.loc(0), "%s must wait on the Popen it just started (receiver %s)" % (meth, (src or "")[:120]))

    # ---- R12.4 communicate() detaches before spawning ---------------------------------
    ec = prog.one("builder::exec::Exec::communicate")
    Te = M.Terms(ec)
    sc = ec.calls_to(lambda c: M.callee_str(c) == "builder::exec::Exec::setup_communicate")
    ok = len(sc) == 1 and Te.operand(sc[0][1]["args"][0])[:2] == ("call", "builder::exec::Exec::detached")
    ctx.ob("R12.4", "Exec::communicate.detached-first", ok, ec.loc(0), "Exec::communicate must call setup_communicate on self.detached()")
    pc = prog.one("builder::pipeline::Pipeline::communicate")
    # somewhere on communicate()'s way to the spawn, *all* cmds are mapped through Exec::detached and stored back first
    found = []
    for p_ in sorted(M.local_closure(prog, [pc.path])):
        f_ = prog.fns[p_]
        if not p_.startswith("builder::pipeline::Pipeline::") or "{closure" in p_:
            continue
        Tp = M.Terms(f_)
        def detaching(fterm):
            """the mapped function is Exec::detached itself, or a closure that does nothing but call it"""
            fterm = M.noref(fterm)
            if fterm == ("fnitem", "builder::exec::Exec::detached"):
                return True
            if fterm[0] == "agg" and fterm[1][0] == "closure" and fterm[1][1] in prog.fns:
                return [M.callee_str(t["f"]) for _, t in prog.fns[fterm[1][1]].calls()] == ["builder::exec::Exec::detached"]
            return False
        mp = [(b_, t_) for b_, t_ in f_.calls_to(lambda c: M.callee_str(c) == "std::iter::Iterator::map") if detaching(Tp.operand(t_["args"][1]))]
        if not mp:
            continue
        whole = False
        if len(mp) == 1:
            src_ = M.noref(M.strip(Tp.operand(mp[0][1]["args"][0]), also=("<std::vec::Vec<T, A> as std::iter::IntoIterator>::into_iter", "std::iter::IntoIterator::into_iter")))
            # self.cmds — `self` may have been rebuilt by builder calls (self = self.stderr_to(..)): only-from self
            whole = all(a_[0] == "field" and a_[2] == "cmds" and all(l_[0] in ("param", "local") and (l_[0] == "local" or l_[1] == 1) or l_[0] == "const" or l_[0] == "call" for l_ in M.leaves(a_[1]))
                        and any(l_ == ("param", 1, f_.local_name(1)) or l_[0] == "local" for l_ in M.leaves(a_[1])) for a_ in M.alts(src_)) \
                and Tp.operand(mp[0][1]["args"][0])[0] == "call" and Tp.operand(mp[0][1]["args"][0])[1].endswith("into_iter")
        st = stores_to_field(f_, "cmds", "builder::pipeline::Pipeline")
        spawners = [(b_, t_) for b_, t_ in f_.calls() if any(n_ in can_create for n_ in M.callee_names(t_["f"]))]
        order = bool(st) and bool(spawners) and all(dominated_by_blocks(f_, b_, [x[0] for x in st]) for b_, _ in spawners)
        found.append((p_, whole, order))
    ok = len(found) == 1 and found[0][1] and found[0][2]
    ctx.ob("R12.4", "Pipeline::communicate.detaches-every-stage", ok, pc.loc(0),
           "on the way from Pipeline::communicate to the spawn, all of self.cmds must be mapped through Exec::detached and stored back before anything is started (sites: %s)" % found)
    # ... and only communicate(): every other terminator must keep its Popens non-detached, because it is their drop
    # (after the explicit wait on one of them) that waits for and reaps the remaining children
    for meth in ("builder::exec::Exec::join", "builder::exec::Exec::capture", "builder::exec::Exec::stream_stdout", "builder::exec::Exec::stream_stderr", "builder::exec::Exec::stream_stdin",
                 "builder::pipeline::Pipeline::join", "builder::pipeline::Pipeline::capture", "builder::pipeline::Pipeline::stream_stdout", "builder::pipeline::Pipeline::stream_stdin",
                 "builder::pipeline::Pipeline::popen", "builder::exec::Exec::popen"):
        f_ = prog.fns.get(meth)
        if f_ is None:
            ctx.missing("R12.4", meth)
            continue
        cl = M.local_closure(prog, [meth])
        det = [p_ for p_ in cl if p_ in ("builder::exec::Exec::detached", "popen::Popen::detach")]
        ctx.ob("R12.4", "%s.never-detaches" % meth.split("builder::")[-1], not det, f_.loc(0),
               "%s must not detach the processes it starts (reaches %s): its contract is that every child has exited and been reaped when it returns / when its handle is dropped" % (meth, det))


def subterms(t):
    if isinstance(t, frozenset):
        for y in t:
            yield from subterms(y)
        return
    if not isinstance(t, tuple) or not t:
        return
    if isinstance(t[0], str):
        yield t
        rest = t[1:]
    else:
        rest = t
    for x in rest:
        if isinstance(x, (tuple, frozenset)):
            yield from subterms(x)


def held_read_ends(ctx):
    # R12.8: a call that owns a Popen (join, capture, the stream adapters ...) never waits for its child — by dropping the Popen, on any
    # path, the error paths included — while the same frame still holds the read ends of that child's output (a Communicator, a taken
    # stdout/stderr, the read end of a pipe it made): "a child only blocked writing output nobody will read any more is released before the wait"
    import c14
    c14.no_read_end_held_across_wait(ctx, ctx.prog, "R12.8")


def run_thorough(ctx):
    # A8: clauses enforced by the type system itself, witnessed by compile_fail doctests with compiling twins
    ctx.witness("R12.3", ['AdapterIsOpaque', 'PrivateDetached'])
