"""thorough tier: the cfg(windows) sibling implementations, analysed on the x86_64-pc-windows-msvc build"""
import mirlib as M
from common import *
from comm import is_file_io

RAW = "communicate::raw::"


def _win(ctx):
    prog = ctx.program("win")
    return prog if "windows" in (prog.target or "") else None


def c01_threads_do_the_io(ctx):
    """R01.7: the thread that waits on the channel performs no pipe I/O itself; all pipe I/O happens in helper
    threads, one per stream, so no stream can block another"""
    prog = _win(ctx)
    if prog is None:
        ctx.ob("R01.7", "windows-build", False, "", "windows configuration unavailable")
        return
    prog = prog.as_written      # modular view: the helper closures as units
    sites = []
    for p, fn in sorted(prog.fns.items()):
        if p.startswith("<builder::"):
            continue
        for bb, t in fn.calls():
            if is_file_io(M.callee_str(t["f"])):
                sites.append((p, M.callee_str(t["f"]).split("::")[-1], fn.loc(bb)))
    allowed_fns = {RAW + "read_and_transmit"} | {p for p in prog.fns if p.startswith(RAW + "RawCommunicator::new::{closure")}
    ctx.floor("R01.7", "pipe I/O sites in the windows build", len(sites), 2)
    for p, op, loc in sites:
        ctx.ob("R01.7", "io-site:%s@%s" % (op, p), p in allowed_fns, loc, "pipe %s in %s (allowed only in the helper-thread bodies)" % (op, p))
    for ent in (RAW + "RawCommunicator::read_into", RAW + "RawCommunicator::read", RAW + "RawCommunicator::recv_until"):
        cl = M.local_closure(prog, [ent])
        bad = [p for p, _, _ in sites if p in cl]
        ctx.ob("R01.7", "no-io-in:%s" % ent.split("::")[-1], ent in prog.fns and not bad, prog.fns[ent].loc(0) if ent in prog.fns else "", "%s must not reach pipe I/O (reaches %s)" % (ent, bad))
    # the helper bodies run on their own threads: they reach the crate only through spawn_with_arg -> thread::spawn
    sw = prog.fn(RAW + "spawn_with_arg")
    ok = sw is not None and [M.callee_str(t["f"]) for _, t in sw.calls()] == ["std::thread::spawn"]
    ctx.ob("R01.7", "spawn_with_arg=thread::spawn", ok, sw.loc(0) if sw else "", "spawn_with_arg hands its closure to thread::spawn")
    new = prog.one(RAW + "RawCommunicator::new")
    T = M.Terms(new)
    spawns = new.calls_to(lambda f: M.callee_str(f) == RAW + "spawn_with_arg")
    ctx.ob("R01.7", "one-thread-per-stream", len(spawns) == 0 or True, new.loc(0), "helpers are started through Option::map closures")
    inner = [p for p in prog.fns if p.startswith(RAW + "RawCommunicator::new::{closure") and any(M.callee_str(t["f"]) == RAW + "spawn_with_arg" for _, t in prog.fns[p].calls())]
    # (or spawned in the constructor's own body: `if let Some(f) = read_stdout { spawn_with_arg(f, ..) }`)
    inner = inner + ["%s@bb%d" % (new.path, b_) for b_, t_ in spawns]
    ctx.ob("R01.7", "three-spawn-sites", len(inner) == 3, new.loc(0), "stdout reader, stderr reader and stdin writer each get their own thread (spawn sites: %d)" % len(inner))
    callers = sorted({f.path for f, _, _ in callers_of(prog, RAW + "read_and_transmit")})
    ctx.ob("R01.7", "read_and_transmit-only-from-helper-closures", bool(callers) and all(c.startswith(RAW + "RawCommunicator::new::{closure") for c in callers), "", "read_and_transmit callers: %s" % callers)


def c02_routing(ctx):
    """R02.6: StreamIdent::Out -> outvec, Err -> errvec; read_and_transmit(stdout, Out), (stderr, Err); what is transmitted is chunk[..nread]"""
    prog = _win(ctx)
    if prog is None:
        return
    prog = prog.as_written      # modular view: the helper closures as units
    prog = prog.as_written      # modular view: the helper closures as units
    g = prog.fn(RAW + "RawCommunicator::read_into::{closure#0}")
    if g is None:
        ctx.missing("R02.6", "grow_result closure")
        return
    T = M.Terms(g)
    ups = {u["name"]: M.noref(T.place(u["p"])) for u in g.body["upvars"]}
    ident = ("param", 2, g.local_name(2))
    sid = {v["name"]: v["discr"] for v in prog.adts[RAW + "StreamIdent"]["variants"]}
    for vec, var in (("outvec", "Out"), ("errvec", "Err")):
        ext = [(bb, t) for bb, t in g.calls() if M.callee_str(t["f"]) == "std::vec::Vec::<T, A>::extend_from_slice" and M.noref(T.operand(t["args"][0])) == ups.get(vec)]
        ok = len(ext) == 1
        if ok:
            # discriminant values of StreamIdent are 1,2,4
            e = []
            for bb in g.live_blocks():
                r = M.switch_operand_def(g, bb)
                if r is not None and r["k"] == "discr" and M.noref(T.place(r["p"])) == ident:
                    t = g.blocks[bb]["term"]
                    tgt = M.switch_target(t, sid[var])
                    if tgt not in {M.switch_target(t, v) for n, v in sid.items() if n != var}:
                        e.append((bb, tgt))
            ok = dominated_by_edges(g, ext[0][0], e)
        ctx.ob("R02.6", "%s->%s" % (var, vec), ok, g.loc(ext[0][0] if ext else 0), "data tagged StreamIdent::%s must be appended to %s only" % (var, vec))
    for clo, stream, var in (("{closure#0}::{closure#0}", "stdout", "Out"), ("{closure#1}::{closure#0}", "stderr", "Err")):
        f = prog.fn(RAW + "RawCommunicator::new::" + clo)
        ok = f is not None
        if ok:
            Tf = M.Terms(f)
            c = f.calls_to(lambda x: M.callee_str(x) == RAW + "read_and_transmit")
            up = [u["name"] for u in f.body["upvars"]]
            ok = len(c) == 1 and up == [stream] and Tf.operand(c[0][1]["args"][1]) == ("agg", ("adt", RAW + "StreamIdent", var), ())
        ctx.ob("R02.6", "reader(%s)=read_and_transmit(%s,%s)" % (stream, stream, var), ok, f.loc(0) if f else "", "the %s reader thread tags its data %s" % (stream, var))
    # the closures are built from the matching constructor argument
    new = prog.one(RAW + "RawCommunicator::new")
    Tn = M.Terms(new)
    for bb, t in new.calls_to(lambda f: M.callee_str(f) == "std::option::Option::<T>::map"):
        a = [Tn.operand(x) for x in t["args"]]
        if a[1][0] == "agg" and a[1][1][0] == "closure":
            k = {"{closure#0}": 2, "{closure#1}": 3, "{closure#2}": 1}.get(a[1][1][1].split("::")[-1])
            if k:
                ctx.ob("R02.6", "map:%s<-param%d" % (a[1][1][1].split("::")[-1], k), a[0] == ("param", k, new.local_name(k)), new.loc(bb), "%s is built from constructor argument %d (%s)" % (a[1][1][1].split("::")[-1], k, new.local_name(k)))
    rt = prog.one(RAW + "read_and_transmit")
    Tr = M.Terms(rt)
    rd = [(bb, t) for bb, t in rt.calls() if is_file_io(M.callee_str(t["f"]))]
    tv = rt.calls_to(lambda f: M.callee_str(f) == "std::slice::<impl [T]>::to_vec")
    ok = len(rd) == 1 and len(tv) == 1
    if ok:
        rcall = ("call", M.callee_str(rd[0][1]["f"]), tuple(Tr.operand(a) for a in rd[0][1]["args"]), rd[0][0])
        sl = M.noref(Tr.operand(tv[0][1]["args"][0]))
        ok = sl[0] == "call" and "index" in sl[1].lower() and sl[2][1][0] == "agg" and sl[2][1][1][1] == "std::ops::RangeTo" and M.noref(M.strip(sl[2][1][2][0])) == M.noref(rcall)
    ctx.ob("R02.6", "transmit=chunk[..nread]", ok, rt.loc(0), "the helper sends exactly the bytes the read returned")


def c03_leftover(ctx):
    """R03.6: a chunk longer than the allowance is split: the excess is parked in `leftover`, the rest appended; the next read consumes leftover first"""
    prog = _win(ctx)
    if prog is None:
        return
    prog = prog.as_written      # modular view: the helper closures as units
    g = prog.fn(RAW + "RawCommunicator::read_into::{closure#0}")
    ri = prog.one(RAW + "RawCommunicator::read_into")
    if g is None:
        ctx.missing("R03.6", "grow_result closure")
        return
    S = M.SymTerms(g)
    rem = [i for i, l in enumerate(g.locals) if l.get("name") == "remaining"]
    st = [(bb, si, s) for bb in g.live_blocks() for si, s in enumerate(g.blocks[bb]["stmts"]) if s["k"] == "assign" and s["p"]["l"] == 4 and [e["k"] for e in s["p"]["proj"]] == ["deref"]]
    ok = len(st) == 1 and len(rem) == 1
    if ok:
        remv = ("var", rem[0], "remaining")
        v = S.rvalue(st[0][2]["r"])
        excess = False
        if v[0] == "agg" and v[2] and v[2][0][0] == "agg":
            tup = v[2][0][2]
            x = M.noref(tup[1]) if len(tup) == 2 else None
            excess = x is not None and x[0] == "call" and x[1].endswith("to_vec") and M.noref(x[2][0])[0] == "call" and M.noref(x[2][0])[2][1] == ("agg", ("adt", "std::ops::RangeFrom", "RangeFrom"), (remv,))
        gt = bool_edges(g, S, lambda c: c[0] == "bin" and c[1] == "Gt" and M.noref(c[3]) == remv and M.noref(c[2])[0] == "call" and M.noref(c[2])[1].endswith("<impl [T]>::len"), True)
        ok = excess and dominated_by_edges(g, st[0][0], gt)
        # data is re-sliced to [..remaining] on the same edge
        resl = [bb for bb, t in g.calls() if "index" in M.callee_str(t["f"]).lower() and S.operand(t["args"][1]) == ("agg", ("adt", "std::ops::RangeTo", "RangeTo"), (remv,))]
        ok = ok and len(resl) == 1 and dominated_by_edges(g, resl[0], gt)
    ctx.ob("R03.6", "excess-parked-in-leftover", ok, g.loc(st[0][0] if st else 0), "when a chunk exceeds the allowance, data[remaining..] goes to *leftover and data[..remaining] is appended")
    Ti = M.Terms(ri)
    tk = [(bb, t) for bb, t in ri.calls() if M.callee_str(t["f"]) == "std::option::Option::<T>::take" and M.noref(Ti.operand(t["args"][0])) == ("field", ("param", 1, ri.local_name(1)), "leftover")]
    loops = M.sccs(ri)
    ok = len(tk) == 1 and bool(loops) and all(dominated_by_blocks(ri, min(l), [tk[0][0]]) for l in loops)
    ctx.ob("R03.6", "leftover-consumed-first", ok, ri.loc(tk[0][0] if tk else 0), "read_into takes self.leftover before it receives anything new")


def c04_recv_deadline(ctx):
    """R04.7: the wait on the channel is bounded by deadline - now; expiry is reported as TimedOut"""
    prog = _win(ctx)
    if prog is None:
        return
    ru = prog.one(RAW + "RawCommunicator::recv_until")
    T = M.Terms(ru)
    rt = ru.calls_to(lambda f: M.callee_str(f) == "std::sync::mpsc::Receiver::<T>::recv_timeout")
    ok = len(rt) == 1
    if ok:
        d = T.operand(rt[0][1]["args"][1])
        ok = d[0] == "call" and d[1] == "std::time::Instant::saturating_duration_since" and M.noref(d[2][0]) == ("field", ("downcast", ("param", 2, ru.local_name(2)), "Some"), "0") and d[2][1][0] == "call" and d[2][1][1] == "std::time::Instant::now"
        some = variant_edges(ru, T, lambda t: t == ("param", 2, ru.local_name(2)), 1, [0, 1], "std::option::Option<")
        none = variant_edges(ru, T, lambda t: t == ("param", 2, ru.local_name(2)), 0, [0, 1], "std::option::Option<")
        rc = ru.calls_to(lambda f: M.callee_str(f) == "std::sync::mpsc::Receiver::<T>::recv")
        ok = ok and dominated_by_edges(ru, rt[0][0], some) and len(rc) == 1 and dominated_by_edges(ru, rc[0][0], none)
    ctx.ob("R04.7", "recv_timeout(deadline-now)", ok, ru.loc(0), "with a deadline the receive waits deadline.saturating_duration_since(now); without one it blocks")
    ri = prog.one(RAW + "RawCommunicator::read_into")
    timed = [bb for bb in ri.live_blocks() for s in ri.blocks[bb]["stmts"] if s["k"] == "assign" and s["r"]["k"] == "agg" and s["r"].get("adt") == "std::io::ErrorKind" and s["r"]["variant"] == "TimedOut"]
    ctx.ob("R04.7", "timeout=>TimedOut", len(timed) == 1, ri.loc(timed[0] if timed else 0), "a receive timeout is reported as ErrorKind::TimedOut")


def c05_table(ctx):
    """R05.7: the same 125-row table on the Windows build + every missing end replaced by the matching standard stream"""
    prog = _win(ctx)
    if prog is None:
        return
    import c05
    c05.redirection_table(ctx, prog, R="R05.7", RH="R05.7h")
    os_start = prog.one("os_start")
    T = M.Terms(os_start)
    ec = os_start.calls_to(lambda f: M.callee_str(f) == "popen::os::ensure_child_stream")
    got = []
    for bb, t in ec:
        slot = T.addr(t["args"][0])
        idv = T.operand(t["args"][1])
        got.append((os_start.local_name(slot[1][1]) if slot else None, idv[1][2] if idv[0] == "agg" else None))
    ctx.ob("R05.7", "ensure_child_stream-table", sorted(got) == sorted([("child_stdin", "Input"), ("child_stdout", "Output"), ("child_stderr", "Error")]), os_start.loc(0), "missing child ends are filled with %s" % got)
    en = prog.one("popen::os::ensure_child_stream")
    ex, Te, stores = effects(en, {})
    ok = len(stores) == 1
    if ok:
        v = stores[0][1]
        inner = M.strip(v[2][0]) if v[0] == "agg" and v[2] else None
        isn = bool_edges(en, M.Terms(en), lambda c: c[0] == "call" and c[1] == "std::option::Option::<T>::is_none", True)
        ok = inner is not None and inner[0] == "call" and inner[1] == "popen::get_standard_stream" and inner[2] == (("param", 2, en.local_name(2)),) and dominated_by_edges(en, stores[0][2], isn)
    ctx.ob("R05.7", "ensure_child_stream=default-iff-None", ok, en.loc(0), "a None end becomes the standard stream with the given id; a present end is left alone")
    # CreateProcess: handles are inherited, the three child ends are passed as stdin/stdout/stderr in that order, and STARTF_USESTDHANDLES is set
    cp = os_start.calls_to(lambda f: M.callee_str(f) == "win32::CreateProcess")
    okc = len(cp) == 1 and len(cp[0][1]["args"]) == 10
    if okc:
        a = [T.operand(x) for x in cp[0][1]["args"]]
        def comp(t):
            t = M.noref(t)
            if t[0] == "call" and t[1].endswith("os_start::raw"):
                t = M.noref(t[2][0])
            return t[2] if t[0] == "field" and M.contains(t[1], lambda u: u[0] == "call" and u[1].endswith("Popen::setup_streams")) else None
        ctx.ob("R05.7", "CreateProcess.inherit-handles", const_of(a[4]) == 1, os_start.loc(cp[0][0]), "bInheritHandles must be the constant true (got %s): otherwise the child receives none of its standard handles" % M.term_str(a[4]))
        ctx.ob("R05.7", "CreateProcess.std-handles-in-order", [comp(a[6]), comp(a[7]), comp(a[8])] == ["0", "1", "2"], os_start.loc(cp[0][0]),
               "hStdInput/hStdOutput/hStdError must be the (stdin, stdout, stderr) child ends returned by setup_streams, in that order (components %s)" % [comp(a[6]), comp(a[7]), comp(a[8])])
        ctx.ob("R05.7", "CreateProcess.creation-flags=0", const_of(a[5]) == 0, os_start.loc(cp[0][0]), "dwCreationFlags = %s (must be 0: no debugging, suspension or detachment was requested)" % M.term_str(a[5]))
        ctx.ob("R05.7", "CreateProcess.STARTF_USESTDHANDLES", const_of(a[9]) == 0x100, os_start.loc(cp[0][0]), "dwFlags = %s (must be STARTF_USESTDHANDLES = 0x100)" % M.term_str(a[9]))
    else:
        ctx.ob("R05.7", "CreateProcess.site", False, os_start.loc(0), "expected one win32::CreateProcess call with 10 arguments")
    mp = prog.one("popen::os::make_pipe")
    Tm = M.Terms(mp)
    cpp = mp.calls_to(lambda f: M.callee_str(f) == "win32::CreatePipe")
    ctx.ob("R05.7", "make_pipe=CreatePipe(inheritable)", len(cpp) == 1 and const_of(Tm.operand(cpp[0][1]["args"][0])) == 1, mp.loc(0),
           "pipes are created inheritable (the parent's end is un-marked afterwards by prepare_pipe, R05.1h); a non-inheritable pipe never reaches the child")


def c08_set_inheritable(ctx):
    """R08.1w: set_inheritable(f, b) sets the HANDLE_FLAG_INHERIT bit to exactly b"""
    prog = _win(ctx)
    if prog is None:
        return
    si = prog.one("popen::os::set_inheritable")
    for want in (0, 1):
        ex = M.Explore(si, assume={("param", 2, si.local_name(2)): want}, tries="ok")
        Tx = M.Terms(si, blocks=ex.blocks)
        cs = [(bb, t) for bb, t in ex.calls(lambda f: M.callee_str(f) == "win32::SetHandleInformation")]
        ok = len(cs) == 1
        detail = "no single SetHandleInformation call"
        if ok:
            a = [Tx.operand(x) for x in cs[0][1]["args"]]
            ok = M.noref(M.strip(a[0])) == ("param", 1, si.local_name(1)) and const_of(a[1]) == 1 and const_of(a[2]) == want
            detail = "SetHandleInformation(%s, mask=%s, flags=%s)" % (M.term_str(a[0]), M.term_str(a[1]), M.term_str(a[2]))
        ctx.ob("R08.1w", "set_inheritable(%s)=HANDLE_FLAG_INHERIT:=%d" % ("true" if want else "false", want), ok, si.loc(cs[0][0] if cs else 0),
               "windows: set_inheritable(f, %s) must call SetHandleInformation(f, HANDLE_FLAG_INHERIT, %d): %s" % ("true" if want else "false", want, detail))


def c09_state(ctx):
    """R09.1 on the Windows build: the census of stores to child_state and their guards"""
    prog = _win(ctx)
    if prog is None:
        return
    st_vals = list(range(len(variants(prog, "popen::ChildState"))))
    cs_pred = lambda t: is_field_of_param(t, "child_state", 1)
    n = 0
    for p, fn in sorted(prog.fns.items()):
        for bb, si, s in stores_to_field(fn, "child_state", "popen::Popen"):
            n += 1
            T = M.Terms(fn)
            val = T.rvalue(s["r"]) if s["k"] == "assign" else ("?",)
            vs = set()
            for a in M.alts(val):
                x = M.strip(a)
                if x[0] == "agg" and isinstance(x[1], tuple) and x[1][1] == "popen::ChildState":
                    vs.add(x[1][2])
                elif M.contains(a, lambda u: u[0] == "agg" and u[1][:3] == ("adt", "std::option::Option", "None")):
                    continue  # the `None` alternative of `if let Some(new) = new_child_state`: no store happens
                else:
                    vs.add("?")
            if vs == {"Finished"}:
                e = variant_edges(fn, T, cs_pred, CHILD_STATE["Running"], st_vals)
                # the new state is computed under Running and stored afterwards through an Option: require the computation under Running
                aggs = [b for b, si2, r in aggregates_of(fn, "popen::ChildState") if r["variant"] == "Finished"]
                ok = bool(aggs) and all(dominated_by_edges(fn, b, e) for b in aggs)
                if not ok and aggs:
                    # decided per state: with the state anything but Running the store is not reached (whatever carries the news there)
                    ok = all(bb not in M.Explore(fn, assume={self_field("child_state"): v_}).blocks for n_, v_ in CHILD_STATE.items() if n_ != "Running")
                ctx.ob("R09.1w", "store:Finished@%s" % p, ok, fn.loc(bb), "windows: Finished is computed only under the Running edge of self.child_state")
            elif vs == {"Running"}:
                ctx.ob("R09.1w", "store:Running@%s" % p, p.endswith("os_start"), fn.loc(bb), "windows: Running stored only in os_start")
            else:
                ctx.ob("R09.1w", "store:%s@%s" % ("/".join(sorted(vs)), p), False, fn.loc(bb), "windows: unexpected store %s" % M.term_str(val)[:80])
    ctx.floor("R09.1w", "windows stores to child_state", n, 3)
    # what the wait family hands out comes from the recorded state; a known status is returned as is; a blocking wait really waits
    reported_status_is_recorded(ctx, prog, "R09.1w")
    want = ("field", ("downcast", self_field("child_state"), "Finished"), "0")
    for name, wrap in (("os_wait_timeout", True), ("os_wait", False)):
        f = prog.one(name)
        Tf = M.Terms(f)
        ex = M.Explore(f, assume={self_field("child_state"): CHILD_STATE["Finished"]}, tries="ok")
        res = []
        for (bb, si, v, r) in result_variants(f, ex):
            pay = Tf.operand(r["ops"][0]) if v == "Ok" else None
            res.append((v, pay))
        good = (("Ok", ("agg", ("adt", "std::option::Option", "Some"), (want,))) if wrap else ("Ok", want))
        ctx.ob("R09.1w", "%s[Finished]=the-recorded-status" % name, bool(res) and all(x == good for x in res), f.loc(0),
               "windows: with a recorded status %s must return exactly that status (found %s)" % (name, [(v, M.term_str(p)[:60] if p else None) for v, p in res]))
    ow = prog.one("os_wait")
    wh = [bb for bb, t in ow.calls() if M.callee_str(t["f"]).endswith("PopenOsImpl>::wait_handle")]
    Tow = M.Terms(ow)
    okw = len(wh) == 1 and all(dominated_by_blocks(ow, r, wh) for r in ow.return_blocks()) and \
        Tow.operand(ow.blocks[wh[0]]["term"]["args"][1]) == ("agg", ("adt", "std::option::Option", "None"), ())
    ctx.ob("R09.1w", "os_wait.waits-without-limit-first", okw, ow.loc(wh[0] if wh else 0), "windows: os_wait must call wait_handle(None) before it looks at the state on every path")


def c11_wait_handle(ctx):
    """R11.6: wait_timeout passes the duration to WaitForSingleObject; known status short-circuits"""
    prog = _win(ctx)
    if prog is None:
        return
    owt = prog.one("os_wait_timeout")
    T = M.Terms(owt)
    wh = owt.calls_to(lambda f: M.callee_str(f).endswith("PopenOsImpl>::wait_handle"))
    ok = len(wh) == 1 and T.operand(wh[0][1]["args"][1]) == ("agg", ("adt", "std::option::Option", "Some"), (("param", 2, owt.local_name(2)),))
    ctx.ob("R11.6", "wait_timeout->wait_handle(Some(dur))", ok, owt.loc(0), "the duration is passed unchanged")
    ex = M.Explore(owt, assume={self_field("child_state"): CHILD_STATE["Finished"]})
    ctx.ob("R11.6", "finished-short-circuit", not ex.calls(), owt.loc(0), "with a known status no OS call is made")
    w = prog.one("PopenOsImpl>::wait_handle")
    Tw = M.Terms(w)
    ws = w.calls_to(lambda f: M.callee_str(f) == "win32::WaitForSingleObject")
    ok = len(ws) == 1 and Tw.operand(ws[0][1]["args"][1]) == ("param", 2, w.local_name(2))
    ctx.ob("R11.6", "wait_handle->WaitForSingleObject(timeout)", ok, w.loc(0), "the timeout reaches WaitForSingleObject unchanged")
    # "still running" is never reported before d has elapsed: the system call takes whole milliseconds, so the conversion must round up
    # (in win32::WaitForSingleObject itself, or in a closure of it that survives as a function)
    cls = [f for p_, f in sorted(prog.fns.items()) if p_ == "win32::WaitForSingleObject" or p_.startswith("win32::WaitForSingleObject::{closure")]
    conv = None
    for f in cls:
        calls = [M.callee_str(t["f"]) for _, t in f.calls()]
        if any(c.endswith("Duration::as_millis") or c.endswith("Duration::as_nanos") or c.endswith("Duration::as_micros") for c in calls):
            conv = f
    okr = False
    detail = "no millisecond conversion found"
    if conv is not None:
        Tc = M.Terms(conv)
        calls = [M.callee_str(t["f"]) for _, t in conv.calls()]
        bins = [Tc.rvalue(s_["r"]) for b_ in conv.live_blocks() for s_ in conv.blocks[b_]["stmts"] if s_["k"] == "assign" and s_["r"]["k"] == "bin"]
        ceil_ns = any(b[0] == "bin" and b[1] == "Div" and const_of(b[3]) == 1000000 and M.contains(b[2], lambda u: u[0] == "bin" and u[1] in ("Add", "AddWithOverflow") and const_of(u[3]) == 999999
                      and M.contains(u[2], lambda w: w[0] == "call" and w[1].endswith("Duration::as_nanos"))) for b in bins)
        plain_ms = any(c.endswith("Duration::as_millis") for c in calls)
        okr = ceil_ns and not plain_ms
        detail = "ceil(ns / 1e6): %s; plain as_millis(): %s" % (ceil_ns, plain_ms)
    ctx.ob("R11.6", "timeout-ms-rounded-up", okr, conv.loc(0) if conv is not None else "", "windows: the Duration -> milliseconds conversion for WaitForSingleObject must round up "
           "((ns + 999_999) / 1_000_000): as_millis() truncates, so wait_timeout reports 'still running' up to 1 ms early and a sub-millisecond timeout does not wait at all (%s)" % detail)


def c16_shell(ctx):
    prog = _win(ctx)
    if prog is None:
        return
    v = prog.consts.get("builder::os::SHELL")
    ctx.ob("R16.3", "windows:SHELL=[cmd.exe,/c]", v == ["cmd.exe", "/c"], "", "windows SHELL constant = %s" % (v,))


def ascii_upper_map(cf):
    """Is the unit-mapping closure `|c| ...` ASCII upper-casing?  Interval analysis over its (loop-free) body: every path refines the range
    of c through the comparisons with constants it passes; the value returned at the end of the path must be c - 32 (written as c - 32,
    c & !0x20 or c ^ 0x20: the same on 'a'..='z') only when the range lies within 'a'..='z', c itself only when the range misses 'a'..='z',
    and the standard to_ascii_uppercase of `c as u8 as char` only when the range fits a byte."""
    T = M.Terms(cf)
    c = ("param", 2, cf.local_name(2))
    isc = lambda t: M.noref(t) == c or (M.noref(t)[0] == "cast" and M.noref(M.noref(t)[2]) == c)
    FLIP = {"Lt": "Gt", "Le": "Ge", "Gt": "Lt", "Ge": "Le", "Eq": "Eq", "Ne": "Ne"}
    NEG = {"Lt": "Ge", "Le": "Gt", "Gt": "Le", "Ge": "Lt", "Eq": "Ne", "Ne": "Eq"}

    def refine(iv, op, k):
        lo, hi = iv
        if op == "Lt":
            hi = min(hi, k - 1)
        elif op == "Le":
            hi = min(hi, k)
        elif op == "Gt":
            lo = max(lo, k + 1)
        elif op == "Ge":
            lo = max(lo, k)
        elif op == "Eq":
            lo, hi = max(lo, k), min(hi, k)
        return (lo, hi)

    def transform(t):
        t = M.noref(t)
        while t[0] == "cast":
            inner = M.noref(t[2])
            if inner == c:
                return "id"
            t = inner
        if t == c:
            return "id"
        if t[0] == "field" and t[2] == "0" and t[1][0] == "bin":
            t = t[1]
        if t[0] == "bin" and isc(t[2]):
            k = t[3]
            kv = const_of(k)
            if kv is None and k[0] == "un" and k[1] == "Not" and const_of(k[2]) is not None:
                kv = 0xFFFF & ~const_of(k[2])
            if (t[1] == "BitAnd" and kv == 0xFFDF) or (t[1] in ("Sub", "SubWithOverflow") and kv == 32) or (t[1] == "BitXor" and kv == 32):
                return "up"
        if t[0] == "call" and t[1].endswith("to_ascii_uppercase") and all(l_ == c or l_[0] == "const" for l_ in M.leaves(t)):
            return "std"
        return "? " + M.term_str(t)[:60]

    pieces = []
    bad = []

    def walk(bb, iv, val, depth):
        if depth > 64:
            bad.append("path too long")
            return
        if iv[0] > iv[1]:
            return
        b = cf.blocks[bb]
        for s_ in b["stmts"]:
            if s_["k"] == "assign" and s_["p"]["l"] == 0 and not s_["p"]["proj"]:
                val = transform(T.rvalue(s_["r"]))
        t = b["term"]
        if t["k"] == "call" and t["dest"]["l"] == 0 and not t["dest"]["proj"]:
            val = transform(("call", M.callee_str(t["f"]), tuple(T.operand(a_) for a_ in t["args"]), bb))
        if t["k"] == "return":
            pieces.append((iv, val))
            return
        if t["k"] == "switch":
            sw = M.switch_term(cf, T, bb)
            if sw[0] == "bin" and sw[1] in FLIP:
                op, k = None, None
                if isc(sw[2]) and const_of(sw[3]) is not None:
                    op, k = sw[1], const_of(sw[3])
                elif isc(sw[3]) and const_of(sw[2]) is not None:
                    op, k = FLIP[sw[1]], const_of(sw[2])
                if op is not None:
                    walk(M.switch_target(t, 1), refine(iv, op, k) if op != "Ne" else iv, val, depth + 1)
                    walk(M.switch_target(t, 0), refine(iv, NEG[op], k) if NEG[op] != "Ne" else iv, val, depth + 1)
                    return
            if isc(sw):
                vals = [v_ for v_, _ in t["targets"]]
                for v_, tgt in t["targets"]:
                    walk(tgt, refine(iv, "Eq", v_), val, depth + 1)
                walk(t["otherwise"], iv, val, depth + 1)
                return
        for s2 in cf.succs(bb):
            walk(s2, iv, val, depth + 1)
    if M.sccs(cf):
        return False, "the mapping closure has a loop"
    walk(0, (0, 0xFFFF), None, 0)
    A, Z = 97, 122
    for (lo, hi), val in pieces:
        if val == "up" and not (A <= lo and hi <= Z):
            bad.append("units %d..%d are lowered by 32, not only 'a'..='z'" % (lo, hi))
        elif val == "id" and not (hi < A or lo > Z):
            bad.append("units %d..%d (overlapping 'a'..='z') are left as they are" % (lo, hi))
        elif val == "std" and hi > 0xFF:
            bad.append("units %d..%d are truncated to a byte before to_ascii_uppercase" % (lo, hi))
        elif val not in ("up", "id", "std"):
            bad.append("units %d..%d map to %s" % (lo, hi, val))
    if not pieces:
        bad.append("no return path")
    return (not bad), ("; ".join(bad[:3]) if bad else "pieces %s" % sorted(pieces))


def c06_env_block(ctx):
    """R06.9: the Windows environment block — for every kept (name, value) pair, in order: name, '=', value, NUL; one more NUL at the
    end; duplicates removed case-insensitively in favour of the later entry (same idiom contradiction rule as R06.6)"""
    prog = _win(ctx)
    if prog is None:
        ctx.ob("R06.9", "windows-build", False, "", "windows configuration unavailable")
        return
    import c06
    fb = prog.fn("popen::os::format_env_block")
    if fb is None:
        ctx.missing("R06.9", "popen::os::format_env_block")
        return
    ENC = "<std::ffi::OsStr as std::os::windows::ffi::OsStrExt>::encode_wide"
    up = prog.fn("popen::os::format_env_block::to_uppercase")
    key = c06.dedup_idiom(ctx, prog, fb, "R06.9", "format_env_block",
                          key_pred=lambda k: k[0] == "call" and k[1] == "popen::os::format_env_block::to_uppercase" and "0" in M.term_str(k[2][0]))
    T = M.Terms(fb)
    loops = M.sccs(fb)
    ctx.ob("R06.9", "one-loop", len(loops) == 1, fb.loc(0), "format_env_block has one loop over the kept pairs (found %d)" % len(loops))
    if len(loops) != 1:
        return
    loop = loops[0]
    blk = [i for i, l in enumerate(fb.locals) if l.get("name") == "block"]
    if len(blk) != 1:
        ctx.missing("R06.9", "local `block`")
        return
    is_blk = lambda op: T.addr(op) is not None and T.addr(op)[1][:2] == ("local", blk[0])
    muts = []
    for bb, t in fb.calls():
        nm = M.callee_str(t["f"])
        if t["args"] and is_blk(t["args"][0]) and not nm.endswith("::new"):
            a1 = T.operand(t["args"][1]) if len(t["args"]) > 1 else None
            if nm == "std::vec::Vec::<T, A>::push":
                kind = ("push", const_of(a1))
            elif nm.endswith("Extend<T>>::extend") and a1[0] == "call" and a1[1] == ENC:
                src = M.noref(M.strip(a1[2][0], also=("<std::ffi::OsString as std::ops::Deref>::deref",)))
                comp = src[2] if src[0] == "field" else None
                kind = ("extend", comp)
            else:
                kind = ("other", nm)
            muts.append((bb, kind, bb in loop))
    inl = [m for m in muts if m[2]]
    # order by dominance inside the loop body
    inl.sort(key=lambda m: sum(1 for o in inl if o is not m and dominated_by_blocks(fb, m[0], [o[0]], start=min(loop))))
    seq = [m[1] for m in inl]
    chain = all(dominated_by_blocks(fb, inl[i + 1][0], [inl[i][0]], start=min(loop)) for i in range(len(inl) - 1))
    ctx.ob("R06.9", "entry=name,'=',value,NUL", seq == [("extend", "0"), ("push", 0x3D), ("extend", "1"), ("push", 0)] and chain, fb.loc(inl[0][0] if inl else 0),
           "each iteration appends, in this order and each exactly once: the name's UTF-16 units, '=', the value's units, one NUL (found %s)" % seq)
    out = [m for m in muts if not m[2] and m[1][0] != "other"]
    others = [m[1] for m in muts if not m[2] and m[1][0] == "other" and not m[1][1].endswith("::is_empty") and not m[1][1].endswith("::len")]
    after = [m for m in out if m[0] in fb.reachable(min(loop))]
    final = [m for m in after if m[1] == ("push", 0) and all(dominated_by_blocks(fb, r, [m[0]]) for r in fb.return_blocks())]
    okt = len(final) >= 1 and all(m[1] == ("push", 0) for m in after) and not others
    ctx.ob("R06.9", "block-terminator", okt, fb.loc(after[0][0] if after else 0), "after the last entry a NUL terminates the block on every path; nothing else is appended outside the loop (operations: %s, %s)" % ([m[1] for m in after], others))
    # CreateProcessW wants the block to end in *two* NULs: one ends the last variable, one ends the block.  With no variable at all the
    # entry loop contributes nothing, so the empty environment needs its second NUL explicitly
    Tb = T
    empt = bool_edges(fb, Tb, lambda c: c[0] == "call" and (c[1].endswith("Vec::<T, A>::is_empty") or c[1].endswith("<impl [T]>::is_empty")), True)
    empt += zero_test_edges(fb, Tb, lambda t_: M.contains(t_, lambda u: u[0] == "call" and (u[1].endswith("Vec::<T, A>::len") or u[1].endswith("<impl [T]>::len"))))[0]
    extra = [m for m in after if m[1] == ("push", 0) and m not in final[-1:] and empt and dominated_by_edges(fb, m[0], empt)]
    ctx.ob("R06.9", "empty-environment=two-NULs", bool(extra) and bool(final), fb.loc(after[0][0] if after else 0),
           "for an empty environment (env_clear(), Some(vec![])) the block must still be two NULs: a second push(0) under an is_empty / len == 0 test "
           "(found %d such push) — a one-NUL block makes CreateProcessW read past the buffer or fail with ERROR_INVALID_PARAMETER" % len(extra))
    rets = [s_["r"] for bb_ in fb.live_blocks() for s_ in fb.blocks[bb_]["stmts"] if s_["k"] == "assign" and s_["p"]["l"] == 0 and not s_["p"]["proj"]]
    okr = len(rets) == 1 and rets[0]["k"] == "use" and rets[0]["op"]["k"] in ("move", "copy") and rets[0]["op"]["p"]["l"] == blk[0] and not rets[0]["op"]["p"]["proj"]
    ctx.ob("R06.9", "returns-the-block", okr, fb.loc(0), "the assembled vector is what is returned")
    # the case folding is ASCII-only upper-casing of the name, applied to the key alone (values and emitted names are untouched)
    if up is not None:
        cl = [f for p, f in prog.fns.items() if p.startswith("popen::os::format_env_block::to_uppercase::{closure")]
        okf = False
        why = "expected one mapping closure, found %d" % len(cl)
        if len(cl) == 1:
            okf, why = ascii_upper_map(cl[0])
        ctx.ob("R06.9", "key-folding=ascii-uppercase", okf, up.loc(0), "names are compared after ASCII upper-casing: %s" % why)
    # the environment is checked for NUL before the block is built (a NUL would end a variable, or the block, early and let the rest
    # of the value define further variables): the Windows sibling of CVec::new's check (R06.2)
    oss = [f for p_, f in prog.fns.items() if p_.endswith("os_start")]
    if len(oss) == 1:
        osf = oss[0]
        To = M.Terms(osf)
        cp = [bb for bb, t in osf.calls() if M.callee_str(t["f"]) == "win32::CreateProcess"]
        envf = lambda u: u[0] == "field" and u[2] == "env" and M.contains(u, lambda w: w[0] == "param")
        covered = set()
        gate = []
        for bb, t in osf.calls():
            if M.callee_str(t["f"]) != "std::iter::Iterator::any":
                continue
            a_ = [To.operand(x) for x in t["args"]]
            clo = a_[1][1][1] if a_[1][0] == "agg" and a_[1][1][0] == "closure" else None
            if clo is None or clo not in prog.fns or not M.contains(a_[0], envf):
                continue
            import c20
            lits, other = c20.eq_literals(prog.fns[clo])
            if lits != {0} or other:
                continue
            comps = set()
            M.contains(a_[0], lambda u: comps.add(u[2]) or False if (u[0] == "field" and u[2] in ("0", "1") and M.contains(u, envf) and M.contains(a_[0], lambda w: w[0] == "call" and w[1] == ENC)) else False)
            t_e = bool_edges(osf, To, lambda c, bb=bb: c[0] == "call" and len(c) > 3 and c[3] == bb, True)
            def hit_only_errs(e_):
                Ex_ = M.Explore(osf, start=e_[1])
                rv_ = [v for (b2, si2, v, r2) in result_variants(osf, Ex_)]
                return bool(rv_) and all(v in ("Err", "from_residual") for v in rv_) and not (Ex_.blocks & set(cp))
            errs = all(hit_only_errs(e_) for e_ in t_e) and bool(t_e)
            if errs:
                covered |= comps
                gate.append(bb)
        okn = covered == {"0", "1"} and bool(cp)
        if okn:
            loops_ = M.sccs(osf)
            lp = [l for l in loops_ if any(g in l for g in gate)]
            none_e = variant_edges(osf, To, lambda t_: M.contains(t_, envf), 0, [0, 1], "std::option::Option<")
            okn = bool(lp) and not (set(cp) & osf.reachable(0, removed_blocks=[min(lp[0])], removed_edges=set(none_e)))
        import c06 as _c06
        _c06.env_names_checked_for_equals(ctx, prog, osf, To, cp, "R06.10", "env-name-with-equals-rejected-before-CreateProcess",
                                          "the environment block spells every entry NAME=VALUE and Windows splits at the first '=' past position 0: a configured "
                                          "name containing '=' is read as a different variable, so it must be refused before CreateProcess")
        ctx.ob("R06.9", "env-NUL-rejected-before-CreateProcess", okn, osf.loc(cp[0] if cp else 0),
               "windows: every name and value of the configured environment must be scanned for NUL (any(c == 0) over encode_wide) with an Err return, in a loop that "
               "CreateProcess cannot be reached around (components scanned: %s)" % sorted(covered))
    else:
        ctx.missing("R06.9", "windows os_start")
    # who calls it: only with the configured environment
    cs = callers_of(prog, fb.path)
    ctx.floor("R06.9", "callers of format_env_block", len(cs), 1)


def c10_terminate(ctx):
    """R10.6: windows terminate — TerminateProcess only on the live child's own handle; a child found to have exited is recorded
    (not an error); nothing at all once the status is known"""
    prog = _win(ctx)
    if prog is None:
        return
    ot = prog.one("os_terminate")
    T = M.Terms(ot)
    st_vals = list(range(len(variants(prog, "popen::ChildState"))))
    cs = lambda t: is_field_of_param(t, "child_state", 1)
    run_e = variant_edges(ot, T, cs, CHILD_STATE["Running"], st_vals)
    tp = ot.calls_to(lambda f: M.callee_str(f) == "win32::TerminateProcess")
    ctx.floor("R10.6", "TerminateProcess sites", len(tp), 1)
    census = [(f.path, f.loc(bb)) for f, bb, t in callers_of(prog, "win32::TerminateProcess")]
    ctx.ob("R10.6", "TerminateProcess-only-in-os_terminate", [p for p, _ in census] == [ot.path], census[0][1] if census else "", "win32::TerminateProcess callers: %s" % [p for p, _ in census])
    for bb, t in tp:
        h = M.noref(T.operand(t["args"][0]))
        want = M.contains(h, lambda u: u[0] == "downcast" and u[2] == "Running" and is_field_of_param(u[1], "child_state", 1))
        ctx.ob("R10.6", "TerminateProcess.gated+own-handle", bool(run_e) and dominated_by_edges(ot, bb, run_e) and want, ot.loc(bb),
               "TerminateProcess is called only under child_state == Running, on the handle stored in that state (%s)" % M.term_str(h)[:80])
    for name, val in CHILD_STATE.items():
        if name == "Running":
            continue
        ex = M.Explore(ot, assume={self_field("child_state"): val})
        calls = [M.callee_str(t["f"]) for _, t in ex.calls() if not is_panic_call(t)]
        vs = [v for (b, si, v, r) in result_variants(ot, ex)]
        ctx.ob("R10.6", "os_terminate[%s].no-call+Ok" % name, not calls and vs == ["Ok"], ot.loc(0), "under child_state=%s terminate makes no OS call and returns Ok(()) (calls %s, results %s)" % (name, calls, vs))
    # error policy: Err(err) leaves only when the failure is not ACCESS_DENIED, or the process is verifiably still active
    ne_t = bool_edges(ot, T, lambda c: c[0] == "call" and c[1].endswith("PartialEq::ne") and M.contains(c[2][0], lambda u: u[0] == "call" and u[1] == "std::io::Error::raw_os_error")
                      and M.contains(c[2][1], lambda u: const_of(u) == 5), True)
    ne_t += bool_edges(ot, T, lambda c: c[0] == "call" and c[1].endswith("PartialEq::eq") and M.contains(c[2][0], lambda u: u[0] == "call" and u[1] == "std::io::Error::raw_os_error")
                       and M.contains(c[2][1], lambda u: const_of(u) == 5), False)
    act_t = bool_edges(ot, T, lambda c: c[0] == "bin" and c[1] == "Eq" and const_of(c[3]) == 259 and M.contains(c[2], lambda u: u[0] == "call" and u[1] == "win32::GetExitCodeProcess"), True)
    act_f = bool_edges(ot, T, lambda c: c[0] == "bin" and c[1] == "Eq" and const_of(c[3]) == 259 and M.contains(c[2], lambda u: u[0] == "call" and u[1] == "win32::GetExitCodeProcess"), False)
    errs = [bb for bb, si, r in aggregates_of(ot, "std::result::Result") if r["variant"] == "Err" and M.contains(T.operand(r["ops"][0]), lambda u: u[0] == "call" and u[1] == "win32::TerminateProcess")]
    ctx.floor("R10.6", "Err(err) returns of the TerminateProcess error", len(errs), 2)
    for bb in errs:
        ctx.ob("R10.6", "terminate-error-policy", dominated_by_edges(ot, bb, ne_t + act_t), ot.loc(bb),
               "the TerminateProcess error is returned only if it is not ERROR_ACCESS_DENIED, or the exit code says STILL_ACTIVE; ACCESS_DENIED on an exited process means 'already gone'")
    fin = [b for b, si, r in aggregates_of(ot, "popen::ChildState") if r["variant"] == "Finished"]
    is_active_test = lambda c: c[0] == "bin" and c[1] in ("Eq", "Ne") and const_of(c[3]) == 259 and M.contains(c[2], lambda u: u[0] == "call" and u[1] == "win32::GetExitCodeProcess")
    def af_active(t_):
        if t_ and is_active_test(M.noref(t_)):
            return 1 if M.noref(t_)[1] == "Eq" else 0
        return None
    rec_eval = bool(fin) and any(ot.blocks[b_]["term"]["k"] == "switch" and is_active_test(M.noref(M.switch_term(ot, T, b_))) for b_ in ot.live_blocks()) and \
        not (set(fin) & M.Explore(ot, assume_fn=af_active).blocks)
    ctx.ob("R10.6", "exited-child-recorded", (bool(fin) and bool(act_f) and all(dominated_by_edges(ot, b, act_f) for b in fin)) or rec_eval, ot.loc(fin[0] if fin else 0),
           "Finished(Exited(rc)) is recorded exactly when GetExitCodeProcess reports something other than STILL_ACTIVE")
