"""lower — normalisation of closure-taking control flow (a pre-pass over the program database).

`x.map(|v| f(v))`, `match x { Some(v) => Some(f(v)), None => None }` and `if let Some(v) = x { Some(f(v)) } else { None }` are the same
program; so are `let fail = || Err(e); ... return fail()` and writing `Err(e)` twice.  The rules should not have to know every spelling,
so before any rule runs each function body is rewritten into ONE form:

  * a call of an Option / Result combinator whose function arguments are closures built in the same body (map, and_then, map_or,
    map_or_else, unwrap_or_else, is_some_and, is_none_or, ok_or_else, or_else, filter, get_or_insert_with; Result::map, map_err,
    and_then, or_else, unwrap_or_else, map_or, map_or_else, is_ok_and, is_err_and) becomes a switch on the discriminant of the subject
    with one arm per variant, exactly what the standard library's definition of the combinator says;
  * a direct call of a closure (`f()`, or the per-arm call produced above) is replaced by the closure's body: the environment
    parameter is bound to the closure value (or a reference to it, as the body expects), the arguments are taken out of the
    argument tuple, returns become jumps to the continuation.

Closures all of whose uses were lowered disappear as functions of their own (their code now lives in the parent body, blocks marked
"inl": <closure path>).  Closures handed to anything else (iterator adaptors, thread::spawn, ...) are left alone.  Function *items*
passed to a combinator (`.map(from_utf8_lossy)`) are left alone as well: the call term already names the function.
"""
import copy

OPT = "std::option::Option"
RES = "std::result::Result"
O = "std::option::Option::<T>::"
R = "std::result::Result::<T, E>::"

# subject kind, payload type index in the callee's generic arguments per variant, action per variant index
#   ("variant", adt, name, vidx)            dest = Adt::Name
#   ("rewrap", adt, name, vidx)             dest = Adt::Name(payload)
#   ("payload",)                            dest = payload
#   ("bool", v)                             dest = const v
#   ("arg", i)                              dest = args[i]
#   ("call", i, takes_payload, wrap)        dest = wrap(args[i](payload?))          wrap: None | (adt, name, vidx)
SPEC = {
    O + "map": ("opt", {0: ("variant", OPT, "None", 0), 1: ("call", 1, True, (OPT, "Some", 1))}),
    O + "and_then": ("opt", {0: ("variant", OPT, "None", 0), 1: ("call", 1, True, None)}),
    O + "map_or": ("opt", {0: ("arg", 1), 1: ("call", 2, True, None)}),
    O + "map_or_else": ("opt", {0: ("call", 1, False, None), 1: ("call", 2, True, None)}),
    O + "unwrap_or_else": ("opt", {0: ("call", 1, False, None), 1: ("payload",)}),
    O + "is_some_and": ("opt", {0: ("bool", 0), 1: ("call", 1, True, None)}),
    O + "is_none_or": ("opt", {0: ("bool", 1), 1: ("call", 1, True, None)}),
    O + "ok_or_else": ("opt", {0: ("call", 1, False, (RES, "Err", 1)), 1: ("rewrap", RES, "Ok", 0)}),
    O + "or_else": ("opt", {0: ("call", 1, False, None), 1: ("rewrap", OPT, "Some", 1)}),
    R + "map": ("res", {0: ("call", 1, True, (RES, "Ok", 0)), 1: ("rewrap", RES, "Err", 1)}),
    R + "map_err": ("res", {0: ("rewrap", RES, "Ok", 0), 1: ("call", 1, True, (RES, "Err", 1))}),
    R + "and_then": ("res", {0: ("call", 1, True, None), 1: ("rewrap", RES, "Err", 1)}),
    R + "or_else": ("res", {0: ("rewrap", RES, "Ok", 0), 1: ("call", 1, True, None)}),
    R + "unwrap_or_else": ("res", {0: ("payload",), 1: ("call", 1, True, None)}),
    R + "map_or": ("res", {0: ("call", 2, True, None), 1: ("arg", 1)}),
    R + "map_or_else": ("res", {0: ("call", 2, True, None), 1: ("call", 1, True, None)}),
    R + "is_ok_and": ("res", {0: ("call", 1, True, None), 1: ("bool", 0)}),
    R + "is_err_and": ("res", {0: ("bool", 0), 1: ("call", 1, True, None)}),
}
# plain re-wrappings (no function argument): lowered as well, so that `x.ok()` / `x.unwrap_or(d)` and the match they abbreviate are one form
PLAIN = {
    O + "unwrap_or": ("opt", {0: ("arg", 1), 1: ("payload",)}),
    O + "or": ("opt", {0: ("arg", 1), 1: ("rewrap", OPT, "Some", 1)}),
    O + "and": ("opt", {0: ("variant", OPT, "None", 0), 1: ("arg", 1)}),
    O + "ok_or": ("opt", {0: ("argwrap", 1, (RES, "Err", 1)), 1: ("rewrap", RES, "Ok", 0)}),
    R + "unwrap_or": ("res", {0: ("payload",), 1: ("arg", 1)}),
}
SPEC.update(PLAIN)
VARIANTS = {"opt": ["None", "Some"], "res": ["Ok", "Err"]}
SPECIAL = (O + "filter", O + "get_or_insert_with", O + "insert")


def _callee(f):
    return f.get("rpath") or f.get("path")


def _place(l, ty=None, proj=None):
    return {"l": l, "proj": list(proj or []), "ty": ty}


def _mv(l, ty=None, proj=None):
    return {"k": "move", "p": _place(l, ty, proj)}


def _assign(p, r, ln):
    return {"k": "assign", "p": p, "r": r, "ln": ln}


def _adt(adt, name, vidx, ops):
    return {"k": "agg", "kind": "adt", "adt": adt, "variant": name, "vidx": vidx, "fields": ["0"] if ops else [], "ops": ops}


def _const_bool(v):
    return {"k": "const", "ty": "bool", "dbg": "true" if v else "false", "int": int(v), "size": 1}


def _fdict(path, crate):
    return {"path": path, "full": path, "krate": crate, "local": True, "foreign": False, "gargs": [], "rpath": path, "rfull": path,
            "rlocal": True, "rkrate": crate, "rforeign": False, "rkind": "item", "lowered": True}


class _Body:
    """a function body under rewriting"""

    def __init__(self, prog, j):
        self.prog = prog
        self.j = j
        self.body = j["body"]
        self.blocks = self.body["blocks"]
        self.locals = self.body["locals"]

    def new_local(self, ty, name=None, inl=None):
        self.locals.append({"ty": ty, "name": name, "mut": True, "syn": True, **({"inl": inl} if inl else {})})
        return len(self.locals) - 1

    def new_block(self, stmts, term, mark):
        b = {"cleanup": False, "stmts": stmts, "term": term}
        b.update(mark)
        self.blocks.append(b)
        return len(self.blocks) - 1

    def closure_of(self, op):
        """(closure path, local) if the operand is a local holding a closure built by exactly one aggregate statement of this body"""
        if op.get("k") not in ("move", "copy") or op["p"]["proj"]:
            return None
        l = op["p"]["l"]
        found = []
        for b in self.blocks:
            for s in b["stmts"]:
                if s["k"] == "assign" and s["p"]["l"] == l:
                    if s["p"]["proj"]:
                        return None
                    found.append(s["r"])
            t = b["term"]
            if t["k"] == "call" and t["dest"]["l"] == l:
                return None
        if len(found) == 1 and found[0]["k"] == "agg" and found[0].get("kind") == "closure" and found[0]["closure"] in self.prog.fns:
            return (found[0]["closure"], l)
        if len(found) == 1 and found[0]["k"] == "use" and found[0]["op"].get("k") in ("move", "copy"):
            return self.closure_of(found[0]["op"])
        return None


def _lower_combinator(B, bi, done):
    """rewrite the combinator call ending block bi into a switch with one arm per variant; True if rewritten"""
    b = B.blocks[bi]
    t = b["term"]
    nm = _callee(t["f"])
    if nm in SPECIAL:
        return _lower_special(B, bi, nm, done)
    if nm not in SPEC or t.get("t") is None or b["cleanup"]:
        return False
    kind, acts = SPEC[nm]
    args = t["args"]
    subj = args[0]
    if subj.get("k") not in ("move", "copy"):
        return False
    clos = {}
    for v, a in acts.items():
        if a[0] == "call":
            if a[1] >= len(args):
                return False
            c = B.closure_of(args[a[1]])
            if c is None:
                # a function item (`.map(from_utf8_lossy)`, `.unwrap_or_else(Vec::new)`): called as an ordinary function
                fa = args[a[1]]
                if fa.get("k") == "const" and "fn" in fa:
                    c = ("fnitem", fa["fn"])
                else:
                    return False
            clos[v] = c
        if a[0] == "arg" and a[1] >= len(args):
            return False
    if not clos and nm not in PLAIN:
        return False
    ln = t.get("ln")
    mark = {"low": nm}
    gargs = t["f"].get("gargs") or []
    pty = {"opt": {1: gargs[0] if gargs else None}, "res": {0: gargs[0] if gargs else None, 1: gargs[1] if len(gargs) > 1 else None}}[kind]
    names = VARIANTS[kind]
    adt_of = OPT if kind == "opt" else RES
    D, C = t["dest"], t["t"]
    crate = B.prog.doc.get("crate")
    sp = subj["p"]

    def payload(v):
        return _place(sp["l"], pty.get(v), list(sp["proj"]) + [{"k": "downcast", "v": v, "name": names[v]}, {"k": "field", "i": 0, "name": "0", "of": adt_of, "ty": pty.get(v)}])
    arm = {}
    for v, a in acts.items():
        if a[0] == "variant":
            arm[v] = B.new_block([_assign(D, _adt(a[1], a[2], a[3], []), ln)], {"k": "goto", "t": C, "ln": ln}, mark)
        elif a[0] == "rewrap":
            arm[v] = B.new_block([_assign(D, _adt(a[1], a[2], a[3], [{"k": "move", "p": payload(v)}]), ln)], {"k": "goto", "t": C, "ln": ln}, mark)
        elif a[0] == "payload":
            arm[v] = B.new_block([_assign(D, {"k": "use", "op": {"k": "move", "p": payload(v)}}, ln)], {"k": "goto", "t": C, "ln": ln}, mark)
        elif a[0] == "bool":
            arm[v] = B.new_block([_assign(D, {"k": "use", "op": _const_bool(a[1])}, ln)], {"k": "goto", "t": C, "ln": ln}, mark)
        elif a[0] == "arg":
            arm[v] = B.new_block([_assign(D, {"k": "use", "op": args[a[1]]}, ln)], {"k": "goto", "t": C, "ln": ln}, mark)
        elif a[0] == "argwrap":
            arm[v] = B.new_block([_assign(D, _adt(a[2][0], a[2][1], a[2][2], [args[a[1]]]), ln)], {"k": "goto", "t": C, "ln": ln}, mark)
        else:
            cpath, cl = clos[v]
            if cpath == "fnitem":
                arm[v] = _fn_call_block(B, cl, [{"k": "move", "p": payload(v)}] if a[2] else [], D, C, a[3], ln, mark, t.get("unwind"), t["dest"].get("ty"))
                continue
            arm[v] = _closure_call_block(B, cpath, cl, [{"k": "move", "p": payload(v)}] if a[2] else [], [pty.get(v)] if a[2] else [], D, C, a[3], ln, mark, t.get("unwind"), crate)
            done.setdefault(cpath, 0)
            done[cpath] += 1
    d = B.new_local("isize")
    unreachable = B.new_block([], {"k": "unreachable", "ln": ln}, mark)
    b["stmts"].append(_assign(_place(d, "isize"), {"k": "discr", "p": copy.deepcopy(sp)}, ln))
    b["term"] = {"k": "switch", "d": _mv(d, "isize"), "dty": "isize", "targets": [[v, arm[v]] for v in sorted(arm)], "otherwise": unreachable, "ln": ln,
                 "was_call": nm}
    return True


def _fn_call_block(B, fdict, arg_ops, D, C, wrap, ln, mark, unwind, dest_ty):
    """a block that calls the function item with the given arguments, stores the (possibly wrapped) result in D and continues at C"""
    f = copy.deepcopy(fdict)
    if wrap is None:
        term = {"k": "call", "f": f, "args": arg_ops, "dest": copy.deepcopy(D), "t": C, "unwind": unwind, "ln": ln}
        return B.new_block([], term, mark)
    rty = f.get("output") or "?"
    tmp = B.new_local(rty)
    nxt = B.new_block([_assign(copy.deepcopy(D), _adt(wrap[0], wrap[1], wrap[2], [_mv(tmp, rty)]), ln)], {"k": "goto", "t": C, "ln": ln}, mark)
    term = {"k": "call", "f": f, "args": arg_ops, "dest": _place(tmp, rty), "t": nxt, "unwind": unwind, "ln": ln}
    return B.new_block([], term, mark)


def _closure_call_block(B, cpath, cl, arg_ops, arg_tys, D, C, wrap, ln, mark, unwind, crate):
    """a block that calls the closure held in local cl with the given arguments (rust-call convention: environment, argument tuple),
    stores the (possibly wrapped) result in D and continues at C; returns its index"""
    g = B.prog.fns[cpath]
    stmts = []
    env_ty = g.locals[1]["ty"] if len(g.locals) > 1 else ""
    clo_ty = B.locals[cl]["ty"]
    if env_ty.startswith("&"):
        r = B.new_local(env_ty)
        stmts.append(_assign(_place(r, env_ty), {"k": "ref", "mut": env_ty.startswith("&'{erased} mut") or env_ty.startswith("&mut"), "p": _place(cl, clo_ty)}, ln))
        env = _mv(r, env_ty)
    else:
        env = _mv(cl, clo_ty)
    if arg_ops:
        tty = "(%s,)" % ", ".join(str(x) for x in arg_tys)
        tp = B.new_local(tty)
        stmts.append(_assign(_place(tp, tty), {"k": "agg", "kind": "tuple", "ops": arg_ops}, ln))
        tup = _mv(tp, tty)
    else:
        tup = {"k": "const", "ty": "()", "dbg": "()", "zst": True}
    if wrap is None:
        term = {"k": "call", "f": _fdict(cpath, crate), "args": [env, tup], "dest": copy.deepcopy(D), "t": C, "unwind": unwind, "ln": ln}
        return B.new_block(stmts, term, mark)
    rty = g.locals[0]["ty"]
    tmp = B.new_local(rty)
    nxt = B.new_block([_assign(copy.deepcopy(D), _adt(wrap[0], wrap[1], wrap[2], [_mv(tmp, rty)]), ln)], {"k": "goto", "t": C, "ln": ln}, mark)
    term = {"k": "call", "f": _fdict(cpath, crate), "args": [env, tup], "dest": _place(tmp, rty), "t": nxt, "unwind": unwind, "ln": ln}
    return B.new_block(stmts, term, mark)


def _lower_for_each(B, bi, nm, done):
    """`it.for_each(f)` is `for x in it { f(x) }`: a loop around next() with the body called per item"""
    b = B.blocks[bi]
    t = b["term"]
    if t.get("t") is None or b["cleanup"] or len(t["args"]) != 2:
        return False
    it = t["args"][0]
    if it.get("k") not in ("move", "copy") or it["p"]["proj"]:
        return False
    c = B.closure_of(t["args"][1])
    fitem = None
    if c is None:
        fa = t["args"][1]
        if fa.get("k") == "const" and "fn" in fa:
            fitem = fa["fn"]
        else:
            return False
    ln = t.get("ln")
    mark = {"low": nm}
    crate = B.prog.doc.get("crate")
    D, C = t["dest"], t["t"]
    it_l = it["p"]["l"]
    it_ty = B.locals[it_l]["ty"]
    next_name = nm[:-len("for_each")] + "next"
    nf = copy.deepcopy(t["f"])
    for k_ in ("path", "rpath"):
        if nf.get(k_, "").endswith("for_each"):
            nf[k_] = nf[k_][:-len("for_each")] + "next"
    nf["gargs"] = (nf.get("gargs") or [])[:1]
    nf["lowered"] = True
    item_ty = None
    if c is not None:
        g = B.prog.fns[c[0]]
        item_ty = g.locals[2]["ty"] if len(g.locals) > 2 else None
    opt_ty = "std::option::Option<%s>" % item_ty
    n = B.new_local(opt_ty)
    rf_ty = "&'{erased} mut %s" % it_ty
    rf = B.new_local(rf_ty)
    d = B.new_local("isize")
    unit = B.new_local("()")
    exit_b = B.new_block([_assign(copy.deepcopy(D), {"k": "use", "op": {"k": "const", "ty": "()", "dbg": "()", "zst": True}}, ln)], {"k": "goto", "t": C, "ln": ln}, mark)
    unreachable = B.new_block([], {"k": "unreachable", "ln": ln}, mark)
    # head is created first so the body can jump back to it
    head = B.new_block([_assign(_place(rf, rf_ty), {"k": "ref", "mut": True, "p": _place(it_l, it_ty)}, ln)],
                       {"k": "call", "f": nf, "args": [_mv(rf, rf_ty)], "dest": _place(n, opt_ty), "t": None, "unwind": t.get("unwind"), "ln": ln}, mark)
    pay = _place(n, item_ty, [{"k": "downcast", "v": 1, "name": "Some"}, {"k": "field", "i": 0, "name": "0", "of": OPT, "ty": item_ty}])
    if c is not None:
        body = _closure_call_block(B, c[0], c[1], [{"k": "move", "p": pay}], [item_ty], _place(unit, "()"), head, None, ln, mark, t.get("unwind"), crate)
        done[c[0]] = done.get(c[0], 0) + 1
    else:
        body = _fn_call_block(B, fitem, [{"k": "move", "p": pay}], _place(unit, "()"), head, None, ln, mark, t.get("unwind"), "()")
    sw = B.new_block([_assign(_place(d, "isize"), {"k": "discr", "p": _place(n, opt_ty)}, ln)],
                     {"k": "switch", "d": _mv(d, "isize"), "dty": "isize", "targets": [[0, exit_b], [1, body]], "otherwise": unreachable, "ln": ln}, mark)
    B.blocks[head]["term"]["t"] = sw
    b["term"] = {"k": "goto", "t": head, "ln": ln, "was_call": nm}
    return True


def _lower_bool_then(B, bi, nm, done):
    """`b.then(f)` / `b.then_some(v)`: if b { Some(f()) / Some(v) } else { None }"""
    b = B.blocks[bi]
    t = b["term"]
    if t.get("t") is None or b["cleanup"] or len(t["args"]) != 2:
        return False
    cond, arg = t["args"]
    ln = t.get("ln")
    mark = {"low": nm}
    crate = B.prog.doc.get("crate")
    D, C = t["dest"], t["t"]
    none_b = B.new_block([_assign(copy.deepcopy(D), _adt(OPT, "None", 0, []), ln)], {"k": "goto", "t": C, "ln": ln}, mark)
    if nm.endswith("::then_some"):
        some_b = B.new_block([_assign(copy.deepcopy(D), _adt(OPT, "Some", 1, [arg]), ln)], {"k": "goto", "t": C, "ln": ln}, mark)
    else:
        c = B.closure_of(arg)
        if c is not None:
            some_b = _closure_call_block(B, c[0], c[1], [], [], D, C, (OPT, "Some", 1), ln, mark, t.get("unwind"), crate)
            done[c[0]] = done.get(c[0], 0) + 1
        elif arg.get("k") == "const" and "fn" in arg:
            some_b = _fn_call_block(B, arg["fn"], [], D, C, (OPT, "Some", 1), ln, mark, t.get("unwind"), None)
        else:
            return False
    b["term"] = {"k": "switch", "d": cond, "dty": "bool", "targets": [[0, none_b]], "otherwise": some_b, "ln": ln, "was_call": nm}
    return True


def _lower_special(B, bi, nm, done):
    b = B.blocks[bi]
    t = b["term"]
    if t.get("t") is None or b["cleanup"]:
        return False
    args = t["args"]
    ln = t.get("ln")
    mark = {"low": nm}
    gargs = t["f"].get("gargs") or []
    T_ = gargs[0] if gargs else None
    crate = B.prog.doc.get("crate")
    D, C = t["dest"], t["t"]
    if nm == O + "filter":
        # None => None; Some(x) => if p(&x) { Some(x) } else { None }
        subj = args[0]
        c = B.closure_of(args[1]) if len(args) > 1 else None
        if subj.get("k") not in ("move", "copy") or c is None:
            return False
        sp = subj["p"]
        pay = _place(sp["l"], T_, list(sp["proj"]) + [{"k": "downcast", "v": 1, "name": "Some"}, {"k": "field", "i": 0, "name": "0", "of": OPT, "ty": T_}])
        none_b = B.new_block([_assign(copy.deepcopy(D), _adt(OPT, "None", 0, []), ln)], {"k": "goto", "t": C, "ln": ln}, mark)
        keep_b = B.new_block([_assign(copy.deepcopy(D), _adt(OPT, "Some", 1, [{"k": "move", "p": copy.deepcopy(pay)}]), ln)], {"k": "goto", "t": C, "ln": ln}, mark)
        flag = B.new_local("bool")
        test_b = B.new_block([], {"k": "switch", "d": _mv(flag, "bool"), "dty": "bool", "targets": [[0, none_b]], "otherwise": keep_b, "ln": ln}, mark)
        rty = "&'{erased} %s" % T_
        rf = B.new_local(rty)
        call_b = _closure_call_block(B, c[0], c[1], [_mv(rf, rty)], [rty], _place(flag, "bool"), test_b, None, ln, mark, t.get("unwind"), crate)
        B.blocks[call_b]["stmts"].insert(0, _assign(_place(rf, rty), {"k": "ref", "mut": False, "p": copy.deepcopy(pay)}, ln))
        done[c[0]] = done.get(c[0], 0) + 1
        d = B.new_local("isize")
        unreachable = B.new_block([], {"k": "unreachable", "ln": ln}, mark)
        b["stmts"].append(_assign(_place(d, "isize"), {"k": "discr", "p": copy.deepcopy(sp)}, ln))
        b["term"] = {"k": "switch", "d": _mv(d, "isize"), "dty": "isize", "targets": [[0, none_b], [1, call_b]], "otherwise": unreachable, "ln": ln, "was_call": nm}
        return True
    if nm == O + "insert":
        # *self = Some(value); &mut (*self as Some).0
        slf, val = args[0], args[1]
        if slf.get("k") not in ("move", "copy"):
            return False
        sp = _place(slf["p"]["l"], "std::option::Option<%s>" % T_, list(slf["p"]["proj"]) + [{"k": "deref"}])
        pay = _place(sp["l"], T_, list(sp["proj"]) + [{"k": "downcast", "v": 1, "name": "Some"}, {"k": "field", "i": 0, "name": "0", "of": OPT, "ty": T_}])
        b["stmts"].append(_assign(copy.deepcopy(sp), _adt(OPT, "Some", 1, [val]), ln))
        b["stmts"].append(_assign(copy.deepcopy(D), {"k": "ref", "mut": True, "p": pay}, ln))
        b["term"] = {"k": "goto", "t": C, "ln": ln, "was_call": nm}
        return True
    if nm == O + "get_or_insert_with":
        # if (*self) is None { *self = Some(f()) }; &mut (*self as Some).0
        slf = args[0]
        c = B.closure_of(args[1]) if len(args) > 1 else None
        fitem = args[1]["fn"] if (c is None and len(args) > 1 and args[1].get("k") == "const" and "fn" in args[1]) else None
        if slf.get("k") not in ("move", "copy") or (c is None and fitem is None):
            return False
        sp = _place(slf["p"]["l"], "std::option::Option<%s>" % T_, list(slf["p"]["proj"]) + [{"k": "deref"}])
        pay = _place(sp["l"], T_, list(sp["proj"]) + [{"k": "downcast", "v": 1, "name": "Some"}, {"k": "field", "i": 0, "name": "0", "of": OPT, "ty": T_}])
        out_b = B.new_block([_assign(copy.deepcopy(D), {"k": "ref", "mut": True, "p": pay}, ln)], {"k": "goto", "t": C, "ln": ln}, mark)
        rty_ = B.prog.fns[c[0]].locals[0]["ty"] if c is not None else (T_ or "?")
        tmp = B.new_local(rty_)
        store_b = B.new_block([_assign(copy.deepcopy(sp), _adt(OPT, "Some", 1, [_mv(tmp, rty_)]), ln)], {"k": "goto", "t": out_b, "ln": ln}, mark)
        if c is not None:
            call_b = _closure_call_block(B, c[0], c[1], [], [], _place(tmp, rty_), store_b, None, ln, mark, t.get("unwind"), crate)
            done[c[0]] = done.get(c[0], 0) + 1
        else:
            call_b = _fn_call_block(B, fitem, [], _place(tmp, rty_), store_b, None, ln, mark, t.get("unwind"), rty_)
        d = B.new_local("isize")
        unreachable = B.new_block([], {"k": "unreachable", "ln": ln}, mark)
        b["stmts"].append(_assign(_place(d, "isize"), {"k": "discr", "p": copy.deepcopy(sp)}, ln))
        b["term"] = {"k": "switch", "d": _mv(d, "isize"), "dty": "isize", "targets": [[0, call_b], [1, out_b]], "otherwise": unreachable, "ln": ln, "was_call": nm}
        return True
    return False


def _inline_closure_call(B, bi, remap, depth_of):
    """replace the direct closure call ending block bi by the closure's body; True if replaced"""
    b = B.blocks[bi]
    t = b["term"]
    nm = _callee(t["f"])
    g = B.prog.fns.get(nm)
    if g is None or not (g.j.get("is_closure") or "{closure" in nm) or len(t["args"]) != 2 or b["cleanup"]:
        return False
    if nm == B.j["path"] or depth_of.get(bi, 0) >= 6:
        return False
    env, tup = t["args"]
    n_params = g.arg_count - 1
    if n_params > 0 and tup.get("k") not in ("move", "copy"):
        return False
    ln = t.get("ln")
    loff = len(B.locals)
    boff = len(B.blocks) + 1
    for l_ in g.locals:
        l2 = dict(l_)
        l2["inl"] = g.path
        B.locals.append(l2)
    poff = len(B.j.get("promoted") or [])
    B.j.setdefault("promoted", [])
    B.j["promoted"] = (B.j["promoted"] or []) + copy.deepcopy(g.j.get("promoted") or [])
    bind = {"cleanup": False, "inl": g.path, "stmts": [], "term": {"k": "goto", "t": boff, "ln": ln}}
    bind["stmts"].append(_assign(_place(loff + 1, g.locals[1]["ty"] if len(g.locals) > 1 else None), {"k": "use", "op": env}, ln))
    for k in range(n_params):
        pty = g.locals[2 + k]["ty"]
        src = _place(tup["p"]["l"], pty, list(tup["p"]["proj"]) + [{"k": "field", "i": k, "name": str(k), "of": "tuple", "ty": pty}])
        bind["stmts"].append(_assign(_place(loff + 2 + k, pty), {"k": "use", "op": {"k": "move", "p": src}}, ln))
    cont = t.get("t")
    new_blocks = [bind]
    lmap = lambda l: l + loff
    bmap = lambda x: x + boff
    d0 = depth_of.get(bi, 0)
    for gb in g.blocks:
        nb = remap(gb, lmap, bmap)
        nb["inl"] = g.path
        tt = nb["term"]
        k = tt["k"]
        if k == "goto":
            tt["t"] = bmap(gb["term"]["t"])
        elif k == "switch":
            tt["targets"] = [[v, bmap(x)] for v, x in gb["term"]["targets"]]
            tt["otherwise"] = bmap(gb["term"]["otherwise"])
        elif k in ("drop", "assert", "call"):
            if gb["term"].get("t") is not None:
                tt["t"] = bmap(gb["term"]["t"])
            if gb["term"].get("unwind") is not None:
                tt["unwind"] = bmap(gb["term"]["unwind"])
        if k == "return" and not nb["cleanup"]:
            if cont is None:
                nb["term"] = {"k": "unreachable", "ln": tt.get("ln")}
            else:
                nb["stmts"] = nb["stmts"] + [_assign(copy.deepcopy(t["dest"]), {"k": "use", "op": _mv(loff, g.locals[0]["ty"])}, ln)]
                nb["term"] = {"k": "goto", "t": cont, "ln": tt.get("ln")}

        def fixp(x):
            if isinstance(x, dict):
                if x.get("k") == "const" and "promoted" in x and isinstance(x["promoted"], int):
                    x["promoted"] += poff
                    if x.get("name") == g.path:
                        x["name"] = B.j["path"]
                for v in x.values():
                    fixp(v)
            elif isinstance(x, list):
                for v in x:
                    fixp(v)
        fixp(nb)
        new_blocks.append(nb)
    start = len(B.blocks)
    b["term"] = {"k": "goto", "t": start, "ln": ln, "was_call": g.path}
    B.blocks.extend(new_blocks)
    for i in range(start, len(B.blocks)):
        depth_of[i] = d0 + 1
    return True


def lower_program(prog, remap, make_fn):
    """rewrite every body in place (prog.fns[p] is replaced); returns the set of closure paths that were spliced into some body"""
    # closures first when they are nested deeper (a closure's own combinators are lowered before the closure is spliced anywhere):
    order = sorted(prog.fns, key=lambda p: -p.count("{closure"))
    changed = {}
    spliced = set()
    for p in order:
        f = prog.fns[p]
        j = copy.deepcopy(f.j)
        B = _Body(prog, j)
        done = {}
        any_change = False
        depth_of = {}
        i = 0
        while i < len(B.blocks) and len(B.blocks) < 4000:
            t = B.blocks[i]["term"]
            if t["k"] == "call" and "indirect" not in t["f"]:
                nm = _callee(t["f"])
                if nm in SPEC or nm in SPECIAL:
                    if _lower_combinator(B, i, done):
                        any_change = True
                elif nm and (nm.endswith("<impl bool>::then") or nm.endswith("<impl bool>::then_some")):
                    if _lower_bool_then(B, i, nm, done):
                        any_change = True
                elif nm and (nm == "std::iter::Iterator::for_each" or nm.endswith("as std::iter::Iterator>::for_each")):
                    if _lower_for_each(B, i, nm, done):
                        any_change = True
                elif "{closure" in (nm or ""):
                    if _inline_closure_call(B, i, remap, depth_of):
                        any_change = True
            i += 1
        if any_change:
            changed[p] = j
            prog.fns[p] = make_fn(j)
            for b_ in B.blocks:
                if b_.get("inl") and "{closure" in b_["inl"]:
                    spliced.add(b_["inl"])
    # a direct call that was left in place keeps its closure alive
    kept = set()
    for p, f in prog.fns.items():
        for b_ in f.body["blocks"]:
            t = b_["term"]
            if t["k"] == "call" and "indirect" not in t["f"] and "{closure" in (_callee(t["f"]) or ""):
                kept.add(_callee(t["f"]))
    return spliced, kept


def closure_uses(prog):
    """closure path -> True if some construction of it is still used as a value (handed to a call, stored, returned) after lowering"""
    live = set()
    for p, f in prog.fns.items():
        body = f.body
        # locals holding closures built here
        clo = {}
        for b in body["blocks"]:
            if b.get("inl"):
                pass
            for s in b["stmts"]:
                if s["k"] == "assign" and not s["p"]["proj"] and s["r"]["k"] == "agg" and s["r"].get("kind") == "closure":
                    clo.setdefault(s["p"]["l"], set()).add(s["r"]["closure"])
        if not clo:
            continue
        # propagate through plain moves / references
        grew = True
        while grew:
            grew = False
            for b in body["blocks"]:
                for s in b["stmts"]:
                    if s["k"] != "assign" or s["p"]["proj"]:
                        continue
                    r = s["r"]
                    src = None
                    if r["k"] == "use" and r["op"].get("k") in ("move", "copy") and not r["op"]["p"]["proj"]:
                        src = r["op"]["p"]["l"]
                    elif r["k"] == "ref" and not r["p"]["proj"]:
                        src = r["p"]["l"]
                    if src in clo and not clo[src] <= clo.get(s["p"]["l"], set()):
                        clo.setdefault(s["p"]["l"], set()).update(clo[src])
                        grew = True

        def ops_locals(x, out):
            if isinstance(x, dict):
                if x.get("k") in ("move", "copy") and "p" in x:
                    # (reading a captured variable out of the environment is not a use of the closure as a value)
                    if not any(e.get("k") == "field" for e in x["p"]["proj"]):
                        out.add(x["p"]["l"])
                for v in x.values():
                    ops_locals(v, out)
            elif isinstance(x, list):
                for v in x:
                    ops_locals(v, out)
        for b in body["blocks"]:
            t = b["term"]
            used = set()
            if t["k"] in ("call", "tailcall"):
                ops_locals(t["args"], used)
            for s in b["stmts"]:
                if s["k"] == "assign":
                    r = s["r"]
                    plain = (r["k"] == "use" and r["op"].get("k") in ("move", "copy") and not r["op"]["p"]["proj"] and not s["p"]["proj"]) or \
                            (r["k"] == "ref" and not r["p"]["proj"] and not s["p"]["proj"])
                    if not plain and not (r["k"] == "agg" and r.get("kind") == "closure"):
                        ops_locals(r, used)
                    if s["p"]["proj"] and plain:
                        ops_locals(r, used)          # stored into a field: escapes
            for l in used:
                live |= clo.get(l, set())
        # returned
        live |= clo.get(0, set())
    return live
