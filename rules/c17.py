"""C17 — nothing is allocated between fork and exec."""
import mirlib as M
from common import *

SPEC = {
    "explanation": (
        "Effect analysis on the *whole program* (crate + std + libc MIR, built with -Zbuild-std -Zalways-encode-mir): "
        "starting from the call sites in the fork-child region of os_start, the monomorphic instance graph (resolved "
        "calls, drop glue, vtable methods of unsize casts, reified fn pointers) is walked down to the extern leaves; "
        "panic entry points are cut and counted. Every crate-level call site whose callee can reach an allocating "
        "symbol (__rust_alloc*, __rust_realloc, malloc family, ...) is reported with its chain — for all inputs, on "
        "the success and the failure path alike. The only allow-listed sites are the growth-capable Vec<u8> methods "
        "inside PrepExec::assemble_exe applied to the buffer taken from self.prealloc_exe, and their obligation is "
        "checked separately (O-CAP): the capacity given to Vec::with_capacity in PrepExec::new is, as a linear term "
        "over L = len(cmd) and M = max len of split_path(search_path), at least the largest assembly (L+1 without "
        "search, M+1+L+1 with search) — compared coefficient-wise, no solver; nothing between new and exec replaces "
        "or shrinks that buffer."
    ),
    "not_decided": "allocations inside libc's own execve/_exit/dup2/chdir implementations (C library; POSIX lists them async-signal-safe); "
                   "deallocation (free) in the child, which the statement does not name. The std MIR analysed is the nightly's (1.97); the "
                   "pinned tests link stable 1.95 std — crate-level findings do not depend on the difference.",
    "trusted_base": ["rustc MIR of crate, std and libc; Instance resolution", "Vec does not reallocate while len <= capacity",
                     "panic entry points are excluded (a panic in the child is a defect of its own, excluded by C15/C07)",
                     "mirlib instance-graph reachability"],
    "assumptions": [],
    "technique": "static whole-program effect analysis: monomorphic call-graph reachability from the fork-child region to allocator symbols over crate+std MIR, plus a coefficient-wise capacity bound",
}

ALLOC_LAST = {"__rust_alloc", "__rust_alloc_zeroed", "__rust_realloc", "malloc", "calloc", "realloc", "posix_memalign", "aligned_alloc", "memalign",
              "strdup", "strndup", "setenv", "putenv", "opendir", "fdopendir", "fopen", "fdopen", "getpwnam", "getpwuid", "getaddrinfo", "dlopen",
              "mmap", "mmap64", "brk", "sbrk", "valloc", "pvalloc", "reallocarray"}


def run(ctx):
    prog = ctx.program("deep")
    g = prog.graph
    if g is None:
        ctx.ob("R17.0", "deep-graph", False, "", "the whole-program instance graph is missing")
        return
    nodes = g["nodes"]
    fm = ForkModel(prog)
    ctx.floor("R17.1", "fork sites", len(fm.wrapper_calls), 1)
    if not fm.ok:
        ctx.ob("R17.1", "fork-model", False, "", "no unique fork site with child/parent edges")
        return
    os_start = fm.fn
    idx = {}
    for i, n in enumerate(nodes):
        idx.setdefault(n["name"], i)
    root = idx.get(os_start.path)
    if root is None:
        ctx.ob("R17.1", "os_start-instance", False, os_start.loc(0), "os_start not found in the instance graph")
        return
    is_panic = [is_panic_callee(n["path"]) or is_panic_callee(n["name"]) for n in nodes]
    is_sink = [n["foreign"] and n["name"].split("::")[-1] in ALLOC_LAST for n in nodes]
    ctx.floor("R17.2", "allocator symbols present in the whole-program graph", sum(is_sink), 2)
    # region-restricted walk
    seen = set()
    parent = {}
    work = []
    for (to, bb, kind, ln, fl) in nodes[root]["edges"]:
        if bb in fm.child_region and bb not in fm.parent_region:
            if to not in seen:
                seen.add(to)
                parent[to] = (root, ln, fl, kind)
                work.append(to)
    n_region_edges = len(work)
    panics_cut = 0
    while work:
        v = work.pop()
        if is_panic[v]:
            panics_cut += 1
            continue
        for (to, bb, kind, ln, fl) in nodes[v]["edges"]:
            if to not in seen:
                seen.add(to)
                parent[to] = (v, ln, fl, kind)
                work.append(to)
    ctx.floor("R17.2", "instances reachable from the fork-child region", len(seen), 100)
    ctx.note("child region: %d blocks of os_start, %d call/drop sites; %d instances reached; %d panic entry points cut" % (len(fm.child_region - fm.parent_region), n_region_edges, len(seen), panics_cut))
    # can-reach-sink inside the reached subgraph
    rev = {}
    for v in seen | {root}:
        if is_panic[v]:
            continue
        for (to, bb, kind, ln, fl) in nodes[v]["edges"]:
            if to in seen and not (v == root and (bb not in fm.child_region or bb in fm.parent_region)):
                rev.setdefault(to, []).append(v)
    can = set()
    st = [v for v in seen if is_sink[v]]
    while st:
        x = st.pop()
        if x in can:
            continue
        can.add(x)
        st.extend(rev.get(x, []))

    def chain_to_sink(v):
        out = []
        cur = v
        guard = 0
        while not is_sink[cur] and guard < 60:
            guard += 1
            nxt = None
            for (to, bb, kind, ln, fl) in nodes[cur]["edges"]:
                if to in can and not is_panic[to] and to != cur and to not in [o[0] for o in out]:
                    nxt = (to, ln, fl, kind)
                    break
            if nxt is None:
                break
            out.append(nxt)
            cur = nxt[0]
        return " -> ".join("%s [%s:%s]" % (nodes[t]["name"][:70], f.split("/")[-1], l) for t, l, f, k in out[:10]) + (" -> ..." if len(out) > 10 else "")

    # an instance outside the crate is an allocation source for its local caller only if it reaches the allocator by itself; when it gets
    # there only by calling back into a local function (a closure handed to for_each / fold / map_or ...), that local function is the
    # one whose calls are judged -- it is reached, so its own edges are in this frontier
    can_nl = set()
    st = [v for v in seen if is_sink[v]]
    while st:
        x = st.pop()
        if x in can_nl:
            continue
        can_nl.add(x)
        st.extend(p_ for p_ in rev.get(x, []) if not nodes[p_]["local"])
    frontier = {}
    for v in seen | {root}:
        n = nodes[v]
        if not n["local"] or is_panic[v]:
            continue
        for (to, bb, kind, ln, fl) in n["edges"]:
            if v == root and (bb not in fm.child_region or bb in fm.parent_region):
                continue
            if to in can_nl and not nodes[to]["local"] and not is_panic[to]:
                # (a closure's calls are its enclosing function's calls)
                owner = n["path"].split("::{closure")[0]
                frontier.setdefault((owner, nodes[to]["path"], nodes[to]["name"]), []).append((ln, fl, kind, to))
    ALLOWED = {("posix::PrepExec::assemble_exe", "std::vec::Vec::<T, A>::extend_from_slice"), ("posix::PrepExec::assemble_exe", "std::vec::Vec::<T, A>::push")}
    allowed_seen = set()
    for (a, bpath, bname), sites in sorted(frontier.items()):
        ln, fl, kind, to = sites[0]
        if (a, bpath) in ALLOWED and "Vec::<u8>" in bname:
            allowed_seen.add((a, bpath))
            ctx.ob("R17.2", "prealloc:%s->%s" % (a.split("::")[-1], bpath.split("::")[-1]), True, "%s:%s" % (fl, ln),
                   "%s calls %s, which can grow the vector: allowed only because the buffer is pre-sized (obligation O-CAP, R17.3)" % (a, bname))
            continue
        ctx.ob("R17.2", "alloc:%s->%s" % (a, bpath), False, "%s:%s" % (fl, ln),
               "between fork and exec %s calls %s, which can reach the allocator: %s -> %s" % (a, bname, bname[:60], chain_to_sink(to)))
    ctx.ob("R17.2", "control:allocator-reachability-matcher", allowed_seen == ALLOWED, "", "positive control: the two growth-capable Vec<u8> calls in assemble_exe must be seen as allocator-reaching (seen %s)" % sorted(allowed_seen))
    # every extern leaf reached, for the record
    ext = sorted({nodes[v]["name"] for v in seen if nodes[v]["foreign"] and not is_panic[v] and v in seen and _reached_without_panic(v, parent, is_panic)})
    ctx.note("extern leaves reachable from the child without passing a panic entry: %s" % ext)

    # ---- R17.3 O-CAP ----------------------------------------------------------------------------
    pn = prog.one("posix::PrepExec::new")
    T = M.Terms(pn)
    wc = pn.calls_to(lambda f: M.callee_str(f).startswith("std::vec::Vec::<T>::with_capacity"))
    ok = len(wc) == 1
    cap_no, cap_search = None, None
    if ok:
        cap_local = T.origin_local(wc[0][1]["args"][0])
        defs = [(bb, si, r) for (bb, si, r) in pn.defs().get(cap_local, []) if r["k"] != "partial"]
        cmdp = ("param", 1, pn.local_name(1))
        spp = ("param", 4, pn.local_name(4))

        is_sp = lambda t: M.peel(M.strip(t)) == spp or M.peel(t) == spp

        def longest_dir(t):
            """max over split_path(search_path) of len(dir): .map(len).max().unwrap_or(0) or .fold(0, |m, d| m.max(d.len()))"""
            t = M.noref(t)
            def from_split(x):
                x = M.noref(x)
                return x[0] == "call" and x[1] == "posix::split_path" and (M.peel(M.strip(x[2][0])) == spp or M.contains(x[2][0], lambda u: u[0] == "downcast" and u[2] == "Some" and is_sp(u[1])))
            def is_max(m):
                m = M.noref(m)
                return m[0] == "call" and m[1] == "std::iter::Iterator::max" and m[2][0][0] == "call" and m[2][0][1] == "std::iter::Iterator::map" \
                    and m[2][0][2][1] == ("fnitem", "std::ffi::OsStr::len") and from_split(m[2][0][2][0])
            if t[0] == "call" and t[1] == "std::option::Option::<T>::unwrap_or" and const_of(t[2][1]) == 0:
                return is_max(t[2][0])
            if t[0] == "phi" and len(t[1]) == 2:
                # the same written out: Some(m) => m, None => 0
                zs = [x for x in t[1] if const_of(x) == 0]
                ps = [M.noref(x) for x in t[1] if const_of(x) != 0]
                return len(zs) == 1 and len(ps) == 1 and ps[0][0] == "field" and ps[0][2] == "0" and ps[0][1][0] == "downcast" and ps[0][1][2] == "Some" and is_max(ps[0][1][1])
            if t[0] == "call" and (t[1] == "std::iter::Iterator::fold" or t[1].endswith("as std::iter::Iterator>::fold")) and len(t[2]) == 3 and const_of(t[2][1]) == 0:
                # split_path(..).map(OsStr::len).fold(0, usize::max)
                it_, f_ = M.noref(t[2][0]), M.noref(t[2][2])
                if f_[0] == "fnitem" and f_[1] in ("std::cmp::Ord::max", "core::cmp::Ord::max", "std::cmp::max", "core::cmp::max") and it_[0] == "call" and it_[1] == "std::iter::Iterator::map" \
                        and M.noref(it_[2][1]) == ("fnitem", "std::ffi::OsStr::len") and from_split(it_[2][0]):
                    return True
            if t[0] == "call" and t[1] == "std::iter::Iterator::fold" and len(t[2]) == 3 and const_of(t[2][1]) == 0 and from_split(t[2][0]):
                cl = t[2][2]
                if cl[0] == "agg" and cl[1][0] == "closure" and cl[1][1] in prog.fns:
                    cf = prog.fns[cl[1][1]]
                    r_ = M.noref(M.Terms(cf).local(0))
                    accp, dirp = ("param", 2, cf.local_name(2)), ("param", 3, cf.local_name(3))
                    if r_[0] == "call" and r_[1] in ("std::cmp::Ord::max", "std::cmp::max", "core::cmp::max") and len(r_[2]) == 2:
                        xs = [M.noref(x) for x in r_[2]]
                        isacc = lambda x: x == accp
                        islen = lambda x: x[0] == "call" and x[1] in ("std::ffi::OsStr::len",) and M.peel(x[2][0]) == dirp
                        return (isacc(xs[0]) and islen(xs[1])) or (isacc(xs[1]) and islen(xs[0]))
            return False

        def lin(t, prev):
            """linear form {L, M, const} of a capacity term; None if unrecognised"""
            t = M.noref(t)
            if t[0] == "field" and t[2] == "0" and t[1][0] == "bin":
                t = t[1]
            c = const_of(t)
            if c is not None:
                return {"c": c}
            if t[0] == "local" and t[1] == cap_local and prev is not None:
                return dict(prev)
            if t[0] == "bin" and t[1] in ("Add", "AddWithOverflow"):
                a, b = lin(t[2], prev), lin(t[3], prev)
                if a is None or b is None:
                    return None
                return {k: a.get(k, 0) + b.get(k, 0) for k in set(a) | set(b)}
            if t[0] == "call" and t[1] in ("std::ffi::OsStr::len", "std::ffi::OsString::len") and M.strip(t[2][0]) == cmdp:
                return {"L": 1}
            if longest_dir(t):
                return {"M": 1}
            return None
        some_e = variant_edges(pn, T, lambda t: t == spp, 1, [0, 1], "std::option::Option<")
        base = [d for d in defs if not dominated_by_edges(pn, d[0], some_e)]
        srch = [d for d in defs if dominated_by_edges(pn, d[0], some_e)]
        if len(base) == 1:
            # the raw rvalue refers to the local itself through a copy; evaluate with terms where the self reference is cut
            cap_no = lin(term_of_def(pn, T, base[0], cap_local), None)
        if len(srch) == 1 and cap_no is not None:
            cap_search = lin(term_of_def(pn, T, srch[0], cap_local), cap_no)
        if cap_no is None or cap_search is None:
            # second way: evaluate the capacity expression once under `search_path == None` and once under `Some`, whatever locals it is
            # spread over (e.g. `let dir_room = match search_path { Some(p) => 1 + longest(p), None => 0 }; cmd.len() + 1 + dir_room`)
            some_all = variant_edges(pn, T, is_sp, 1, [0, 1], "std::option::Option<")
            none_all = variant_edges(pn, T, is_sp, 0, [0, 1], "std::option::Option<")

            def lin2(t, depth=0):
                t = M.noref(t)
                if depth > 12:
                    return None
                if t[0] == "field" and t[2] == "0" and t[1][0] == "bin":
                    t = t[1]
                c = const_of(t)
                if c is not None:
                    return {"c": c}
                if t[0] == "bin" and t[1] in ("Add", "AddWithOverflow"):
                    a, b = lin2(t[2], depth + 1), lin2(t[3], depth + 1)
                    if a is None or b is None:
                        return None
                    return {k: a.get(k, 0) + b.get(k, 0) for k in set(a) | set(b)}
                if t[0] == "call" and t[1] in ("std::ffi::OsStr::len", "std::ffi::OsString::len") and M.peel(M.strip(t[2][0])) == cmdp:
                    return {"L": 1}
                if longest_dir(t):
                    return {"M": 1}
                if t[0] == "phi":
                    forms = [lin2(a_, depth + 1) for a_ in t[1]]
                    if any(f is None for f in forms):
                        return None
                    keys = set().union(*forms)
                    return {k: min(f.get(k, 0) for f in forms) for k in keys}       # a lower bound over the alternatives
                return None
            if some_all and none_all:
                # (the two cases by evaluation: later case distinctions on values derived from search_path follow it)
                r_none = M.Explore(pn, assume_fn=lambda t_: 0 if (t_ and is_sp(t_)) else None, removed_edges=set(some_all)).blocks
                r_some = M.Explore(pn, assume_fn=lambda t_: 1 if (t_ and is_sp(t_)) else None, removed_edges=set(none_all)).blocks
                arg = wc[0][1]["args"][0]
                if cap_no is None:
                    cap_no = lin2(M.Terms(pn, blocks=r_none).operand(arg))
                if cap_search is None:
                    cap_search = lin2(M.Terms(pn, blocks=r_some).operand(arg))
                some_e = some_e or some_all
        need_no = {"L": 1, "c": 1}
        need_s = {"L": 1, "M": 1, "c": 2}
        ge = lambda have, need: have is not None and all(have.get(k, 0) >= v for k, v in need.items())
        ctx.ob("R17.3", "capacity>=len(cmd)+1", ge(cap_no, need_no), pn.loc(wc[0][0]), "without PATH search the assembly is cmd + NUL = L + 1 bytes; capacity term = %s" % cap_no)
        ctx.ob("R17.3", "capacity>=max(dir)+1+len(cmd)+1", ge(cap_search, need_s) and bool(some_e), pn.loc(wc[0][0]),
               "with PATH search the largest assembly is dir + '/' + cmd + NUL = M + L + 2 bytes (M = longest PATH entry from the same split_path(search_path) that exec iterates); capacity term = %s" % cap_search)
        ag = aggregates_of(pn, "posix::PrepExec")
        okp = len(ag) == 1 and T.operand(ag[0][2]["ops"][ag[0][2]["fields"].index("prealloc_exe")])[:2] == ("call", M.callee_str(wc[0][1]["f"]))
        ctx.ob("R17.3", "prealloc_exe=with_capacity(cap)", okp, pn.loc(0), "the pre-sized buffer is what is stored in PrepExec::prealloc_exe")
    else:
        ctx.ob("R17.3", "with_capacity.site", False, pn.loc(0), "cannot establish O-CAP: expected exactly one Vec::with_capacity in PrepExec::new")
    # nothing replaces or shrinks the buffer
    writers = []
    for p, fn in sorted(prog.fns.items()):
        for bb, si, s in stores_to_field(fn, "prealloc_exe", "posix::PrepExec"):
            writers.append((p, "store"))
        for bb, si in mut_borrows_of_field(fn, "prealloc_exe", "posix::PrepExec"):
            writers.append((p, "&mut"))
    ctx.ob("R17.3", "prealloc_exe.untouched-until-exec", writers == [("posix::PrepExec::exec", "&mut")], "", "writers / mutable borrows of prealloc_exe: %s (only the mem::take in exec)" % writers)
    ae = prog.one("posix::PrepExec::assemble_exe")
    Ta = M.Terms(ae)
    sto = ("param", 1, ae.local_name(1))
    meths = sorted({M.callee_str(t["f"]).split("::")[-1] for _, t in ae.calls() if M.callee_str(t["f"]).startswith("std::vec::Vec::") and M.noref(Ta.operand(t["args"][0])) == sto})
    ctx.ob("R17.3", "assemble_exe.keeps-capacity", set(meths) <= {"truncate", "extend_from_slice", "push", "as_slice", "clear", "len"}, ae.loc(0), "Vec methods applied to the storage: %s (none may release or replace the allocation)" % meths)
    # ---- R17.4 the closure only execs ---------------------------------------------------------------------
    c2 = [p for p in prog.fns if p.startswith("posix::prep_exec::{closure") and any(M.callee_str(t["f"]) == "posix::PrepExec::exec" for _, t in prog.fns[p].calls())]
    ok = len(c2) == 1
    if ok:
        names = [M.callee_str(t["f"]) for _, t in prog.fns[c2[0]].calls()]
        ok = names == ["posix::PrepExec::exec"]
    ctx.ob("R17.4", "exec-closure-only-execs", ok, "", "the closure returned by prep_exec calls PrepExec::exec and nothing else")


def term_of_def(fn, T, d, cap_local):
    """term of one definition of the capacity local, with references to the local itself kept symbolic"""
    bb, si, r = d
    saved = T.memo.pop(cap_local, None)
    T.stack.add(cap_local)
    try:
        t = T.rvalue(r)
    finally:
        T.stack.discard(cap_local)
        if saved is not None:
            T.memo[cap_local] = saved
    return t


def _reached_without_panic(v, parent, is_panic):
    cur = v
    g = 0
    while cur in parent and g < 200:
        g += 1
        cur = parent[cur][0]
        if is_panic[cur]:
            return False
    return True
