"""helpers shared by the rule modules"""
import mirlib as M

CHILD_STATE = {"Preparing": 0, "Running": 1, "Finished": 2}
REDIR = {"None": 0, "Pipe": 1, "Merge": 2, "File": 3, "RcFile": 4}

# panic entry points: calls that never return normally and start unwinding / abort
PANIC_PREFIXES = (
    "core::panicking::", "std::panicking::", "std::rt::begin_panic", "core::panic",
    "std::rt::panic", "core::option::unwrap_failed", "core::option::expect_failed",
    "core::result::unwrap_failed", "core::slice::index::slice_", "core::str::slice_error_fail",
    "alloc::alloc::handle_alloc_error", "alloc::raw_vec::capacity_overflow", "alloc::raw_vec::handle_error",
    "std::process::abort", "core::cell::panic_already", "std::thread::local::panic_access_error",
    "core::intrinsics::abort", "std::sys::pal::unix::abort_internal", "std::rt::abort",
)


def is_panic_callee(name):
    return name.startswith(PANIC_PREFIXES) or "::panic_" in name or name.endswith("::unwrap_failed") or name.endswith("::expect_failed")


def is_panic_call(t):
    if t["k"] != "call":
        return False
    return t["t"] is None and is_panic_callee(M.callee_str(t["f"]))


def variants(prog, adt):
    a = prog.adts.get(adt)
    if a is None:
        raise M.MissingAnchor("type %s" % adt)
    return [v["name"] for v in a["variants"]]


def self_field(name, selfname="self"):
    return ("field", ("deref", ("param", 1, selfname)), name)


def is_field_of_param(t, field, param=1):
    """t == (*param).field  or  param.field"""
    if t[0] != "field" or t[2] != field:
        return False
    b = t[1]
    if b[0] == "deref":
        b = b[1]
    return b[0] == "param" and b[1] == param


def discr_switches(fn, terms, place_pred):
    """(bb, switch terminator) for every live switch on discriminant(P) with place_pred(term(P))"""
    out = []
    for bb in sorted(fn.live_blocks()):
        r = M.switch_operand_def(fn, bb)
        if r is None or r["k"] != "discr":
            continue
        if place_pred(terms.place(r["p"])):
            out.append((bb, fn.blocks[bb]["term"]))
    return out


def variant_edges(fn, terms, place_pred, value, all_values):
    """CFG edges taken exactly when discriminant(P) == value (target not shared with another value)"""
    out = []
    for bb, t in discr_switches(fn, terms, place_pred):
        tgt = M.switch_target(t, value)
        others = {M.switch_target(t, v) for v in all_values if v != value}
        if tgt not in others:
            out.append((bb, tgt))
    return out


def dominated_by_edges(fn, bb, edges, start=0):
    """every path from `start` to bb takes one of `edges`"""
    if not edges:
        return False
    return bb not in fn.reachable(start, removed_edges=set(edges))


def dominated_by_blocks(fn, bb, blocks, start=0):
    if not blocks:
        return False
    blocks = set(blocks)
    if bb in blocks:
        return True
    return bb not in fn.reachable(start, removed_blocks=blocks)


def bool_edges(fn, terms, cond_pred, want_true):
    """edges of `switchInt(c)` on a bool value whose term satisfies cond_pred, for the
    true (nonzero) or false (0) outcome"""
    out = []
    for bb in sorted(fn.live_blocks()):
        t = fn.blocks[bb]["term"]
        if t["k"] != "switch" or t.get("dty") != "bool":
            continue
        r = M.switch_operand_def(fn, bb)
        term = terms.rvalue(r) if r is not None else terms.operand(t["d"])
        if not cond_pred(term):
            continue
        f_tgt = M.switch_target(t, 0)
        t_tgt = M.switch_target(t, 1)
        if f_tgt == t_tgt:
            continue
        out.append((bb, t_tgt if want_true else f_tgt))
    return out


def stores_to_field(fn, field, owner=None):
    """(bb, stmt index, stmt) of every MIR store whose destination place ends in `.field`
    (of ADT `owner` if given) or passes through it"""
    out = []
    for bb in sorted(fn.live_blocks()):
        b = fn.blocks[bb]
        for si, s in enumerate(b["stmts"]):
            if s["k"] not in ("assign", "setdiscr"):
                continue
            for e in s["p"]["proj"]:
                if e["k"] == "field" and e["name"] == field and (owner is None or e["of"] == owner):
                    out.append((bb, si, s))
                    break
        t = b["term"]
        if t["k"] == "call":
            for e in t["dest"]["proj"]:
                if e["k"] == "field" and e["name"] == field and (owner is None or e["of"] == owner):
                    out.append((bb, "term", t))
                    break
    return out


def mut_borrows_of_field(fn, field, owner=None):
    """(bb, si) of `&mut ...field` borrows (a store could follow through the reference)"""
    out = []
    for bb in sorted(fn.live_blocks()):
        for si, s in enumerate(fn.blocks[bb]["stmts"]):
            if s["k"] == "assign" and s["r"]["k"] in ("ref", "rawptr") and (s["r"].get("mut") or s["r"]["k"] == "rawptr"):
                for e in s["r"]["p"]["proj"]:
                    if e["k"] == "field" and e["name"] == field and (owner is None or e["of"] == owner):
                        out.append((bb, si))
                        break
    return out


def aggregates_of(fn, adt):
    """(bb, si, rvalue) for each construction of ADT `adt`"""
    out = []
    for bb in sorted(fn.live_blocks()):
        for si, s in enumerate(fn.blocks[bb]["stmts"]):
            if s["k"] == "assign" and s["r"]["k"] == "agg" and s["r"]["kind"] == "adt" and s["r"]["adt"] == adt:
                out.append((bb, si, s["r"]))
    return out


def const_of(t):
    """integer value of a constant term (through casts), else None"""
    while t[0] == "cast":
        t = t[2]
    if t[0] == "const" and isinstance(t[1], int):
        return t[1]
    return None


def extern_calls(prog, names):
    """all call sites of the given libc/extern functions in the crate"""
    names = set(names)
    out = []
    for p, fn in sorted(prog.fns.items()):
        for bb, t in fn.calls():
            f = t["f"]
            if "indirect" in f:
                continue
            nm = f.get("rpath") or f["path"]
            base = nm.split("::")[-1]
            if (f.get("foreign") or f.get("rforeign") or f.get("krate") in ("libc",)) and base in names:
                out.append((fn, bb, t))
    return out


def fn_args_terms(fn, t, terms=None):
    terms = terms or M.Terms(fn)
    return [terms.operand(a) for a in t["args"]]


def public_api(prog):
    """bodies callable from outside the crate: `pub` visibility all the way is not tracked by
    rustc's def visibility alone, so use: visibility pub, or trait-impl methods of public traits"""
    out = []
    for p, f in prog.fns.items():
        if f.j.get("is_closure"):
            continue
        if f.j.get("vis") == "pub":
            out.append(f)
    return out
