"""helpers shared by the rule modules"""
import mirlib as M

CHILD_STATE = {"Preparing": 0, "Running": 1, "Finished": 2}
REDIR = {"None": 0, "Pipe": 1, "Merge": 2, "File": 3, "RcFile": 4}

# panic entry points: calls that never return normally and start unwinding / abort
PANIC_PREFIXES = (
    "core::panicking::", "std::panicking::", "std::rt::begin_panic", "core::panic",
    "std::rt::panic", "core::option::unwrap_failed", "core::option::expect_failed",
    "core::result::unwrap_failed", "core::slice::index::slice_", "core::str::slice_error_fail",
    "alloc::alloc::handle_alloc_error", "alloc::raw_vec::capacity_overflow", "alloc::raw_vec::handle_error",
    "std::process::abort", "core::cell::panic_already", "std::thread::local::panic_access_error",
    "core::intrinsics::abort", "std::sys::pal::unix::abort_internal", "std::rt::abort",
)


def is_panic_callee(name):
    return name.startswith(PANIC_PREFIXES) or "::panic_" in name or name.endswith("::unwrap_failed") or name.endswith("::expect_failed")


def is_panic_call(t):
    if t["k"] != "call":
        return False
    return t["t"] is None and is_panic_callee(M.callee_str(t["f"]))


def variants(prog, adt):
    a = prog.adts.get(adt)
    if a is None:
        raise M.MissingAnchor("type %s" % adt)
    return [v["name"] for v in a["variants"]]


def self_field(name, selfname="self"):
    return ("field", ("deref", ("param", 1, selfname)), name)


def is_field_of_param(t, field, param=1):
    """t == (*param).field  or  param.field"""
    if t[0] != "field" or t[2] != field:
        return False
    b = t[1]
    if b[0] == "deref":
        b = b[1]
    return b[0] == "param" and b[1] == param


def discr_switches(fn, terms, place_pred, ty_prefix=None):
    """(bb, switch terminator) for every live switch on discriminant(P) with place_pred(term(P))
    (and the type of P starting with ty_prefix, if given)"""
    out = []
    for bb in sorted(fn.live_blocks()):
        r = M.switch_operand_def(fn, bb)
        if r is None or r["k"] != "discr":
            continue
        if ty_prefix is not None and not (r["p"].get("ty") or "").startswith(ty_prefix):
            continue
        if place_pred(terms.place(r["p"])):
            out.append((bb, fn.blocks[bb]["term"]))
    return out


def variant_edges(fn, terms, place_pred, value, all_values, ty_prefix=None):
    """CFG edges taken exactly when discriminant(P) == value (target not shared with another value)"""
    out = []
    for bb, t in discr_switches(fn, terms, place_pred, ty_prefix):
        tgt = M.switch_target(t, value)
        others = {M.switch_target(t, v) for v in all_values if v != value}
        if tgt not in others:
            out.append((bb, tgt))
    return out


def dominated_by_edges(fn, bb, edges, start=0):
    """every path from `start` to bb takes one of `edges`"""
    if not edges:
        return False
    return bb not in fn.reachable(start, removed_edges=set(edges))


def dominated_by_blocks(fn, bb, blocks, start=0):
    if not blocks:
        return False
    blocks = set(blocks)
    if bb in blocks:
        return True
    return bb not in fn.reachable(start, removed_blocks=blocks)


def bool_edges(fn, terms, cond_pred, want_true):
    """edges of `switchInt(c)` on a bool value whose term satisfies cond_pred, for the
    true (nonzero) or false (0) outcome"""
    out = []
    for bb in sorted(fn.live_blocks()):
        t = fn.blocks[bb]["term"]
        if t["k"] != "switch" or t.get("dty") != "bool":
            continue
        r = M.switch_operand_def(fn, bb)
        term = terms.rvalue(r) if r is not None else terms.operand(t["d"])
        if not cond_pred(term):
            continue
        f_tgt = M.switch_target(t, 0)
        t_tgt = M.switch_target(t, 1)
        if f_tgt == t_tgt:
            continue
        out.append((bb, t_tgt if want_true else f_tgt))
    return out


def int_eq_edges(fn, terms, is_val, n):
    """edges under which the integer value recognised by is_val equals the constant n, however the test is written:
    `v == n` true edge, `v != n` false edge, or the `n` arm of a `match v`"""
    isv = lambda t: is_val(t) or is_val(M.noref(t))
    def cmp_(op):
        return lambda c: c[0] == "bin" and c[1] == op and ((const_of(c[3]) == n and isv(c[2])) or (const_of(c[2]) == n and isv(c[3])))
    out = bool_edges(fn, terms, cmp_("Eq"), True) + bool_edges(fn, terms, cmp_("Ne"), False)
    for bb in sorted(fn.live_blocks()):
        t = fn.blocks[bb]["term"]
        if t["k"] != "switch" or t.get("dty") == "bool":
            continue
        r = M.switch_operand_def(fn, bb)
        if r is not None and r["k"] == "discr":
            continue
        term = terms.rvalue(r) if r is not None else terms.operand(t["d"])
        if not isv(term):
            continue
        tg = [b for v, b in t["targets"] if v == n]
        if len(tg) == 1 and tg[0] != t.get("otherwise") and sum(1 for _, b in t["targets"] if b == tg[0]) == 1:
            out.append((bb, tg[0]))
    return out


def int_gt_edges(fn, terms, is_val, k):
    """edges under which the integer value recognised by is_val is greater than the constant k, however the test is written:
    v > k, v >= k+1, !(v <= k), !(v < k+1), and the mirrored forms with the constant on the left"""
    isv = lambda t: is_val(t) or is_val(M.noref(t))
    def form(op, c, left_const):
        def pred(x):
            if not (x[0] == "bin" and x[1] == op):
                return False
            a, b = (x[3], x[2]) if left_const else (x[2], x[3])
            return isv(a) and const_of(b) == c
        return pred
    out = []
    out += bool_edges(fn, terms, form("Gt", k, False), True) + bool_edges(fn, terms, form("Ge", k + 1, False), True)
    out += bool_edges(fn, terms, form("Le", k, False), False) + bool_edges(fn, terms, form("Lt", k + 1, False), False)
    out += bool_edges(fn, terms, form("Lt", k, True), True) + bool_edges(fn, terms, form("Le", k + 1, True), True)
    out += bool_edges(fn, terms, form("Ge", k, True), False) + bool_edges(fn, terms, form("Gt", k + 1, True), False)
    return out


def int_eq_edges_ne(fn, terms, is_val, n):
    """edges under which the integer value recognised by is_val differs from the constant n (`v != n` true edge, `v == n` false edge,
    the default arm of a `match v` that has an arm for n)"""
    isv = lambda t: is_val(t) or is_val(M.noref(t))
    def cmp_(op):
        return lambda c: c[0] == "bin" and c[1] == op and ((const_of(c[3]) == n and isv(c[2])) or (const_of(c[2]) == n and isv(c[3])))
    out = bool_edges(fn, terms, cmp_("Ne"), True) + bool_edges(fn, terms, cmp_("Eq"), False)
    for bb in sorted(fn.live_blocks()):
        t = fn.blocks[bb]["term"]
        if t["k"] != "switch" or t.get("dty") == "bool":
            continue
        r = M.switch_operand_def(fn, bb)
        if r is not None and r["k"] == "discr":
            continue
        term = terms.rvalue(r) if r is not None else terms.operand(t["d"])
        if not isv(term):
            continue
        tg = [b for v, b in t["targets"] if v == n]
        if len(tg) == 1 and len(t["targets"]) == 1 and t["otherwise"] != tg[0]:
            out.append((bb, t["otherwise"]))
    return out


def stores_to_field(fn, field, owner=None):
    """(bb, stmt index, stmt) of every MIR store whose destination place ends in `.field`
    (of ADT `owner` if given) or passes through it"""
    out = []
    T_ = None
    def through_ref(p):
        """the destination is *r where r was bound to &mut x.field (a helper that got the field by reference)"""
        nonlocal T_
        if not p["proj"] or p["proj"][0]["k"] != "deref":
            return False
        if T_ is None:
            T_ = M.Terms(fn)
        t = T_.place({"l": p["l"], "proj": p["proj"][:1], "ty": p.get("ty")})
        while t and t[0] in ("deref", "ref"):
            t = t[1]
        if not (t and t[0] == "field" and t[2] == field):
            return False
        if owner is not None:
            # the reference was taken of `x.field` with x of the owner type (the borrow's own projection says so)
            l_, seen_ = p["l"], 0
            while seen_ < 6:
                seen_ += 1
                ds_ = [d_ for d_ in fn.defs().get(l_, []) if d_[2]["k"] != "partial"]
                if len(ds_) != 1:
                    return False
                r_ = ds_[0][2]
                if r_["k"] == "use" and r_["op"]["k"] in ("copy", "move") and not r_["op"]["p"]["proj"]:
                    l_ = r_["op"]["p"]["l"]
                    continue
                if r_["k"] in ("ref", "rawptr") and [e_["k"] for e_ in r_["p"]["proj"]] == ["deref"]:
                    l_ = r_["p"]["l"]          # a reborrow `&mut *r`
                    continue
                if r_["k"] in ("ref", "rawptr"):
                    fe_ = [e_ for e_ in r_["p"]["proj"] if e_["k"] == "field"]
                    return bool(fe_) and fe_[-1].get("name") == field and fe_[-1].get("of") == owner
                return False
            return False
        # the rest of the projection must not go into a sub-field named differently (a store *into* the field still counts)
        return True
    for bb in sorted(fn.live_blocks()):
        b = fn.blocks[bb]
        for si, s in enumerate(b["stmts"]):
            if s["k"] not in ("assign", "setdiscr"):
                continue
            hit = False
            for e in s["p"]["proj"]:
                if e["k"] == "field" and e["name"] == field and (owner is None or e["of"] == owner):
                    hit = True
                    break
            if hit or through_ref(s["p"]):
                out.append((bb, si, s))
        t = b["term"]
        if t["k"] == "call":
            for e in t["dest"]["proj"]:
                if e["k"] == "field" and e["name"] == field and (owner is None or e["of"] == owner):
                    out.append((bb, "term", t))
                    break
    return out


def mut_borrows_of_field(fn, field, owner=None):
    """(bb, si) of `&mut ...field` borrows (a store could follow through the reference)"""
    out = []
    for bb in sorted(fn.live_blocks()):
        for si, s in enumerate(fn.blocks[bb]["stmts"]):
            if s["k"] == "assign" and s["r"]["k"] in ("ref", "rawptr") and (s["r"].get("mut") or s["r"]["k"] == "rawptr"):
                for e in s["r"]["p"]["proj"]:
                    if e["k"] == "field" and e["name"] == field and (owner is None or e["of"] == owner):
                        out.append((bb, si))
                        break
    return out


def aggregates_of(fn, adt):
    """(bb, si, rvalue) for each construction of ADT `adt`"""
    out = []
    for bb in sorted(fn.live_blocks()):
        for si, s in enumerate(fn.blocks[bb]["stmts"]):
            if s["k"] == "assign" and s["r"]["k"] == "agg" and s["r"]["kind"] == "adt" and s["r"]["adt"] == adt:
                out.append((bb, si, s["r"]))
    return out


def const_of(t):
    """integer value of a constant term (through casts), else None"""
    while t[0] == "cast":
        t = t[2]
    if t[0] == "const" and isinstance(t[1], int):
        return t[1]
    return None


def extern_calls(prog, names):
    """all call sites of the given libc/extern functions in the crate"""
    names = set(names)
    out = []
    for p, fn in sorted(prog.fns.items()):
        for bb, t in fn.calls():
            f = t["f"]
            if "indirect" in f:
                continue
            nm = f.get("rpath") or f["path"]
            base = nm.split("::")[-1]
            if (f.get("foreign") or f.get("rforeign") or f.get("krate") in ("libc",)) and base in names:
                out.append((fn, bb, t))
    return out


def fn_args_terms(fn, t, terms=None):
    terms = terms or M.Terms(fn)
    return [terms.operand(a) for a in t["args"]]


def public_api(prog):
    """bodies callable from outside the crate: `pub` visibility all the way is not tracked by
    rustc's def visibility alone, so use: visibility pub, or trait-impl methods of public traits"""
    out = []
    for p, f in prog.fns.items():
        if f.j.get("is_closure"):
            continue
        if f.j.get("vis") == "pub":
            out.append(f)
    return out


# ----------------------------------------------------------------------------
# the fork site and the child region
# ----------------------------------------------------------------------------


class ForkModel:
    """locates the single fork() site and splits os_start into the child and parent regions"""

    def __init__(self, prog):
        self.prog = prog
        self.libc_fork = extern_calls(prog, ["fork", "vfork", "clone", "clone3", "posix_spawn", "posix_spawnp", "_Fork", "rfork"])
        self.wrapper_calls = M.all_calls(prog, lambda f: M.callee_str(f) == "posix::fork")
        self.ok = len(self.wrapper_calls) == 1
        if not self.ok:
            return
        self.fn, self.fork_bb, _ = self.wrapper_calls[0]
        fn = self.fn
        self.T = M.Terms(fn)
        is_fork_opt = lambda t: M.strip(t)[0] == "call" and M.strip(t)[1] == "posix::fork"
        self.child_edges = variant_edges(fn, self.T, is_fork_opt, 0, [0, 1], "std::option::Option<")
        self.parent_edges = variant_edges(fn, self.T, is_fork_opt, 1, [0, 1], "std::option::Option<")
        if not self.child_edges or not self.parent_edges:
            self.ok = False
            return
        # the fork result may be tested more than once (e.g. `matches!(r, Ok(None))` before the `match`): the regions are what is reachable
        # from a child (parent) edge without crossing a parent (child) edge of any of these tests; the entries are those of the last test
        def last(edges):
            return max(edges, key=lambda e: sum(1 for o in edges if o != e and e[0] in fn.reachable(o[1])))
        ce, pe = last(self.child_edges), last(self.parent_edges)
        self.child_entry = ce[1]
        self.parent_entry = pe[1]
        # ... nor the failure edge of fork() itself (a later `r?` on the same value cannot fail once it was seen to be Ok(..))
        is_fork_res = lambda t: t[0] == "call" and t[1] == "posix::fork"
        fail_edges = set(variant_edges(fn, self.T, is_fork_res, 1, [0, 1], "std::result::Result<"))
        fail_edges |= set(variant_edges(fn, self.T, lambda t: t[0] == "call" and t[1].endswith("as std::ops::Try>::branch") and t[2] and is_fork_res(t[2][0]), 1, [0, 1], "std::ops::ControlFlow<"))
        # (flag-following traversal: a `matches!` result tested right after is a constant on each of these edges)
        def region(edges, other):
            out = set()
            full = M.Explore(fn)
            for e in edges:
                states = full.state_at.get(e[0], [None])
                for st_ in states:
                    init = dict(full._step_state(e[0], st_)) if st_ is not None else None
                    out |= M.Explore(fn, start=e[1], init=init, removed_edges=set(other) | fail_edges).blocks
            return out
        self.child_region = region(self.child_edges, self.parent_edges)
        self.parent_region = region(self.parent_edges, self.child_edges)
        self.pre_region = fn.reachable(0, stop_blocks=[self.fork_bb])

    def child_roots(self):
        """crate-local bodies entered from the child region (callees, closures whose values flow
        into the calls' arguments)"""
        return region_roots(self.prog, self.fn, self.child_region)

    def child_closure(self):
        return M.local_closure(self.prog, self.child_roots())

    def child_only_fns(self):
        """crate functions that run only in the forked child: reachable from the child region and with every
        call site inside the child region or inside another such function (greatest fixpoint) — so that moving
        the child's code into a helper keeps it 'child code' for every rule"""
        if hasattr(self, "_child_only"):
            return self._child_only
        S = set(self.child_closure())
        sites = {}
        for p, fn in self.prog.fns.items():
            for bb, t in fn.calls():
                for nm in M.callee_names(t["f"]):
                    if nm in S:
                        sites.setdefault(nm, []).append((p, bb))
            # closures and fn items mentioned as values count as uses of their defining context
            for c in M.local_callees(self.prog, fn):
                if c in S and "{closure" in c:
                    sites.setdefault(c, []).append((p, None))
        changed = True
        while changed:
            changed = False
            for f in list(S):
                for (p, bb) in sites.get(f, []):
                    inside = (p == self.fn.path and bb is not None and bb in self.child_region and bb not in self.parent_region) or (p in S and p != self.fn.path)
                    if not inside:
                        S.discard(f)
                        changed = True
                        break
        self._child_only = S
        return S

    def in_child(self, fn, bb):
        """is this program point executed only in the forked child?"""
        if fn.path == self.fn.path:
            return bb in self.child_region and bb not in self.parent_region
        return fn.path in self.child_only_fns()


def _may_hold_code(ty):
    return any(m in ty for m in ("Closure(", "{closure", "dyn ", "fn(", "impl ", "Opaque", "FnDef("))


def closures_in_value(prog, t, out, seen, fn=None):
    """closures / fn items that can be *part of* the value denoted by term t: through aggregates
    (incl. closure captures), phis, projections, results of non-local calls given them as
    arguments (iterator adaptors, Option::map ...) and results of crate-local calls (by their
    own return value, not by their arguments)"""
    if isinstance(t, frozenset):
        for y in t:
            closures_in_value(prog, y, out, seen, fn)
        return
    if not isinstance(t, tuple) or not t or not isinstance(t[0], str):
        return
    k = t[0]
    if k == "agg":
        if isinstance(t[1], tuple) and t[1][0] == "closure":
            out.add(t[1][1])
        for o in t[2]:
            closures_in_value(prog, o, out, seen, fn)
    elif k == "fnitem":
        if t[1] in prog.fns:
            out.add(t[1])
    elif k == "call":
        if t[1] in prog.fns:
            out.update(returned_closures(prog, t[1], seen))
        else:
            # a non-local call can only hand back code it was given, and only if its result type can hold code
            hold = True
            if fn is not None and len(t) > 3 and isinstance(t[3], int):
                tt = fn.blocks[t[3]]["term"]
                if tt["k"] == "call":
                    hold = _may_hold_code(tt["dest"]["ty"])
            if hold:
                for o in t[2]:
                    closures_in_value(prog, o, out, seen, fn)
    elif k == "phi":
        closures_in_value(prog, t[1], out, seen, fn)
    elif k in ("field", "deref", "ref", "downcast", "index", "cidx", "subslice", "cast", "un", "proj"):
        for y in t[1:]:
            if isinstance(y, tuple):
                closures_in_value(prog, y, out, seen, fn)


def returned_closures(prog, path, seen=None):
    """closures (and fn items) that can be part of the value returned by crate fn `path`"""
    seen = seen if seen is not None else set()
    if path in seen or path not in prog.fns:
        return set()
    seen.add(path)
    fn = prog.fns[path]
    T = M.Terms(fn)
    out = set()
    closures_in_value(prog, T.local(0), out, seen, fn)
    return out


def region_roots(prog, fn, blocks):
    roots = set()
    T = M.Terms(fn)
    for bb in sorted(blocks):
        b = fn.blocks[bb]
        if b["cleanup"]:
            continue
        t = b["term"]
        if t["k"] not in ("call", "tailcall"):
            continue
        f = t["f"]
        if "indirect" not in f:
            for k in ("rpath", "path"):
                if f.get(k) in prog.fns:
                    roots.add(f[k])
        for a in t["args"]:
            closures_in_value(prog, T.operand(a), roots, set(), fn)
    return roots


def try_ok_edges(fn, terms, call_pred):
    """Continue edges of `?` applied to the result of a call matching call_pred:
    switch on discriminant(_x) where _x = Try::branch(<call>)"""
    def is_branch_of(t):
        return (t[0] == "call" and t[1].endswith("as std::ops::Try>::branch") and t[2]
                and t[2][0][0] == "call" and call_pred(t[2][0]))
    # ... or of a direct look at that result: match f() { Ok(..) => .., Err(..) => .. }, if let Ok(..) = f(), f().map(..) (lowered)
    is_call = lambda t: t[0] == "call" and not t[1].endswith("as std::ops::Try>::branch") and call_pred(t)
    return variant_edges(fn, terms, is_branch_of, 0, [0, 1], "std::ops::ControlFlow<") + variant_edges(fn, terms, is_call, 0, [0, 1], "std::result::Result<")


def try_err_edges(fn, terms, call_pred):
    def is_branch_of(t):
        return (t[0] == "call" and t[1].endswith("as std::ops::Try>::branch") and t[2]
                and t[2][0][0] == "call" and call_pred(t[2][0]))
    is_call = lambda t: t[0] == "call" and not t[1].endswith("as std::ops::Try>::branch") and call_pred(t)
    return variant_edges(fn, terms, is_branch_of, 1, [0, 1], "std::ops::ControlFlow<") + variant_edges(fn, terms, is_call, 1, [0, 1], "std::result::Result<")


def callers_of(prog, path):
    return M.all_calls(prog, lambda f: M.callee_str(f) == path)


# ----------------------------------------------------------------------------
# effect summaries under a finite-domain assumption
# ----------------------------------------------------------------------------


def effects(fn, assume=None, tracked=(), tries="ok", assume_fn=None):
    """explore fn under `assume` and return (explore, terms, stores) where stores is the list of
    (slot, value term, bb) for every store whose destination goes through a reference
    parameter or into a field of `self`; terms are evaluated over the explored blocks only"""
    ex = M.Explore(fn, assume=assume or {}, tracked=tracked, tries=tries, assume_fn=assume_fn)
    T = M.Terms(fn, blocks=ex.blocks)
    stores = []
    for bb in sorted(ex.blocks):
        for si, s in enumerate(fn.blocks[bb]["stmts"]):
            if s["k"] != "assign" or not s["p"]["proj"]:
                continue
            if s["p"]["proj"][0]["k"] != "deref":
                continue
            slot = T.place_slot(s["p"])
            if slot is None:
                continue
            stores.append((slot, T.rvalue(s["r"]), bb))
    return ex, T, stores


def result_variants(fn, ex):
    """variants assigned to the return place in the explored blocks: list of (bb, si, variant, rvalue)"""
    out = []
    for bb in sorted(ex.blocks):
        for si, s in enumerate(fn.blocks[bb]["stmts"]):
            if s["k"] == "assign" and s["p"]["l"] == 0 and not s["p"]["proj"] and s["r"]["k"] == "agg" and s["r"]["kind"] == "adt":
                out.append((bb, si, s["r"]["variant"], s["r"]))
        t = fn.blocks[bb]["term"]
        if t["k"] == "call" and t["dest"]["l"] == 0 and not t["dest"]["proj"]:
            nm = M.callee_str(t["f"])
            out.append((bb, "term", "from_residual" if "FromResidual" in nm else "call:" + nm, t))
    return out


# ----------------------------------------------------------------------------
# uses of locals (for discarded-result detection)
# ----------------------------------------------------------------------------


def _place_locals(p, out):
    out.add(p["l"])
    for e in p["proj"]:
        if e["k"] == "index":
            out.add(e["l"])


def _operand_locals(o, out):
    if o["k"] in ("copy", "move"):
        _place_locals(o["p"], out)


def _rvalue_locals(r, out):
    k = r["k"]
    if k in ("use", "cast", "repeat"):
        _operand_locals(r["op"], out)
    elif k in ("ref", "rawptr", "discr"):
        _place_locals(r["p"], out)
    elif k == "bin":
        _operand_locals(r["a"], out)
        _operand_locals(r["b"], out)
    elif k == "un":
        _operand_locals(r["a"], out)
    elif k == "agg":
        for o in r["ops"]:
            _operand_locals(o, out)


def local_reads(fn):
    """local -> list of (bb, where) where the local's value is read (drops excluded)"""
    reads = {}

    def add(ls, bb, w):
        for l in ls:
            reads.setdefault(l, []).append((bb, w))

    for bb in sorted(fn.live_blocks()):
        b = fn.blocks[bb]
        for si, s in enumerate(b["stmts"]):
            if s["k"] == "assign":
                ls = set()
                _rvalue_locals(s["r"], ls)
                # reading through a projected destination (e.g. (*_1).x = ..) uses _1
                if s["p"]["proj"]:
                    ls.add(s["p"]["l"])
                add(ls, bb, si)
        t = b["term"]
        ls = set()
        if t["k"] == "switch":
            _operand_locals(t["d"], ls)
        elif t["k"] in ("call", "tailcall"):
            for a in t["args"]:
                _operand_locals(a, ls)
            if "indirect" in t["f"]:
                _operand_locals(t["f"]["indirect"], ls)
            if t["k"] == "call" and t["dest"]["proj"]:
                ls.add(t["dest"]["l"])
        elif t["k"] == "assert":
            _operand_locals(t["cond"], ls)
        add(ls, bb, "term")
    return reads


def only_dropped(fn, l, reads=None, depth=0):
    """the value in local l is never looked at: it is not read at all (dropped where it goes out of scope), or only moved -- possibly
    through temporaries -- into std::mem::drop"""
    reads = reads if reads is not None else local_reads(fn)
    if depth > 6:
        return False
    for bb, w in reads.get(l, []):
        if w == "term":
            t = fn.blocks[bb]["term"]
            if t["k"] == "call" and M.callee_str(t["f"]) in ("std::mem::drop", "core::mem::drop") and len(t["args"]) == 1 and \
                    t["args"][0]["k"] == "move" and t["args"][0]["p"]["l"] == l and not t["args"][0]["p"]["proj"]:
                continue
            return False
        s = fn.blocks[bb]["stmts"][w]
        r = s["r"]
        if r["k"] == "use" and r["op"]["k"] == "move" and r["op"]["p"]["l"] == l and not r["op"]["p"]["proj"] and not s["p"]["proj"] and \
                only_dropped(fn, s["p"]["l"], reads, depth + 1):
            continue
        return False
    return True


def discarded_results(fn):
    """call sites whose Result value is thrown away: the destination local (a Result, or the
    Option produced by `.ok()` / `.err()` on a Result) is never read"""
    reads = local_reads(fn)
    out = []
    for bb, t in fn.calls():
        if t["k"] != "call" or t["dest"]["proj"]:
            continue
        ty = t["dest"]["ty"]
        nm = M.callee_str(t["f"])
        l = t["dest"]["l"]
        if l == 0:
            continue
        is_res = ty.startswith("std::result::Result<")
        is_ok = nm in ("std::result::Result::<T, E>::ok", "std::result::Result::<T, E>::err")
        if not (is_res or is_ok):
            continue
        uses = [u for u in reads.get(l, [])]
        if not uses:
            out.append((bb, t, "discarded" if is_res else "discarded-through-" + nm.split("::")[-1]))
    return out


# ----------------------------------------------------------------------------
# whole-program (deep) who-may-call
# ----------------------------------------------------------------------------


def deep_extern_callers(prog, last_segments):
    """in the monomorphic whole-program instance graph (rooted at every non-generic local function,
    std and libc included): {extern name: sorted caller instance paths}"""
    g = prog.graph
    out = {}
    if g is None:
        return None
    nodes = g["nodes"]
    want = set(last_segments)
    targets = {i for i, n in enumerate(nodes) if n["foreign"] and n["name"].split("::")[-1] in want}
    for i, n in enumerate(nodes):
        for (to, bb, kind, ln, fl) in n["edges"]:
            if to in targets:
                out.setdefault(nodes[to]["name"], set()).add(n["path"])
    return {k: sorted(v) for k, v in out.items()}


def deep_census(ctx, rule, last_segments, allowed):
    """thorough tier: every caller, anywhere in the whole program reachable from the crate, of the
    given extern functions must be an allowed wrapper (calls hidden behind std generics, closures
    or trait objects are resolved here, unlike in the crate-only census)"""
    prog = ctx.program("deep")
    res = deep_extern_callers(prog, last_segments)
    if res is None:
        ctx.ob(rule, "deep-graph", False, "", "whole-program graph missing")
        return
    seen = 0
    for name, callers in sorted(res.items()):
        for c in callers:
            seen += 1
            ok = c in allowed.get(name.split("::")[-1], ())
            ctx.ob(rule, "deep:%s<-%s" % (name.split("::")[-1], c), ok, "", "whole-program: %s is called by %s (allowed callers: %s)" % (name, c, list(allowed.get(name.split("::")[-1], ()))))
    return seen


def zero_test_edges(fn, terms, value_pred):
    """edges taken exactly when an integer value (whose term satisfies value_pred) is == 0 / != 0, for both
    MIR shapes: `switchInt(Eq(v, 0))` / `switchInt(Ne(v, 0))` and a direct `switchInt(v) -> [0: .., otherwise: ..]`"""
    zero, nonzero = [], []
    zero += bool_edges(fn, terms, lambda c: c[0] == "bin" and c[1] == "Eq" and const_of(c[3]) == 0 and value_pred(c[2]), True)
    nonzero += bool_edges(fn, terms, lambda c: c[0] == "bin" and c[1] == "Eq" and const_of(c[3]) == 0 and value_pred(c[2]), False)
    zero += bool_edges(fn, terms, lambda c: c[0] == "bin" and c[1] == "Ne" and const_of(c[3]) == 0 and value_pred(c[2]), False)
    nonzero += bool_edges(fn, terms, lambda c: c[0] == "bin" and c[1] == "Ne" and const_of(c[3]) == 0 and value_pred(c[2]), True)
    for bb in sorted(fn.live_blocks()):
        t = fn.blocks[bb]["term"]
        if t["k"] != "switch" or t.get("dty") in ("bool", "isize") and M.switch_operand_def(fn, bb) is not None and M.switch_operand_def(fn, bb)["k"] == "discr":
            continue
        if t.get("dty") == "bool":
            continue
        sw = M.switch_term(fn, terms, bb)
        if not value_pred(sw):
            continue
        vals = [v for v, _ in t["targets"]]
        if vals == [0] and M.switch_target(t, 0) != t["otherwise"]:
            zero.append((bb, M.switch_target(t, 0)))
            nonzero.append((bb, t["otherwise"]))
    return zero, nonzero


def cond_edges(fn, terms, atom):
    """edges on which a boolean condition holds / does not hold.  atom(term) -> +1 if the term *is* the
    condition, -1 if it is its negation, 0 otherwise; `!x` wrappers are peeled (polarity flips)."""
    def pol(t):
        sign = 1
        while t[0] == "un" and t[1] == "Not":
            t = t[2]
            sign = -sign
        return sign * atom(t)
    true_e, false_e = [], []
    for bb in sorted(fn.live_blocks()):
        t = fn.blocks[bb]["term"]
        if t["k"] != "switch" or t.get("dty") != "bool":
            continue
        r = M.switch_operand_def(fn, bb)
        term = terms.rvalue(r) if r is not None else terms.operand(t["d"])
        sgn = pol(term)
        if sgn == 0:
            continue
        f_tgt, t_tgt = M.switch_target(t, 0), M.switch_target(t, 1)
        if f_tgt == t_tgt:
            continue
        if sgn > 0:
            true_e.append((bb, t_tgt))
            false_e.append((bb, f_tgt))
        else:
            true_e.append((bb, f_tgt))
            false_e.append((bb, t_tgt))
    return true_e, false_e


def option_none_edges(fn, terms, place_pred):
    """edges taken exactly when an Option-valued place (term satisfying place_pred, references peeled) is None:
    a discriminant switch (value 0), `is_none()` true, or `is_some()` false"""
    out = variant_edges(fn, terms, lambda t: place_pred(M.noref(M.strip(t))) or place_pred(M.noref(t)), 0, [0, 1], "std::option::Option<")

    def atom(t):
        if t[0] == "call" and t[2] and place_pred(M.noref(M.strip(t[2][0]))) or (t[0] == "call" and t[2] and place_pred(M.noref(t[2][0]))):
            if t[1] == "std::option::Option::<T>::is_none":
                return 1
            if t[1] == "std::option::Option::<T>::is_some":
                return -1
        return 0
    te, fe = cond_edges(fn, terms, atom)
    return out + te


def reported_status_is_recorded(ctx, prog, rule):
    """every status handed out by the wait family comes out of self.child_state's Finished payload — so
    whenever termination has been *reported* (also `Undetermined` after someone else reaped the child) the
    handle *is* Finished, pid() is gone and no later call can signal or wait on the stale pid"""
    want = ("field", ("downcast", self_field("child_state"), "Finished"), "0")
    for name in ("os_wait_timeout", "os_wait"):
        f = prog.one(name)
        T = M.Terms(f)
        n = 0
        for (bb, si, v, r) in result_variants(f, M.Explore(f)):
            if v != "Ok":
                continue
            pay = T.operand(r["ops"][0])
            # Ok(status) | Ok(Some(status)) | Ok(None) | Ok(<an Option read out of the state: None, or Some(status)>), possibly unwrapped
            def leaves_(x, depth=0):
                x = M.noref(x)
                if depth > 8:
                    return [x]
                if x[0] == "phi":
                    return [y for a_ in x[1] for y in leaves_(a_, depth + 1)]
                if x[0] == "agg" and x[1][:3] == ("adt", "std::option::Option", "Some"):
                    return leaves_(x[2][0], depth + 1)
                if x[0] == "agg" and x[1][:3] == ("adt", "std::option::Option", "None"):
                    return []
                if x[0] == "call" and x[1] in ("std::option::Option::<T>::unwrap", "std::option::Option::<T>::expect") and x[2]:
                    return leaves_(x[2][0], depth + 1)
                if x[0] == "field" and x[2] == "0" and x[1][0] == "downcast" and x[1][2] == "Some" and M.noref(x[1][1])[0] in ("phi", "agg"):
                    return leaves_(x[1][1], depth + 1)
                return [x]
            lv = leaves_(pay)
            if not lv:
                continue
            n += 1
            def is_recorded(x):
                s_ = M.strip(x)
                return x == M.noref(want) or x == want or (s_[0] == "call" and s_[1] == "popen::Popen::exit_status" and M.noref(s_[2][0]) == ("param", 1, f.local_name(1)))
            ok = all(is_recorded(x) for x in lv)
            ctx.ob(rule, "%s.reported=recorded#%d" % (name, n), ok, f.loc(bb, si if si != "term" else None),
                   "%s returns the status %s: a reported status must be read out of self.child_state (Finished), never produced on the side while the state stays Running"
                   % (name, M.term_str(pay)[:80]))
        ctx.floor(rule, "%s status returns" % name, n, 1)


# ----------------------------------------------------------------------------
# what an unconfigured PopenConfig requests (Default impl): nothing
# ----------------------------------------------------------------------------

CONFIG_DEFAULTS = {
    "stdin": "None", "stdout": "None", "stderr": "None", "detached": 0, "executable": "None", "env": "None",
    "cwd": "None", "setuid": "None", "setgid": "None", "setpgid": 0,
}


def config_defaults(ctx, prog, rule, fields):
    """`<PopenConfig as Default>::default()` — the value every builder starts from — requests nothing for the given fields:
    'when asked' clauses are decided for the flag's source, this ties the absent request to the literal default."""
    df = prog.fn("<popen::PopenConfig as std::default::Default>::default")
    adt = prog.adts.get("popen::PopenConfig")
    if df is None or adt is None:
        ctx.missing(rule, "PopenConfig::default")
        return
    names = [f["name"] for f in adt["variants"][0]["fields"]]
    T = M.Terms(df)
    r = T.local(0)
    if not (r[0] == "agg" and r[1][0] == "adt" and r[1][1] == "popen::PopenConfig" and len(r[2]) == len(names)):
        ctx.ob(rule, "config-default.shape", False, df.loc(0), "PopenConfig::default() must build the struct literally; found %s" % M.term_str(r)[:120])
        return
    vals = dict(zip(names, r[2]))
    for f in fields:
        want = CONFIG_DEFAULTS[f]
        v = vals.get(f)
        if want in (0, 1):
            ok = v is not None and const_of(v) == want
        else:
            ok = v is not None and v[0] == "agg" and v[1][0] == "adt" and v[1][2] == want
        ctx.ob(rule, "config-default.%s" % f, ok, df.loc(0),
               "PopenConfig::default().%s = %s (must be %s: nothing is requested unless the caller asks)" % (f, M.term_str(v) if v else None, "false" if want == 0 else want))


def pipeline_spawner(prog):
    """the one function of the pipeline builder that starts the stages (contains the Exec::popen call): found by census, not by
    name, so that extracting the loop out of Pipeline::popen into a helper does not move the anchor"""
    cands = sorted({f.path for f, _, _ in callers_of(prog, "builder::exec::Exec::popen") if f.path.startswith("builder::pipeline")})
    return cands[0] if len(cands) == 1 else None


# ----------------------------------------------------------------------------
# Option pipelines, however written: x.map(|p| e) / x.and_then(|p| oe) / match x { Some(p) => Some(e), None => None } / if let
# ----------------------------------------------------------------------------

class OptBody:
    """Where and how the Some-case of an Option-valued term is computed from the payload of its source Option.
    fn/T: the function (closure or the enclosing function) holding the computation; payload: the term standing for the
    source's payload there; results: [(block, value term)] of the payload values produced (the inside of Some(..));
    none_ok: the None case of the source yields None."""
    def __init__(self, fn, T, payload, results, none_ok, form):
        self.fn, self.T, self.payload, self.results, self.none_ok, self.form = fn, T, payload, results, none_ok, form


def option_body(prog, fn, T, term, src_pred):
    """Analyse `term` (an Option computed from the Option satisfying src_pred).  Returns OptBody or None if not recognised."""
    t = term
    NONE = ("agg", ("adt", "std::option::Option", "None"), ())
    if t[0] == "call" and t[1] in ("std::option::Option::<T>::map", "std::option::Option::<T>::and_then") and len(t[2]) == 2 and src_pred(M.noref(t[2][0])):
        cl = t[2][1]
        if cl[0] == "agg" and cl[1][0] == "closure" and cl[1][1] in prog.fns:
            cf = prog.fns[cl[1][1]]
            Tf = M.Terms(cf)
            payload = ("param", 2, cf.local_name(2))
            res = []
            for bb in cf.live_blocks():
                for s in cf.blocks[bb]["stmts"]:
                    if s["k"] == "assign" and s["p"]["l"] == 0 and not s["p"]["proj"]:
                        res.append((bb, Tf.rvalue(s["r"])))
                tt = cf.blocks[bb]["term"]
                if tt["k"] == "call" and not tt["dest"]["proj"] and tt["dest"]["l"] == 0:
                    res.append((bb, ("call", M.callee_str(tt["f"]), tuple(Tf.operand(a) for a in tt["args"]), bb)))
            # values that are mere copies of a local assigned elsewhere are resolved by Terms already
            return OptBody(cf, Tf, payload, res, True, "map" if t[1].endswith("::map") else "and_then")
        return None
    al = M.alts(t)
    somes = [a for a in al if a[0] == "agg" and a[1][:3] == ("adt", "std::option::Option", "Some")]
    nones = [a for a in al if a == NONE]
    others = [a for a in al if a not in somes and a not in nones]
    if somes and not others:
        # match form: the payload of the source appears as (src as Some).0
        pay = None
        def find(u):
            nonlocal pay
            if u[0] == "field" and u[2] == "0" and u[1][0] == "downcast" and u[1][2] == "Some" and src_pred(M.noref(u[1][1])):
                pay = u
                return True
            return False
        for a in somes:
            M.contains(a, find)
        res = []
        for a in somes:
            # the block where this Some(..) is built
            for bb in fn.live_blocks():
                for s in fn.blocks[bb]["stmts"]:
                    if s["k"] == "assign" and s["r"]["k"] == "agg" and s["r"].get("adt") == "std::option::Option" and s["r"]["variant"] == "Some" and T.rvalue(s["r"]) == a:
                        res.append((bb, a[2][0]))
        return OptBody(fn, T, pay, res, bool(nones), "match")
    if others and not somes:
        # checked_add-style: the alternatives are themselves Option-valued calls on the payload
        pay = None
        def find(u):
            nonlocal pay
            if u[0] == "field" and u[2] == "0" and u[1][0] == "downcast" and u[1][2] == "Some" and src_pred(M.noref(u[1][1])):
                pay = u
                return True
            return False
        for a in others:
            M.contains(a, find)
        if pay is not None:
            return OptBody(fn, T, pay, [(a[3] if a[0] == "call" and len(a) > 3 else None, a) for a in others], bool(nones), "match-opt")
    return None


def builder_result_fields(fn, adt):
    """For a by-value builder method `fn(self, ..) -> Self`: the value each field of the returned object gets, whichever way it is
    written — `self.f = v; self` (stores into the receiver) or `Adt { f: v, ..self }` (a fresh aggregate).  Returns
    {field: term} for the fields that differ from the receiver's, plus the set of fields carried over unchanged; None if the
    function does not have either shape."""
    T = M.Terms(fn)
    selfp = ("param", 1, fn.local_name(1))
    changed, kept = {}, set()
    ags = [(bb, si, r) for (bb, si, r) in aggregates_of(fn, adt)]
    if ags:
        if len(ags) != 1:
            return None
        r = ags[0][2]
        for n, o in zip(r["fields"], r["ops"]):
            v = T.operand(o)
            if M.noref(v) == ("field", selfp, n):
                kept.add(n)
            else:
                changed[n] = v
        return changed, kept
    # store form
    owner_fields = set()
    for bb in sorted(fn.live_blocks()):
        for s in fn.blocks[bb]["stmts"]:
            if s["k"] == "assign" and s["p"]["l"] == 1 and s["p"]["proj"] and s["p"]["proj"][0]["k"] == "field" and s["p"]["proj"][0].get("of") == adt and len(s["p"]["proj"]) == 1:
                n = s["p"]["proj"][0]["name"]
                if n in changed:
                    return None
                changed[n] = T.rvalue(s["r"])
    r0 = T.local(0)
    if M.noref(r0) != selfp and not (r0[0] == "param" and r0[1] == 1):
        # returned value must be the receiver
        rets = [s["r"] for bb in fn.live_blocks() for s in fn.blocks[bb]["stmts"] if s["k"] == "assign" and s["p"]["l"] == 0 and not s["p"]["proj"]]
        if not (len(rets) == 1 and rets[0]["k"] == "use" and rets[0]["op"]["k"] in ("move", "copy") and rets[0]["op"]["p"]["l"] == 1 and not rets[0]["op"]["p"]["proj"]):
            return None
    return changed, None
