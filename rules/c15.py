"""C15 — program lookup follows PATH order and never runs something else."""
import mirlib as M
from common import *

SPEC = {
    "explanation": (
        "Static decision on the resolved MIR of prep_exec / PrepExec::{exec, assemble_exe, libc_exec} / split_path: "
        "(a) variant analysis of every Result that can reach exec()'s return shows the routine can only report Err — "
        "in particular on the path where the PATH iterator yields nothing (a loop that may run zero times must not "
        "start from Ok); (b) a search happens only on the false edge of `any(byte == '/')` over the command name and "
        "only for a non-empty PATH, and the non-search branch execs the name alone; (c) each candidate is exactly "
        "[dir, \"/\", cmd] + NUL with dir the loop item of split_path(search_path) iterated directly, assembled in "
        "slice order into a truncated buffer; (d) the loop has no exit other than iterator exhaustion (and the "
        "assertion), so missing / non-executable candidates are skipped and the last error is returned; (e) the "
        "tokeniser splits at ':' with piece = [..pos], rest = [pos+1..] of the same pos and never yields an empty "
        "piece; (f) the executable override and argv[0] share this routine (C06)."
        " The has-a-slash test is recognised as any(b == b'/') or contains(&b'/') over the bytes of the command (closures taken from the call, not by number)."
    ),
    "not_decided": "split_path's tokenisation as a function of its input (value level; the repository's unit test samples it); kernel execve semantics.",
    "trusted_base": ["rustc MIR", "execve only returns on failure", "Iterator::position/any, slice indexing (std)", "mirlib provenance, dominance, SCC"],
    "assumptions": [],
}


def result_variant_set(prog, fn, memo=None, depth=0):
    """variants {Ok, Err} a crate fn returning Result can produce, by flow-insensitive def chasing"""
    memo = memo if memo is not None else {}
    if fn.path in memo:
        return memo[fn.path]
    memo[fn.path] = set()  # recursion guard
    out = set()
    seen = set()

    def of_local(l):
        if l in seen:
            return
        seen.add(l)
        for (bb, si, r) in fn.defs().get(l, []):
            if bb not in fn.live_blocks():
                continue
            k = r["k"]
            if k == "agg" and r.get("adt") == "std::result::Result":
                out.add(r["variant"])
            elif k == "use" and r["op"]["k"] in ("copy", "move") and not r["op"]["p"]["proj"]:
                of_local(r["op"]["p"]["l"])
            elif k == "call":
                nm = M.callee_str(r["t"]["f"])
                if "FromResidual" in nm:
                    out.add("Err")
                elif nm in prog.fns and depth < 6:
                    out.update(result_variant_set(prog, prog.fns[nm], memo, depth + 1))
                else:
                    out.add("?" + nm)
            elif k == "partial":
                continue
            else:
                out.add("?" + k)
    of_local(0)
    memo[fn.path] = out
    return out


def run(ctx):
    prog = ctx.prog
    ex = prog.one("posix::PrepExec::exec")
    le = prog.one("posix::PrepExec::libc_exec")
    ae = prog.one("posix::PrepExec::assemble_exe")
    pe = prog.one("posix::prep_exec")
    T = M.Terms(ex)
    selfp = ("param", 1, ex.local_name(1))

    # ---- R15.1 exec can only fail -------------------------------------------------
    memo = {}
    vs = result_variant_set(prog, le, memo)
    ctx.ob("R15.1", "libc_exec.only-Err", vs == {"Err"}, le.loc(0), "libc_exec can return %s (must be Err only: exec returns only on failure)" % sorted(vs))
    okl = all(dominated_by_blocks(le, r, [bb for bb, _ in le.calls_to(lambda f: M.callee_str(f) == "std::io::Error::last_os_error")]) for r in le.return_blocks())
    ctx.ob("R15.1", "libc_exec.reports-errno", okl, le.loc(0), "libc_exec returns Err(last_os_error()) on every path")
    vs = result_variant_set(prog, ex, memo)
    ctx.ob("R15.1", "exec.only-Err", vs == {"Err"}, ex.loc(0),
           "PrepExec::exec can return %s: it must never report success — a PATH made only of empty entries (\"::\") makes the search loop run zero times, "
           "and an initial Ok(()) is then returned although nothing was executed (the caller treats Ok as 'image replaced')" % sorted(vs))

    # ---- R15.2 when a search happens --------------------------------------------------
    Tp = M.Terms(pe)
    # the 'has a slash' test: bytes(cmd).iter().any(|b| b == b'/')  or  bytes(cmd).contains(&b'/') — the closure is taken from the call, not by number
    BYTES = ("core::slice::<impl [T]>::iter", "<std::ffi::OsStr as std::borrow::ToOwned>::to_owned", "std::ffi::OsString::as_os_str")
    def _is_slash_pred(cl):
        if not (cl[0] == "agg" and cl[1][0] == "closure"):
            return False
        cf = prog.fn(cl[1][1])
        if cf is None:
            return False
        r = M.Terms(cf).local(0)
        return r[0] == "bin" and r[1] == "Eq" and const_of(r[3]) == 0x2F and M.strip(r[2])[0] == "param"
    slash_tests = []   # (bb, source term, matcher for the bool result)
    for bb_, t_ in pe.calls():
        cs_ = M.callee_str(t_["f"])
        a_ = [Tp.operand(x) for x in t_["args"]]
        if cs_.endswith("Iterator>::any") and len(a_) == 2 and _is_slash_pred(a_[1]):
            slash_tests.append((bb_, a_[0], cs_))
        elif cs_.endswith("<impl [T]>::contains") and len(a_) == 2 and const_of(M.noref(a_[1])) == 0x2F:
            slash_tests.append((bb_, a_[0], cs_))
    ctx.ob("R15.2", "slash-predicate", len(slash_tests) == 1, pe.loc(slash_tests[0][0]) if slash_tests else pe.loc(0),
           "prep_exec must decide 'has a slash' by exactly one test of the form any(byte == b'/') / contains(&b'/') (found %d)" % len(slash_tests))
    ok = False
    st_name = "Iterator>::any"
    if len(slash_tests) == 1:
        src = M.noref(M.strip(slash_tests[0][1], also=BYTES))
        ok = M.noref(M.strip(src, also=BYTES)) == ("param", 1, pe.local_name(1))
        st_name = slash_tests[0][2]
    st_bb = slash_tests[0][0] if slash_tests else None
    ctx.ob("R15.2", "slash-test-over-cmd", ok, pe.loc(st_bb or 0), "the slash test must run over the bytes of the command name (the executable when one is named), not over argv[0] or anything else")
    is_st = lambda c: c[0] == "call" and c[1] == st_name and (len(c) < 4 or c[3] == st_bb)
    # what PrepExec::new receives as search_path, decided by evaluating prep_exec under each answer of its own tests (whichever way the
    # selection is spelled: if/else, match, and_then, filter, early return ...)
    pn_calls = pe.calls_to(lambda f: M.callee_str(f) == "posix::PrepExec::new")
    NONE = ("agg", ("adt", "std::option::Option", "None"), ())
    is_varos = lambda u: u[0] == "call" and u[1] == "std::env::var_os" and M.noref(u[2][0])[0] == "const" and M.noref(u[2][0])[1] == "PATH"
    def is_path_payload(u):
        u = M.noref(u)
        return u[0] == "field" and u[2] == "0" and u[1][0] == "downcast" and u[1][2] == "Some" and is_varos(M.noref(u[1][1]))
    is_some_path = lambda a_: a_[0] == "agg" and a_[1][:3] == ("adt", "std::option::Option", "Some") and is_path_payload(a_[2][0])
    def sp_under(assume):
        """alternatives of the search_path argument under the given answers: assume maps a recogniser to a value"""
        def af(t_):
            if not t_:
                return None
            for pred_, val_ in assume:
                if pred_(M.noref(t_)) or pred_(t_):
                    return val_
            return None
        E_ = M.Explore(pe, assume_fn=af)
        if not pn_calls or pn_calls[0][0] not in E_.blocks:
            return None
        return set(M.alts(M.Terms(pe, blocks=E_.blocks).operand(pn_calls[0][1]["args"][3])))
    is_len_of_path = lambda c: c[0] == "call" and c[1].endswith("::len") and is_path_payload(M.peel(M.strip(c[2][0]))) or \
        (c[0] == "call" and c[1].endswith("::len") and M.contains(c[2][0], is_path_payload) and not M.contains(c[2][0], lambda u: u[0] == "call" and u[1] not in
                                                                                                            ("std::ffi::OsString::as_os_str", "<std::ffi::OsString as std::ops::Deref>::deref") and not is_varos(u)))
    is_empty_of_path = lambda c: c[0] == "call" and c[1].endswith("::is_empty") and M.contains(c[2][0], is_path_payload)
    ctx.ob("R15.2", "search_path.site", len(pn_calls) == 1, pe.loc(0), "prep_exec builds its PrepExec in one place (found %d)" % len(pn_calls))
    if len(pn_calls) == 1 and len(slash_tests) == 1:
        with_slash = sp_under([(is_st, 1)])
        ctx.ob("R15.2", "slash=>no-search", with_slash == {NONE}, pe.loc(pn_calls[0][0]), "a name containing a slash is never searched for: search_path must be None then (found %s)"
               % ([M.term_str(x)[:60] for x in with_slash] if with_slash is not None else "PrepExec::new not reached"))
        no_slash = sp_under([(is_st, 0)])
        okv = no_slash is not None and any(is_some_path(a_) for a_ in no_slash) and all(a_ == NONE or is_some_path(a_) for a_ in no_slash)
        ctx.ob("R15.2", "no-slash=>PATH", okv, pe.loc(pn_calls[0][0]), "without a slash search_path is the value of var_os(\"PATH\"), or None (found %s)"
               % ([M.term_str(x)[:80] for x in no_slash] if no_slash is not None else "PrepExec::new not reached"))
        empty = sp_under([(is_st, 0), (is_varos, 1), (is_len_of_path, 0), (is_empty_of_path, 1)])
        filled = sp_under([(is_st, 0), (is_varos, 1), (is_len_of_path, 1), (is_empty_of_path, 0)])
        unset = sp_under([(is_st, 0), (is_varos, 0)])
        okc1 = empty == {NONE} and filled is not None and len(filled) == 1 and is_some_path(next(iter(filled))) and unset == {NONE}
        ctx.ob("R15.2", "empty-PATH=>no-search", okc1, pe.loc(pn_calls[0][0]),
               "an empty PATH is treated as absent, a non-empty one is searched, an unset one is not (empty: %s, non-empty: %s, unset: %s)"
               % tuple([M.term_str(x)[:50] for x in v_] if v_ is not None else None for v_ in (empty, filled, unset)))
    # exec(): the two branches are selected by self.search_path
    SPV = ("std::option::Option::<T>::as_deref", "std::option::Option::<T>::as_ref", "<std::ffi::OsString as std::ops::Deref>::deref")
    is_sp = lambda t: M.noref(t) == ("field", selfp, "search_path") or M.noref(M.strip(t, also=SPV)) == ("field", selfp, "search_path")
    some_e = variant_edges(ex, T, is_sp, 1, [0, 1], "std::option::Option<")
    none_e = variant_edges(ex, T, is_sp, 0, [0, 1], "std::option::Option<")
    asm = ex.calls_to(lambda f: M.callee_str(f) == ae.path)
    ctx.floor("R15.3", "assemble_exe call sites", len(asm), 2)
    loops = M.sccs(ex)
    loop = loops[0] if len(loops) == 1 else set()
    ctx.ob("R15.3", "one-search-loop", len(loops) == 1, ex.loc(0), "exec has one PATH loop (found %d)" % len(loops))
    nxt = [(bb, t) for bb, t in ex.calls(loop) if M.callee_str(t["f"]).endswith("as std::iter::Iterator>::next")]
    item = None
    if len(nxt) == 1:
        item = ("call", M.callee_str(nxt[0][1]["f"]), tuple(T.operand(a) for a in nxt[0][1]["args"]), nxt[0][0])
        it = M.noref(item[2][0])
        names = []
        x = it
        while x[0] == "call" and x[1] != "posix::split_path":
            names.append(x[1].split("::")[-1])
            x = M.noref(x[2][0]) if x[2] else ("none",)
        src = M.noref(M.strip(x[2][0])) if x[0] == "call" and x[2] else None
        okit = x[0] == "call" and x[1] == "posix::split_path" and all(n == "into_iter" for n in names) and M.strip(src) == ("field", selfp, "search_path")
        ctx.ob("R15.3", "iterate-split_path(search_path)-in-order", okit, ex.loc(nxt[0][0]), "the loop iterates %s over %s (must be split_path(self.search_path) directly, no reordering adaptor)" % (names, M.term_str(src) if src else None))
    else:
        ctx.ob("R15.3", "loop-driver", False, ex.loc(0), "the PATH loop must be driven by one Iterator::next")
    cmd_bytes = lambda t: M.noref(M.strip(t, also=("<std::ffi::OsStr as std::os::unix::ffi::OsStrExt>::as_bytes", "<std::ffi::OsString as std::ops::Deref>::deref", "std::ffi::OsString::as_os_str"))) == ("field", selfp, "cmd")
    for bb, t in asm:
        a = [T.operand(x) for x in t["args"]]
        comps = M.noref(a[1])
        while comps[0] == "cast":
            comps = comps[2]
        sto = M.noref(M.strip(a[0]))
        sto_ok = sto[0] == "call" and sto[1] == "std::mem::take" and M.noref(sto[2][0]) == ("field", selfp, "prealloc_exe")
        if bb in loop:
            ok = comps[0] == "agg" and comps[1] == "array" and len(comps[2]) == 3
            if ok:
                d, s, c = comps[2]
                dterm = M.strip(d, also=("<std::ffi::OsStr as std::os::unix::ffi::OsStrExt>::as_bytes",))
                ok_d = item is not None and M.noref(dterm) == M.noref(("field", ("downcast", item, "Some"), "0")) or (item is not None and M.noref(dterm) == M.noref(item))
                s2 = s
                while s2[0] == "cast":
                    s2 = s2[2]
                ok_s = s2[0] == "const" and s2[1] == b"/"
                ok = ok_d and ok_s and cmd_bytes(c)
            ctx.ob("R15.3", "candidate=[dir,'/',cmd]", ok and dominated_by_edges(ex, bb, some_e), ex.loc(bb), "search candidate components = %s (must be [dir, b\"/\", self.cmd] with dir the loop item)" % M.term_str(comps)[:200])
        else:
            ok = comps[0] == "agg" and comps[1] == "array" and len(comps[2]) == 1 and cmd_bytes(comps[2][0])
            ctx.ob("R15.3", "no-search=[cmd]", ok and dominated_by_edges(ex, bb, none_e), ex.loc(bb), "without search the program path is the name as given: components = %s" % M.term_str(comps)[:120])
        ctx.ob("R15.3", "assemble-into-prealloc@%s" % ("loop" if bb in loop else "direct"), sto_ok, ex.loc(bb), "assembly buffer = %s (must be mem::take(&mut self.prealloc_exe))" % M.term_str(a[0])[:100])
    for bb, t in ex.calls_to(lambda f: M.callee_str(f) == le.path):
        a = [T.operand(x) for x in t["args"]]
        b1 = M.noref(a[1])
        ctx.ob("R15.3", "exec-what-was-assembled@%s" % ("loop" if bb in loop else "direct"), b1[0] == "call" and b1[1] == ae.path and M.noref(a[0]) == selfp, ex.loc(bb), "libc_exec runs the buffer just assembled")
    # assemble_exe: truncate, append in order, NUL last
    Ta = M.Terms(ae)
    sto = ("param", 1, ae.local_name(1))
    tr = ae.calls_to(lambda f: M.callee_str(f) in ("std::vec::Vec::<T, A>::truncate", "std::vec::Vec::<T, A>::clear"))
    al = M.sccs(ae)
    aloop = al[0] if len(al) == 1 else set()
    ext = ae.calls_to(lambda f: M.callee_str(f) == "std::vec::Vec::<T, A>::extend_from_slice")
    pu = ae.calls_to(lambda f: M.callee_str(f) == "std::vec::Vec::<T, A>::push")
    ok = len(tr) == 1 and (M.callee_str(tr[0][1]["f"]).endswith("::clear") or const_of(Ta.operand(tr[0][1]["args"][1])) == 0) and M.noref(Ta.operand(tr[0][1]["args"][0])) == sto and tr[0][0] not in aloop
    ok = ok and len(ext) == 1 and ext[0][0] in aloop and all(dominated_by_blocks(ae, b, [tr[0][0]]) for b, _ in ext)
    ctx.ob("R15.3", "assemble.truncate-then-append", ok, ae.loc(0), "assemble_exe must clear the buffer first and append every component inside one loop")
    if len(ext) == 1:
        a = [Ta.operand(x) for x in ext[0][1]["args"]]
        src = M.noref(a[1])
        anx = [(bb, t) for bb, t in ae.calls(aloop) if M.callee_str(t["f"]).endswith("as std::iter::Iterator>::next")]
        okx = len(anx) == 1
        if okx:
            itx = M.noref(Ta.operand(anx[0][1]["args"][0]))
            # the slice itself, front to back: into_iter(components) or components.iter()
            okx = itx[0] == "call" and (itx[1].endswith("into_iter") or itx[1].endswith("<impl [T]>::iter")) and M.noref(itx[2][0]) == ("param", 2, ae.local_name(2))
            aitem = ("call", M.callee_str(anx[0][1]["f"]), tuple(Ta.operand(x) for x in anx[0][1]["args"]), anx[0][0])
            okx = okx and src == M.noref(("field", ("downcast", aitem, "Some"), "0")) and M.noref(a[0]) == sto
        ctx.ob("R15.3", "assemble.components-in-slice-order", okx, ae.loc(ext[0][0]), "each component of the slice is appended, in order, to the storage")
    okn = len(pu) == 1 and const_of(Ta.operand(pu[0][1]["args"][1])) == 0 and pu[0][0] not in aloop and M.noref(Ta.operand(pu[0][1]["args"][0])) == sto \
        and all(dominated_by_blocks(ae, r, [pu[0][0]]) for r in ae.return_blocks())
    ctx.ob("R15.3", "assemble.nul-terminated", okn, ae.loc(pu[0][0] if pu else 0), "a single NUL is pushed after the loop on every path to return")
    r0 = M.noref(Ta.local(0))
    whole = (r0[0] == "call" and r0[1] == "std::vec::Vec::<T, A>::as_slice" and r0[2][0] == sto) or \
        (r0[0] == "call" and "index" in r0[1].lower() and M.noref(r0[2][0]) == sto and r0[2][1][0] in ("agg", "const") and "RangeFull" in M.term_str(r0[2][1])) or \
        (r0[0] == "call" and r0[1].endswith("Deref>::deref") and M.noref(r0[2][0]) == sto)
    ctx.ob("R15.3", "assemble.returns-storage", whole, ae.loc(0), "assemble_exe returns the storage's contents (whole): %s" % M.term_str(r0)[:100])

    # ---- R15.4 the loop only ends when PATH is exhausted --------------------------------
    if loop and len(nxt) == 1:
        exits = []
        for b in sorted(loop):
            for s in ex.succs(b):
                if s not in loop and ex.blocks[s]["term"]["k"] != "unreachable":
                    exits.append((b, s))
        bad = []
        for (b, s) in exits:
            t = ex.blocks[b]["term"]
            none_edge = False
            r = M.switch_operand_def(ex, b)
            if t["k"] == "switch" and r is not None and r["k"] == "discr" and T.place(r["p"]) == item and M.switch_target(t, 0) == s:
                none_edge = True
            leads_to_panic = ex.blocks[s]["term"]["k"] == "call" and is_panic_call(ex.blocks[s]["term"])
            if not (none_edge or leads_to_panic):
                bad.append((b, s))
        ctx.ob("R15.4", "loop-exits-only-on-exhaustion", not bad and bool(exits), ex.loc(nxt[0][0]),
               "the PATH loop may be left only when the iterator is exhausted (or by the assertion): other exits %s would stop at the first missing / non-executable candidate" % bad)

    # ---- R15.5 the tokeniser ---------------------------------------------------------------
    sp = prog.one("posix::split_path")
    sc = prog.fn("posix::split_path::{closure#0}")
    pc = prog.fn("posix::split_path::{closure#0}::{closure#0}")
    okp = False
    if pc:
        r = M.Terms(pc).local(0)
        okp = r[0] == "bin" and r[1] == "Eq" and const_of(r[3]) == 0x3A
    ctx.ob("R15.5", "separator=':'", okp, pc.loc(0) if pc else "", "the separator predicate must be `byte == b':'`")
    if sc:
        Ts = M.Terms(sc)
        pos_calls = sc.calls_to(lambda f: M.callee_str(f).endswith("Iterator>::position"))
        ok = len(pos_calls) == 1
        if ok:
            posterm = ("field", ("downcast", ("call", M.callee_str(pos_calls[0][1]["f"]), tuple(Ts.operand(a) for a in pos_calls[0][1]["args"]), pos_calls[0][0]), "Some"), "0")
            idx = sc.calls_to(lambda f: "Index" in M.callee_str(f) and "index" in M.callee_str(f))
            rt = [Ts.operand(t["args"][1]) for _, t in idx]
            to = [x for x in rt if x[0] == "agg" and x[1][1] == "std::ops::RangeTo"]
            fr = [x for x in rt if x[0] == "agg" and x[1][1] == "std::ops::RangeFrom"]
            def is_pos1(st):
                st = st[1] if st[0] == "field" else st
                return st[0] == "bin" and st[1] in ("Add", "AddWithOverflow") and st[2] == posterm and const_of(st[3]) == 1
            is_len = lambda st: st[0] == "call" and st[1].endswith("<impl [T]>::len")
            # one cut before the separator, one after it; a further [len..] (the empty remainder of the last piece) is harmless
            ok = len([x for x in to if x[2][0] == posterm]) == 1 and len(to) == 1 and len([x for x in fr if is_pos1(x[2][0])]) == 1 \
                and all(is_pos1(x[2][0]) or is_len(M.noref(x[2][0])) for x in fr)
        ctx.ob("R15.5", "piece=[..pos],rest=[pos+1..]", ok, sc.loc(0), "the piece is bytes[..pos] and the remainder bytes[pos+1..] for the same pos returned by position()")
        somes = [(bb, si, s) for bb in sc.live_blocks() for si, s in enumerate(sc.blocks[bb]["stmts"]) if s["k"] == "assign" and s["p"]["l"] == 0 and s["r"].get("variant") == "Some"]
        ne = bool_edges(sc, Ts, lambda c: c[0] == "call" and (c[1] == "std::ffi::OsStr::is_empty" or c[1].endswith("<impl [T]>::is_empty")), False) + \
            bool_edges(sc, Ts, lambda c: c[0] == "bin" and c[1] == "Ne" and const_of(c[3]) == 0 and M.contains(c[2], lambda u: u[0] == "call" and u[1].endswith("::len")), True)
        ok = len(somes) >= 1 and all(dominated_by_edges(sc, bb, ne) for bb, _, _ in somes)
        ctx.ob("R15.5", "no-empty-piece", ok, sc.loc(0), "every Some(piece) must be returned under `!piece.is_empty()` (both exits of the tokeniser)")
        # ... and the other direction (completeness): a piece that is not empty is handed out -- with every emptiness test answering
        # 'not empty' the tokeniser cannot return None (a mutant that turned `return Some(piece)` into `return None` dropped PATH entries)
        def af_ne(t_):
            if not t_:
                return None
            n_ = M.noref(t_)
            if n_[0] == "call" and (n_[1] == "std::ffi::OsStr::is_empty" or n_[1].endswith("<impl [T]>::is_empty")):
                return 0
            return None
        Ene = M.Explore(sc, assume_fn=af_ne)
        nones = [bb for bb in Ene.blocks for s_ in sc.blocks[bb]["stmts"] if s_["k"] == "assign" and s_["p"]["l"] == 0 and not s_["p"]["proj"] and s_["r"].get("variant") == "None"]
        has_test = any(M.callee_str(t_["f"]) == "std::ffi::OsStr::is_empty" or M.callee_str(t_["f"]).endswith("<impl [T]>::is_empty") for _, t_ in sc.calls())
        ctx.ob("R15.5", "non-empty-piece-is-returned", has_test and not nones, sc.loc(nones[0] if nones else 0),
               "with every piece non-empty the tokeniser must not answer None (None returns reachable: %s)" % nones)
    else:
        ctx.missing("R15.5", "split_path closure")
    r0 = M.Terms(sp).local(0)
    ctx.ob("R15.5", "split_path=from_fn(tokeniser)", r0[0] == "call" and r0[1] == "std::iter::from_fn" and r0[2][0][0] == "agg" and r0[2][0][1] == ("closure", "posix::split_path::{closure#0}") and len(r0[2][0][2]) == 1 and
           M.noref(M.strip(r0[2][0][2][0], also=("<std::ffi::OsStr as std::os::unix::ffi::OsStrExt>::as_bytes", "std::ffi::OsStr::as_encoded_bytes"))) == ("param", 1, sp.local_name(1)), sp.loc(0), "split_path(path) = from_fn(tokeniser over path)")
