"""C14 — a pipeline failing to start part-way cleans up and returns promptly."""
import mirlib as M
from common import *
from c12 import releases

SPEC = {
    "explanation": (
        "Static decision on the resolved MIR: (a) from the error edge of the `Exec::popen(..)?` inside the spawn loop no "
        "path reaches another spawn — the loop is left at once — and the path to return passes the drop of the "
        "Vec<Popen> built so far (ownership: every started stage is dropped, hence waited unless detached, C12; every "
        "descriptor of the attempt is closed by RAII, C07); (b) that wait cannot block on the handle's own pipe: "
        "<Popen as Drop>::drop releases self.stdin before wait on every path (the first stage of a pipeline with a "
        "piped stdin waits for EOF on exactly that pipe); the chain drop(Vec<Popen>) -> Popen::drop -> wait is "
        "shown; (c) every way of running a pipeline (popen, join, capture, communicate, stream_stdout, stream_stdin) "
        "goes through this one loop, and setup_communicate takes v[0].stdin out only after popen()? succeeded, so on "
        "failure the pipe is still inside ret[0] where (b) applies; (d) the error returned is the failing stage's "
        "own (the `?` residual of that very call)."
        " (e) R14.5: no function waits for started children (drops their Popens, or calls a function that does) while its frame still holds the read end of a pipe those children write to — liveness follows the MIR drop flags; this reported D12 on the pinned tree (setup_communicate held err_read across a waiting popen())."
    ),
    "not_decided": "promptness as a time bound; whether an already started stage exits on EOF (child behaviour).",
    "trusted_base": ["rustc MIR and drop elaboration", "closing the write end delivers EOF", "mirlib dominance-by-removal, provenance, call graph"],
    "assumptions": [],
}

PPUB = "builder::pipeline::Pipeline::popen"
PP = PPUB


import re
_POPEN_TY = re.compile(r"popen::Popen(?![A-Za-z])")


def is_popen_drop(fn, bb):
    """block bb drops (and thereby waits for, unless detached) a value holding started Popens: a drop terminator on a place of such a
    type, or a call of mem::drop on one"""
    t = fn.blocks[bb]["term"]
    if fn.blocks[bb].get("cleanup"):
        return False
    if t["k"] == "drop" and not t["p"]["proj"]:
        return bool(_POPEN_TY.search(fn.locals[t["p"]["l"]]["ty"]))
    if t["k"] == "call" and M.callee_str(t["f"]) == "std::mem::drop" and t["args"] and t["args"][0]["k"] in ("move", "copy") and not t["args"][0]["p"]["proj"]:
        return bool(_POPEN_TY.search(fn.locals[t["args"][0]["p"]["l"]]["ty"]))
    return False


def run(ctx):
    global PP
    prog = ctx.prog
    PP = pipeline_spawner(prog) or PPUB     # the function holding the spawn loop: Pipeline::popen itself or a helper it delegates to
    pp = prog.one(PP)
    T = M.Terms(pp)
    loops = M.sccs(pp)
    loop = loops[0] if len(loops) == 1 else set()
    spawns = [(bb, t) for bb, t in pp.calls() if M.callee_str(t["f"]) in ("builder::exec::Exec::popen", "popen::Popen::create")]
    ctx.floor("R14.1", "spawn sites in Pipeline::popen", len(spawns), 1)
    # ---- R14.1 failure leaves immediately and drops what was started --------------------
    ret_slot = None
    for bb, t in pp.calls(loop):
        if M.callee_str(t["f"]) == "std::vec::Vec::<T, A>::push":
            ret_slot = T.addr(t["args"][0])
    def spawn_err_edges(bb):
        """edges taken when the spawn at bb failed: the Break edge of `?`, or the Err arm of an explicit match on its result"""
        return sorted(set(try_err_edges(pp, T, lambda c: c[3] == bb)))

    for bb, t in spawns:
        err_e = spawn_err_edges(bb)
        ctx.ob("R14.1", "spawn-error-edge", len(err_e) == 1, pp.loc(bb), "the failure of the spawn is handled on one error edge (`?` or an explicit match): %s" % err_e)
        for e in err_e:
            after = pp.reachable(e[1])
            again = [b for b, _ in spawns if b in after]
            ctx.ob("R14.1", "no-spawn-after-failure", not again, pp.loc(bb), "after a stage fails to start no further stage may be started (spawn blocks reachable from the error edge: %s)" % again)
            ctx.ob("R14.1", "failure-leaves-loop", not (after & loop), pp.loc(bb), "the error edge must leave the spawn loop (loop blocks still reachable: %s)" % sorted(after & loop))
            # the Vec<Popen> built so far is dropped as a whole (first stage first) on the way out
            drops = [b for b in after if pp.blocks[b]["term"]["k"] == "drop" and ret_slot is not None and not pp.blocks[b]["term"]["p"]["proj"]
                     and pp.blocks[b]["term"]["p"]["l"] == ret_slot[1][1]]
            rets = [b for b in pp.return_blocks() if b in after]
            ok = bool(drops) and bool(rets) and all(dominated_by_blocks(pp, r, drops, start=e[1]) for r in rets)
            handed = False
            if not ok and ret_slot is not None:
                # alternative: the vector is handed, whole, to the caller inside the error value — then every caller drops it on its error path
                Tx = M.Terms(pp, blocks=after)
                moved = [(b2, si2, r2) for (b2, si2, v2, r2) in result_variants(pp, M.Explore(pp, start=e[1])) if v2 == "Err"
                         and M.contains(Tx.operand(r2["ops"][0]), lambda u: u == ("local", ret_slot[1][1]) or (u[0] in ("local", "var") and len(u) > 1 and u[1] == ret_slot[1][1]))]
                handed = bool(moved) and not drops
                if handed:
                    ok = True
                    for cf, cbb, ct in callers_of(prog, pp.path):
                        Tc = M.Terms(cf)
                        cerr = try_err_edges(cf, Tc, lambda c: c[3] == cbb) + variant_edges(cf, Tc, lambda t_: t_[0] == "call" and t_[3] == cbb, 1, [0, 1], "std::result::Result<")
                        # the drop-flag epilogue re-tests the same discriminant: keep the first test only
                        cerr = [e_ for e_ in cerr if not any(e_[0] in cf.reachable(o_[1]) for o_ in cerr if o_ != e_)]
                        okc = bool(cerr)
                        if not cerr:
                            # the result goes straight into map_err(|(err, started)| ..): the closure is where the started commands are dropped
                            for mb, mt in cf.calls_to(lambda f_: M.callee_str(f_) == "std::result::Result::<T, E>::map_err"):
                                a0, a1 = Tc.operand(mt["args"][0]), Tc.operand(mt["args"][1])
                                if a0[0] == "call" and a0[3] == cbb and a1[0] == "agg" and a1[1][0] == "closure" and a1[1][1] in prog.fns:
                                    g = prog.fns[a1[1][1]]
                                    dr = [b for b in g.live_blocks() if is_popen_drop(g, b)]
                                    okc = bool(dr) and all(dominated_by_blocks(g, r, dr) for r in g.return_blocks())
                        for ce in cerr:
                            aft = cf.reachable(ce[1])
                            dr = [b for b in aft if is_popen_drop(cf, b)]
                            rr = [b for b in cf.return_blocks() if b in aft]
                            okc = okc and bool(dr) and bool(rr) and all(dominated_by_blocks(cf, r, dr, start=ce[1]) for r in rr)
                        ctx.ob("R14.1", "caller-drops-started-stages@%s" % cf.path.split("::")[-1], okc, cf.loc(cbb),
                               "%s receives the already started Popens with the error and must drop (wait for) them before it returns the error" % cf.path)
            ctx.ob("R14.1", "failure-drops-started-stages", ok, pp.loc(bb), "on the error path the vector of already started Popens must be dropped before returning (drops at %s), or be handed whole to the caller with the error (%s)" % (drops, handed))
            # ... and not taken apart element by element: the first stage owns the pipeline's stdin pipe and must be
            # dropped (its stdin closed) before any later stage is waited for; Vec's own drop does first-to-last
            piecemeal = []
            for b2, t2 in pp.calls(after):
                if t2["args"] and T.addr(t2["args"][0]) == ret_slot:
                    piecemeal.append(M.callee_str(t2["f"]).split("::")[-1])
            ctx.ob("R14.1", "started-stages-dropped-first-to-last", not piecemeal, pp.loc(bb),
                   "on the error path the started stages must be dropped in start order (the Vec as a whole): operations %s on the vector reorder the drops, and a stage that "
                   "is waited for before the first stage's stdin pipe is closed never sees end-of-file" % piecemeal)
            # R14.4 the error is that stage's error
            errv = [(b2, si2, r2) for (b2, si2, v2, r2) in result_variants(pp, M.Explore(pp, start=e[1])) if v2 in ("Err", "from_residual")]
            ok = len(errv) >= 1
            for b2, si2, r2 in errv:
                a = T.operand(r2["args"][0]) if si2 == "term" else T.operand(r2["ops"][0])
                ok = ok and M.contains(a, lambda u: u[0] == "call" and u[3] == bb and u[1] == M.callee_str(t["f"]))
            ctx.ob("R14.4", "error-is-the-failing-stage's", ok, pp.loc(bb), "the Err returned carries the error of the failing Exec::popen call")
    # ---- R14.2 the wait in drop cannot block on the handle's own stdin --------------------
    pd = prog.one("<popen::Popen as std::ops::Drop>::drop")
    Td = M.Terms(pd)
    can_wait = {p for p in prog.fns if "posix::waitpid" in M.local_closure(prog, [p])}
    waits = [(bb, t) for bb, t in pd.calls() if M.callee_names(t["f"]) & can_wait]
    rel = [bb for bb, recv, f in releases(pd, Td) if f == "stdin" and recv == ("param", 1, pd.local_name(1))]
    ok = bool(waits) and all(dominated_by_blocks(pd, wb, rel) for wb, _ in waits)
    ctx.ob("R14.2", "Popen::drop.releases-stdin-before-wait", ok, pd.loc(waits[0][0] if waits else 0),
           "a pipeline whose k-th command fails drops the started Popens; the first one still owns the pipeline's stdin pipe, so Popen::drop must close "
           "self.stdin before wait() or `(cat | nosuch).stdin(Pipe).popen()` hangs forever (releases at %s)" % rel)
    ctx.ob("R14.2", "chain:drop(Vec<Popen>)->Popen::drop->wait", bool(waits) and "popen::Popen::wait" in M.local_closure(prog, [pd.path]), pd.loc(0), "Popen::drop reaches wait()")
    # ---- R14.3 every terminator goes through the loop; stdin is taken only after success ----
    for term in ("join", "capture", "communicate", "stream_stdout", "stream_stdin"):
        f = prog.fn("builder::pipeline::Pipeline::" + term)
        if f is None:
            ctx.missing("R14.3", "Pipeline::" + term)
            continue
        cl = M.local_closure(prog, [f.path])
        others = [p for p in cl if p.startswith("builder::pipeline") and p != PP and any(M.callee_str(t["f"]) in ("builder::exec::Exec::popen", "popen::Popen::create") for _, t in prog.fns[p].calls())]
        ctx.ob("R14.3", "%s-via-popen-only" % term, PP in cl and not others, f.loc(0), "Pipeline::%s must start stages only through Pipeline::popen (other spawn sites: %s)" % (term, others))
    sc = prog.one("builder::pipeline::Pipeline::setup_communicate")
    Ts = M.Terms(sc)
    oke = try_ok_edges(sc, Ts, lambda c: c[1] in (PP, PPUB)) + variant_edges(sc, Ts, lambda t_: t_[0] == "call" and t_[1] in (PP, PPUB), 0, [0, 1], "std::result::Result<")
    for bb, t in sc.calls_to(lambda f: M.callee_str(f) == "std::option::Option::<T>::take"):
        a = M.noref(Ts.operand(t["args"][0]))
        if a[0] == "field" and a[2] in ("stdin", "stdout"):
            ctx.ob("R14.3", "setup_communicate.take-%s-after-success" % a[2], dominated_by_edges(sc, bb, oke), sc.loc(bb), "the stage's %s is taken out only after the pipeline was started successfully" % a[2])

    # ---- R14.5 no wait for started children while this frame still holds the read end of a pipe they write to ----------------
    no_read_end_held_across_wait(ctx, prog, "R14.5", scope=lambda p: p.startswith("builder::pipeline"))


def no_read_end_held_across_wait(ctx, prog, rule, scope=lambda p: True):
    """no function waits for started children (drops their Popens, or calls a function that does) while its frame still holds the
    read end of a pipe those children write to: a child blocked writing more than a pipe-full to such a pipe never exits, and the
    wait never returns.  Held read ends: component 0 of a pipe made in the function, a stdout/stderr taken out of a started Popen,
    and any Communicator (it owns the read ends of the children it talks to)."""
    # (the wait for the already started stages happens wherever their Popens are dropped; a stage blocked writing more than a
    # pipe-full to a pipe whose only reader is a descriptor parked in a local of the waiting frame never exits)
    NOT_RUNNING = {"popen::Popen::create": "drops the handle it is constructing itself: Preparing, or Finished after the failed child was reaped (C07 R07.4)",
                   "<popen::Popen as std::ops::Drop>::drop": "the wait itself"}
    base = {p for p, f in prog.fns.items() if p not in NOT_RUNNING and any(is_popen_drop(f, b) for b in f.live_blocks())}
    waitfns = set(base)
    changed = True
    while changed:
        changed = False
        for p, f in prog.fns.items():
            if p in waitfns or p in NOT_RUNNING:
                continue
            if any(M.callee_names(t["f"]) & waitfns for _, t in f.calls()):
                waitfns.add(p)
                changed = True
    ctx.floor(rule, "functions that may wait for started children by dropping them", len(base), 1)
    PIPES = ("popen::os::make_pipe", "popen::make_pipe", "posix::pipe")
    nheld = 0
    for p, f in sorted(prog.fns.items()):
        if not scope(p):
            continue
        mk = [bb for bb, t in f.calls() if M.callee_str(t["f"]) in PIPES]
        tk = [bb for bb, t in f.calls() if M.callee_str(t["f"]) == "std::option::Option::<T>::take"]
        hasc = any("communicate::Communicator" in l_["ty"] and not l_["ty"].startswith("&") and l_.get("name") for l_ in f.locals[f.arg_count + 1:])
        if not mk and not tk and not hasc:
            continue
        Tf = M.Terms(f)
        read_ends = []
        def _taken_output(u):
            # x.stdout.take() / x.stderr.take() of a started Popen: the parent's read end of that child's output pipe
            if u[0] == "call" and u[1] == "std::option::Option::<T>::take" and u[2]:
                src_ = M.noref(u[2][0])
                return src_[0] == "field" and src_[2] in ("stdout", "stderr")
            return False
        for l in range(len(f.locals)):
            ty_ = f.locals[l]["ty"]
            if l <= f.arg_count or not ("std::fs::File" in ty_ or "popen::Redirection" in ty_ or "communicate::Communicator" in ty_):
                continue
            if "communicate::Communicator" in ty_ and not ty_.startswith("&") and f.locals[l].get("name"):
                read_ends.append(l)
                continue
            for a in M.alts(M.noref(Tf.local(l))):
                if "std::fs::File" == ty_ and a[0] == "field" and a[2] == "0":
                    b_ = M.strip(a[1])
                    if b_[0] == "call" and b_[1] in PIPES:
                        read_ends.append(l)
                if M.contains(a, _taken_output):
                    read_ends.append(l)
        read_ends = sorted(set(read_ends))
        if not read_ends:
            continue
        wps = [bb for bb in sorted(f.live_blocks()) if not f.blocks[bb].get("cleanup") and
               (is_popen_drop(f, bb) or (f.blocks[bb]["term"]["k"] == "call" and M.callee_names(f.blocks[bb]["term"]["f"]) & waitfns))]
        def mentions(bb, l):
            blk = f.blocks[bb]
            def opm(o):
                return o.get("k") in ("copy", "move") and o["p"]["l"] == l
            for s_ in blk["stmts"]:
                if s_["k"] != "assign":
                    continue
                r_ = s_["r"]
                if r_["k"] == "use" and opm(r_["op"]):
                    return True
                if r_["k"] in ("ref", "addr") and r_["p"]["l"] == l:
                    return True
                if r_["k"] == "agg" and any(opm(o) for o in r_["ops"]):
                    return True
            t_ = blk["term"]
            if t_["k"] == "drop" and t_["p"]["l"] == l:
                return True
            if t_["k"] == "call" and any(opm(o) for o in t_["args"]):
                return True
            return False
        named = [l for l in read_ends if f.locals[l].get("name")]
        read_ends = named or read_ends
        full = M.Explore(f)
        def defined_before(l, w):
            """some definition of local l can reach the wait point w (l holds a value when w runs)"""
            for (db, dsi, dr) in f.defs().get(l, []):
                if db == w:
                    if dsi != "term" and not isinstance(dsi, str):
                        return True          # a statement of w's own block precedes its terminator
                    continue
                if w in f.reachable(db):
                    return True
            return False
        for l in read_ends:
            nheld += 1
            for w in wps:
                if not defined_before(l, w):
                    continue
                # blocks that can run after the wait point, following the drop flags (a flag-guarded drop of a value already moved is dead)
                after = set()
                for st_ in full.state_at.get(w, []):
                    out_ = dict(full._step_state(w, st_))
                    for x in f.succs(w):
                        after |= M.Explore(f, start=x, init=out_).blocks
                live = sorted(b for b in after if not f.blocks[b].get("cleanup") and mentions(b, l))
                t_ = f.blocks[w]["term"]
                what = M.callee_str(t_["f"]) if t_["k"] == "call" else "drop(%s)" % f.local_name(t_["p"]["l"])
                ctx.ob(rule, "%s.%s-not-held-across:%s" % ("::".join(p.split("::")[-2:]), f.local_name(l), what.split("::")[-1]), not live, f.loc(w),
                       "%s can wait for already started children (it drops their Popens, or calls a function that does) while `%s` — the parent's read end of a pipe "
                       "those children write to — is still held by this frame (used later at %s): a child blocked writing to that pipe never exits and the wait, "
                       "hence the failed start, never returns" % (what, f.local_name(l), [f.loc(b) for b in live][:3]))
    ctx.floor(rule, "parent-held pipe read ends examined", nheld, 1)

