"""C14 — a pipeline failing to start part-way cleans up and returns promptly."""
import mirlib as M
from common import *
from c12 import releases

SPEC = {
    "explanation": (
        "Static decision on the resolved MIR: (a) from the error edge of the `Exec::popen(..)?` inside the spawn loop no "
        "path reaches another spawn — the loop is left at once — and the path to return passes the drop of the "
        "Vec<Popen> built so far (ownership: every started stage is dropped, hence waited unless detached, C12; every "
        "descriptor of the attempt is closed by RAII, C07); (b) that wait cannot block on the handle's own pipe: "
        "<Popen as Drop>::drop releases self.stdin before wait on every path (the first stage of a pipeline with a "
        "piped stdin waits for EOF on exactly that pipe); the chain drop(Vec<Popen>) -> Popen::drop -> wait is "
        "shown; (c) every way of running a pipeline (popen, join, capture, communicate, stream_stdout, stream_stdin) "
        "goes through this one loop, and setup_communicate takes v[0].stdin out only after popen()? succeeded, so on "
        "failure the pipe is still inside ret[0] where (b) applies; (d) the error returned is the failing stage's "
        "own (the `?` residual of that very call)."
    ),
    "not_decided": "promptness as a time bound; whether an already started stage exits on EOF (child behaviour).",
    "trusted_base": ["rustc MIR and drop elaboration", "closing the write end delivers EOF", "mirlib dominance-by-removal, provenance, call graph"],
    "assumptions": [],
}

PP = "builder::pipeline::Pipeline::popen"


def run(ctx):
    prog = ctx.prog
    pp = prog.one(PP)
    T = M.Terms(pp)
    loops = M.sccs(pp)
    loop = loops[0] if len(loops) == 1 else set()
    spawns = [(bb, t) for bb, t in pp.calls() if M.callee_str(t["f"]) in ("builder::exec::Exec::popen", "popen::Popen::create")]
    ctx.floor("R14.1", "spawn sites in Pipeline::popen", len(spawns), 1)
    # ---- R14.1 failure leaves immediately and drops what was started --------------------
    ret_slot = None
    for bb, t in pp.calls(loop):
        if M.callee_str(t["f"]) == "std::vec::Vec::<T, A>::push":
            ret_slot = T.addr(t["args"][0])
    def spawn_err_edges(bb):
        """edges taken when the spawn at bb failed: the Break edge of `?`, or the Err arm of an explicit match on its result"""
        e = try_err_edges(pp, T, lambda c: c[3] == bb)
        e += variant_edges(pp, T, lambda t_: t_[0] == "call" and t_[3] == bb, 1, [0, 1], "std::result::Result<")
        return e

    for bb, t in spawns:
        err_e = spawn_err_edges(bb)
        ctx.ob("R14.1", "spawn-error-edge", len(err_e) == 1, pp.loc(bb), "the failure of the spawn is handled on one error edge (`?` or an explicit match): %s" % err_e)
        for e in err_e:
            after = pp.reachable(e[1])
            again = [b for b, _ in spawns if b in after]
            ctx.ob("R14.1", "no-spawn-after-failure", not again, pp.loc(bb), "after a stage fails to start no further stage may be started (spawn blocks reachable from the error edge: %s)" % again)
            ctx.ob("R14.1", "failure-leaves-loop", not (after & loop), pp.loc(bb), "the error edge must leave the spawn loop (loop blocks still reachable: %s)" % sorted(after & loop))
            # the Vec<Popen> built so far is dropped as a whole (first stage first) on the way out
            drops = [b for b in after if pp.blocks[b]["term"]["k"] == "drop" and ret_slot is not None and not pp.blocks[b]["term"]["p"]["proj"]
                     and pp.blocks[b]["term"]["p"]["l"] == ret_slot[1][1]]
            rets = [b for b in pp.return_blocks() if b in after]
            ok = bool(drops) and bool(rets) and all(dominated_by_blocks(pp, r, drops, start=e[1]) for r in rets)
            ctx.ob("R14.1", "failure-drops-started-stages", ok, pp.loc(bb), "on the error path the vector of already started Popens must be dropped before returning (drops at %s)" % drops)
            # ... and not taken apart element by element: the first stage owns the pipeline's stdin pipe and must be
            # dropped (its stdin closed) before any later stage is waited for; Vec's own drop does first-to-last
            piecemeal = []
            for b2, t2 in pp.calls(after):
                if t2["args"] and T.addr(t2["args"][0]) == ret_slot:
                    piecemeal.append(M.callee_str(t2["f"]).split("::")[-1])
            ctx.ob("R14.1", "started-stages-dropped-first-to-last", not piecemeal, pp.loc(bb),
                   "on the error path the started stages must be dropped in start order (the Vec as a whole): operations %s on the vector reorder the drops, and a stage that "
                   "is waited for before the first stage's stdin pipe is closed never sees end-of-file" % piecemeal)
            # R14.4 the error is that stage's error
            errv = [(b2, si2, r2) for (b2, si2, v2, r2) in result_variants(pp, M.Explore(pp, start=e[1])) if v2 in ("Err", "from_residual")]
            ok = len(errv) >= 1
            for b2, si2, r2 in errv:
                a = T.operand(r2["args"][0]) if si2 == "term" else T.operand(r2["ops"][0])
                ok = ok and M.contains(a, lambda u: u[0] == "call" and u[3] == bb and u[1] == M.callee_str(t["f"]))
            ctx.ob("R14.4", "error-is-the-failing-stage's", ok, pp.loc(bb), "the Err returned carries the error of the failing Exec::popen call")
    # ---- R14.2 the wait in drop cannot block on the handle's own stdin --------------------
    pd = prog.one("<popen::Popen as std::ops::Drop>::drop")
    Td = M.Terms(pd)
    can_wait = {p for p in prog.fns if "posix::waitpid" in M.local_closure(prog, [p])}
    waits = [(bb, t) for bb, t in pd.calls() if M.callee_names(t["f"]) & can_wait]
    rel = [bb for bb, recv, f in releases(pd, Td) if f == "stdin" and recv == ("param", 1, pd.local_name(1))]
    ok = bool(waits) and all(dominated_by_blocks(pd, wb, rel) for wb, _ in waits)
    ctx.ob("R14.2", "Popen::drop.releases-stdin-before-wait", ok, pd.loc(waits[0][0] if waits else 0),
           "a pipeline whose k-th command fails drops the started Popens; the first one still owns the pipeline's stdin pipe, so Popen::drop must close "
           "self.stdin before wait() or `(cat | nosuch).stdin(Pipe).popen()` hangs forever (releases at %s)" % rel)
    ctx.ob("R14.2", "chain:drop(Vec<Popen>)->Popen::drop->wait", bool(waits) and "popen::Popen::wait" in M.local_closure(prog, [pd.path]), pd.loc(0), "Popen::drop reaches wait()")
    # ---- R14.3 every terminator goes through the loop; stdin is taken only after success ----
    for term in ("join", "capture", "communicate", "stream_stdout", "stream_stdin"):
        f = prog.fn("builder::pipeline::Pipeline::" + term)
        if f is None:
            ctx.missing("R14.3", "Pipeline::" + term)
            continue
        cl = M.local_closure(prog, [f.path])
        others = [p for p in cl if p.startswith("builder::pipeline") and p != PP and any(M.callee_str(t["f"]) in ("builder::exec::Exec::popen", "popen::Popen::create") for _, t in prog.fns[p].calls())]
        ctx.ob("R14.3", "%s-via-popen-only" % term, PP in cl and not others, f.loc(0), "Pipeline::%s must start stages only through Pipeline::popen (other spawn sites: %s)" % (term, others))
    sc = prog.one("builder::pipeline::Pipeline::setup_communicate")
    Ts = M.Terms(sc)
    oke = try_ok_edges(sc, Ts, lambda c: c[1] == PP)
    for bb, t in sc.calls_to(lambda f: M.callee_str(f) == "std::option::Option::<T>::take"):
        a = M.noref(Ts.operand(t["args"][0]))
        if a[0] == "field" and a[2] in ("stdin", "stdout"):
            ctx.ob("R14.3", "setup_communicate.take-%s-after-success" % a[2], dominated_by_edges(sc, bb, oke), sc.loc(bb), "the stage's %s is taken out only after popen()? succeeded" % a[2])
