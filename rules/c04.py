"""C04 — the time limit is honoured for any child, reported truthfully, and reads are resumable."""
import mirlib as M
from common import *
from comm import *

SPEC = {
    "explanation": (
        "Decided on the resolved MIR of read_into / maybe_poll / posix::poll / Communicator: (a) cycle cover under "
        "`deadline = Some`: after deleting the blocks that branch on `Instant::now() >= deadline` with an exit to "
        "Err(TimedOut), the exchange loop has no cycle left — every iteration consults the clock and can leave with "
        "TimedOut regardless of readiness (otherwise a child that is always ready starves the deadline); (b) no "
        "event poll(2) may report is ignored by all three tests: each mask contains its request bit, POLLERR and "
        "POLLHUP — otherwise 'something happened' is misreported as 'timed out' (also with no limit set); (c) the "
        "deadline is computed once per read() as now + time_limit and passed unchanged, the remaining time is "
        "recomputed from the clock for every poll; (d) no limit => infinite poll timeout (-1); (e) the u128 -> i32 "
        "millisecond cast is guarded by <= i32::MAX and the overflow branch re-arms against the same deadline with "
        "a covered cycle; (f) the error path returns the very vectors filled during the call; (g) cursor and "
        "streams live in the communicator and are written only by the accounting sites (C02)."
        " Also: Err(TimedOut) is built only under the clock test or when all three ready flags are false; the cursor is persisted before any return; posix::poll returns a positive count at once, returns 0 only when the armed timeout was not clipped or the deadline passed, and re-arms only when nothing was ready and the timeout was clipped."
        " The deadline is computed with Instant::checked_add (an unrepresentable deadline = none): R04.3 reported D16 on the pinned tree."
        " posix::poll's own deadline uses checked_add too (D16b)."
    ),
    "not_decided": "the numeric latency bound (\"t plus one I/O step\"), millisecond granularity, Instant overflow for absurd limits.",
    "trusted_base": ["rustc MIR", "poll(2): POLLERR/POLLHUP/POLLNVAL are reported even if not requested; timeout -1 blocks indefinitely",
                     "mirlib cycle cover under a finite-domain assumption, dominance, provenance"],
    "assumptions": [],
}


def poll_by_evaluation(pp, Tq, lp):
    """The five facts about posix::poll decided by evaluating the function under each class of its input -- no timeout; a timeout whose
    millisecond count fits an i32; one that does not (and then: poll reported something / nothing) -- whichever way the clipped
    timeout, the overflow flag and the exits are spelled.  Returns {fact: bool}."""
    I32MAX = 2147483647
    lpb = lp[0][0]
    tparam = lambda x: M.noref(x) in (("param", 2, pp.local_name(2)), ("local", 2)) or (M.noref(x)[0] == "phi" and ("param", 2, pp.local_name(2)) in M.noref(x)[1])
    is_ms = lambda u: u[0] == "call" and u[1] == "std::time::Duration::as_millis"
    has_ms = lambda x: M.contains(x, is_ms)
    is_cnt = lambda t_: M.contains(t_, lambda u: u[0] == "call" and u[1] == "posix::check_err") and M.contains(t_, lambda u: u[0] == "call" and u[1] == "libc::poll")
    now_ = lambda x: M.contains(x, lambda u: u[0] == "call" and u[1] == "std::time::Instant::now")
    some_pay = lambda x: M.contains(x, lambda u: (u[0] == "downcast" and u[2] == "Some") or (u[0] == "call" and u[1] == "std::option::Option::<T>::unwrap"))

    def fits_value(t, fits):
        t = M.noref(t)
        if t[0] == "bin" and t[1] in ("Le", "Lt", "Gt", "Ge"):
            a, b = t[2], t[3]
            if const_of(b) is not None and has_ms(a):
                k, op = const_of(b), t[1]
            elif const_of(a) is not None and has_ms(b):
                k, op = const_of(a), {"Le": "Ge", "Lt": "Gt", "Gt": "Lt", "Ge": "Le"}[t[1]]
            else:
                return None
            table = {("Le", I32MAX): fits, ("Gt", I32MAX): not fits, ("Lt", I32MAX + 1): fits, ("Ge", I32MAX + 1): not fits}
            v = table.get((op, k))
            return None if v is None else int(v)
        if t[0] == "call" and "TryFrom<u128> for i32" in t[1] and has_ms(t):
            return 0 if fits else 1
        return None

    def elapsed_cmp(t):
        """value of a clock comparison that means 'the deadline has passed', or None if t is not one"""
        if not (t and t[0] == "call" and len(t[2]) == 2 and t[1].split("::")[-1] in ("ge", "gt", "le", "lt") and "PartialOrd" in t[1]):
            return None
        a, b = t[2]
        op = t[1].split("::")[-1]
        now_direct = lambda x: M.noref(M.strip(x))[0] == "call" and M.noref(M.strip(x))[1] == "std::time::Instant::now"
        if now_direct(a) and some_pay(b) and not now_direct(b):
            return 1 if op in ("ge", "gt") else 0
        if now_direct(b) and some_pay(a) and not now_direct(a):
            return 1 if op in ("le", "lt") else 0
        return None

    def explore(cls, cnt=None, elapsed=None, start=0):
        def af(t):
            if not t:
                return None
            n = M.noref(t)
            if tparam(n):
                return 0 if cls == "none" else 1
            if cls in ("fits", "over"):
                v = fits_value(t, cls == "fits")
                if v is not None:
                    return v
            if cnt is not None and n[0] in ("field", "cast") and is_cnt(n):
                return cnt
            if elapsed is not None:
                ev = elapsed_cmp(n)
                if ev is not None:
                    return ev if elapsed else 1 - ev
                # (a deadline that could not be represented is no deadline: that case is the intended 'wait on' and is not what is asked here)
                is_dl_val = lambda u: u[0] == "call" and (u[1] == "std::time::Instant::checked_add" or ("Add" in u[1] and "Instant" in u[1])) and now_(u)
                if is_dl_val(n) or (n[0] == "phi" and any(is_dl_val(M.noref(a_)) for a_ in n[1])):
                    return 1
            return None
        return M.Explore(pp, assume_fn=af, start=start, tries="ok")

    def arg_alts(E_):
        return [M.noref(a_) for a_ in M.alts(M.Terms(pp, blocks=E_.blocks).operand(lp[0][1]["args"][2]))]

    def cyclic(E_):
        return any(lpb in c_ for c_ in M.sccs(pp, blocks=E_.blocks, edges=E_.edges))

    def uncast(x):
        while x[0] == "cast":
            x = M.noref(x[2])
        return x
    out = {}
    En = explore("none")
    an = arg_alts(En)
    out["no-limit"] = lpb in En.blocks and bool(an) and all(const_of(a_) is not None and const_of(a_) < 0 for a_ in an) and not cyclic(En)
    Ef, Eo = explore("fits"), explore("over")
    af_, ao_ = arg_alts(Ef), arg_alts(Eo)
    def exact(a_):
        x = uncast(a_)
        if x[0] == "call" and is_ms(x):
            return True
        return x[0] == "field" and x[1][0] == "downcast" and x[1][2] == "Ok" and has_ms(x) and "TryFrom<u128> for i32" in M.term_str(x)
    out["cast"] = lpb in Ef.blocks and lpb in Eo.blocks and bool(af_) and all(exact(a_) for a_ in af_) and bool(ao_) and all(const_of(a_) == I32MAX for a_ in ao_)
    Eo1 = explore("over", cnt=1)
    out["rearm"] = not cyclic(En) and not cyclic(Ef) and not cyclic(Eo1) and lpb in Eo1.blocks
    Eo0 = explore("over", cnt=0)
    cnt_returned = [bb_ for (bb_, si_, v_, r_) in result_variants(pp, Eo0) if v_ == "Ok" and is_cnt(Tq.operand(r_["ops"][0]))]
    oks_n = [1 for (bb_, si_, v_, r_) in result_variants(pp, Eo1) if v_ == "Ok" and is_cnt(Tq.operand(r_["ops"][0]))]
    out["count"] = not cnt_returned and bool(oks_n) and lpb in Eo0.blocks
    # the re-arm cycle: with the clock saying 'elapsed' it ends (Ok), with 'not yet' it goes round with timeout := deadline - now
    Eo0e = explore("over", cnt=0, elapsed=True)
    Eo0n = explore("over", cnt=0, elapsed=False)
    rearm_sub = any(s_["k"] == "assign" and s_["p"]["l"] == 2 and not s_["p"]["proj"] and M.contains(Tq.rvalue(s_["r"]), lambda u: u[0] == "call" and "Sub" in u[1] and now_(u) and some_pay(u))
                    for bb_ in Eo0n.blocks for s_ in pp.blocks[bb_]["stmts"])
    out["loop"] = not cyclic(Eo0e) and cyclic(Eo0n) and rearm_sub and bool([1 for bb_, t_ in pp.calls() if elapsed_cmp(("call", M.callee_str(t_["f"]), tuple(Tq.operand(a_) for a_ in t_["args"]), bb_)) is not None])
    return out


def run(ctx):
    prog = ctx.prog
    E = Engine(prog)
    ri, dr, mp, T = E.ri, E.dr, E.mp, E.T
    dl = ("param", E.params.get("deadline"), "deadline")
    dls = ("field", ("downcast", dl, "Some"), "0")
    # ---- R04.1 every iteration can time out --------------------------------------------------------
    ex = M.Explore(ri, assume={dl: 1})
    loops = M.sccs(ri, blocks=ex.blocks, edges=ex.edges)
    ctx.ob("R04.1", "loop-under-deadline", len(loops) == 1, ri.loc(0), "one exchange loop under deadline = Some")

    def is_clock_cmp(c):
        # ge(&Instant::now(), &deadline)  |  Instant::now() >= deadline, possibly through a crate helper
        if c[0] == "call" and (c[1].endswith("PartialOrd::ge") or c[1].endswith("PartialOrd::gt")):
            a, b = M.noref(M.strip(c[2][0])), M.noref(M.strip(c[2][1]))
            return a[0] == "call" and a[1] == "std::time::Instant::now" and b in (dls, dl)
        if c[0] == "call" and (c[1].endswith("PartialOrd::le") or c[1].endswith("PartialOrd::lt")):
            a, b = M.noref(M.strip(c[2][0])), M.noref(M.strip(c[2][1]))
            return b[0] == "call" and b[1] == "std::time::Instant::now" and a in (dls, dl)
        return False
    chk_edges = bool_edges(ri, T, is_clock_cmp, True)
    # the clock comparisons of the function (wherever their answer travels before it is acted upon); a comparison counts as a deadline
    # check when, answered 'elapsed' under a configured deadline, the iteration can only end in Err(TimedOut)
    def call_term(bb_, t_):
        return ("call", M.callee_str(t_["f"]), tuple(T.operand(a_) for a_ in t_["args"]), bb_)
    cmp_sites = [bb_ for bb_, t_ in ri.calls() if is_clock_cmp(call_term(bb_, t_))]
    is_timed = lambda bb_: any(st["k"] == "assign" and st["r"]["k"] == "agg" and st["r"].get("adt") == "std::io::ErrorKind" and st["r"]["variant"] == "TimedOut" for st in ri.blocks[bb_]["stmts"])
    good_blocks = set()
    for cb in cmp_sites:
        def af(t_, cb=cb):
            if not t_:
                return None
            if t_[0] == "call" and len(t_) > 3 and t_[3] == cb and is_clock_cmp(t_):
                return 1
            if M.noref(t_) == dl:
                return 1
            return None
        ex_c = M.Explore(ri, start=cb, assume_fn=af)
        rv = [v for (bb_, si_, v, rr) in result_variants(ri, ex_c)]
        timed = any(is_timed(bb_) for bb_ in ex_c.blocks)
        back = bool(E.mp_call) and E.mp_call[0] in ex_c.blocks
        if loops and cb in loops[0] and timed and rv and "Ok" not in rv and not back:
            good_blocks.add(cb)
    rem = M.sccs(ri, blocks=ex.blocks, edges=ex.edges, removed=good_blocks) if loops else [set()]
    ctx.ob("R04.1", "every-iteration-checks-deadline", bool(good_blocks) and not rem, ri.loc(min(good_blocks) if good_blocks else (E.mp_call[0] if E.mp_call else 0)),
           "with a time limit, every iteration of the exchange loop must compare Instant::now() with the deadline and be able to return Err(TimedOut): today's only "
           "timeout exit is 'poll reported nothing', so a child that keeps some stream ready on every iteration (e.g. floods output faster than the parent "
           "drains it) is read past the deadline for as long as it keeps writing (deadline-check blocks %s, remaining cycle %s)" % (sorted(good_blocks), [sorted(c)[:6] for c in rem]))
    # TimedOut is produced only under a deadline
    tb = [bb for bb in ri.live_blocks() for st in ri.blocks[bb]["stmts"] if st["k"] == "assign" and st["r"]["k"] == "agg" and st["r"].get("adt") == "std::io::ErrorKind" and st["r"]["variant"] == "TimedOut"]
    ex_none = M.Explore(ri, assume={dl: 0})
    # under deadline = None the 'nothing ready' exit can only be reached if poll returned with no flag: masks (R04.2) make that impossible for real events
    ctx.floor("R04.1", "TimedOut construction sites", len(tb), 1)
    # "reports a timeout only if t has really elapsed": a TimedOut is built either after the clock test said so, or when the multiplexer
    # reported *no* stream ready at all (with a deadline: its poll ran the remaining time out; without one that cannot happen, R04.4)
    for tbb in sorted(set(tb)):
        # reaching the construction implies: the clock said 'elapsed', or none of the three flags was set -- i.e. it cannot be reached with
        # every clock comparison answering 'not yet' and flag k set, for k = 0, 1, 2
        reach = []
        for k in range(3):
            def af(t_, k=k):
                if not t_:
                    return None
                if t_[0] == "call" and is_clock_cmp(t_):
                    return 0
                if E.ready is not None and M.noref(t_) in (E.ready[k], M.noref(E.ready[k])):
                    return 1
                return None
            reach.append(tbb in M.Explore(ri, assume_fn=af).blocks)
        ctx.ob("R04.1", "timeout-only-if-elapsed", E.ready is not None and not any(reach), ri.loc(tbb),
               "Err(TimedOut) may be produced only (a) under `Instant::now() >= deadline`, or (b) when maybe_poll reported none of stdin/stdout/stderr ready "
               "(all three flags false); a timeout raised while some stream is ready is reported before t elapsed — and even with no limit set "
               "(reachable with the clock saying 'not yet' and flag k set: %s)" % reach)

    # ---- R04.2 no reportable event is ignored ----------------------------------------------------------
    Tm = M.Terms(mp)
    want_read = {0: 0, 1: 1, 2: 1}
    found = 0
    for bb in mp.live_blocks():
        for s in mp.blocks[bb]["stmts"]:
            if s["k"] == "assign" and s["p"]["l"] == 0 and s["r"].get("variant") == "Ok":
                v = Tm.operand(s["r"]["ops"][0])
                if v[0] == "agg" and v[1] == "tuple" and all(x[0] == "call" and x[1] == "posix::PollFd::<'_>::test" for x in v[2]):
                    for k, x in enumerate(v[2]):
                        found += 1
                        m = eval_const(x[2][1])
                        # POLLERR is reported (unrequested) on the *write* end of a pipe whose reader is gone; POLLHUP on both kinds
                        need = (POLLIN | POLLHUP) if want_read[k] else (POLLOUT | POLLERR | POLLHUP)
                        if want_read[k] and m is not None and not m & POLLERR:
                            ctx.note("mask %d (read end) does not contain POLLERR; Linux pipes never report POLLERR alone on a read end" % k)
                        ctx.ob("R04.2", "mask%d>=%s" % (k, "POLLIN|POLLHUP" if want_read[k] else "POLLOUT|POLLERR|POLLHUP"), m is not None and (m & need) == need, mp.loc(bb),
                               "mask %d = %s lacks %s: poll(2) reports POLLERR/POLLHUP unrequested; an event matched by no mask makes all three flags false, which read_into "
                               "reports as a timeout — even when no time limit was set, and long before a set limit has elapsed (e.g. POLLERR on stdin when the child exits without reading)"
                               % (k, hex(m) if m is not None else None, "|".join(n for n, b in (("POLLIN", POLLIN), ("POLLOUT", POLLOUT), ("POLLERR", POLLERR), ("POLLHUP", POLLHUP)) if m is not None and need & b and not m & b)))
    ctx.floor("R04.2", "poll masks", found, 3)

    # ---- R04.3 deadline once, remaining time per poll -------------------------------------------------------
    cr = prog.one("communicate::Communicator::read")
    Tc = M.Terms(cr)
    rc = cr.calls_to(lambda f: M.callee_str(f) == "communicate::raw::RawCommunicator::read")
    ok = len(rc) == 1 and not M.sccs(cr)
    if ok:
        d = Tc.operand(rc[0][1]["args"][1])
        tl = ("field", ("param", 1, cr.local_name(1)), "time_limit")

        def now_plus(t_, limit_pred):
            return t_[0] == "call" and "Add" in t_[1] and t_[2][0][0] == "call" and t_[2][0][1] == "std::time::Instant::now" and limit_pred(t_[2][1])
        overflow_safe = True
        def now_checked(t_, limit_pred):
            return t_[0] == "call" and t_[1] in ("std::time::Instant::checked_add",) and M.noref(t_[2][0])[0] == "call" and M.noref(t_[2][0])[1] == "std::time::Instant::now" and limit_pred(t_[2][1])
        if d[0] == "call" and d[1] in ("std::option::Option::<T>::map", "std::option::Option::<T>::and_then"):
            ok = M.noref(d[2][0]) == tl and d[2][1][0] == "agg" and d[2][1][1][0] == "closure"
            if ok:
                cf = prog.fns[d[2][1][1][1]]
                r0_ = M.Terms(cf).local(0)
                isarg = lambda x: x == ("param", 2, cf.local_name(2))
                if d[1].endswith("and_then"):
                    ok = now_checked(r0_, isarg)      # None (a limit that cannot be represented) = no deadline: it can never expire
                else:
                    ok = now_plus(r0_, isarg)
                    overflow_safe = False
        else:
            # explicit match: Some(now + limit) | None
            al = M.alts(d)
            somes = [a_ for a_ in al if a_[0] == "agg" and a_[1][:3] == ("adt", "std::option::Option", "Some")]
            nones = [a_ for a_ in al if a_ == ("agg", ("adt", "std::option::Option", "None"), ())]
            is_payload = lambda x: M.noref(x) == ("field", ("downcast", tl, "Some"), "0")
            chk = [a_ for a_ in al if now_checked(a_, is_payload)]
            if len(chk) == 1 and len(chk) + len(nones) == len(al):
                ok = True                      # Some(t) => now.checked_add(t), None => None
            else:
                ok = len(somes) == 1 and len(somes) + len(nones) == len(al) and now_plus(somes[0][2][0], is_payload)
                overflow_safe = False
    ctx.ob("R04.3", "deadline=now+time_limit.once", ok, cr.loc(0), "Communicator::read computes the deadline once (no loop) as Instant::now() + time_limit and passes it down")
    # "for any t from zero up to durations far beyond the OS poll limit": `Instant + Duration` panics when the sum is not representable
    # (Duration::MAX, u64::MAX seconds — the usual spellings of 'no limit'); the addition must be the checked one
    ctx.ob("R04.3", "deadline-addition-cannot-overflow", bool(ok) and overflow_safe, cr.loc(0),
           "the deadline must be computed with Instant::checked_add (an unrepresentable deadline = no deadline): `Instant::now() + time_limit` panics for limits such as Duration::MAX")
    rr = prog.one("communicate::raw::RawCommunicator::read")
    Tr = M.Terms(rr)
    c = rr.calls_to(lambda f: M.callee_str(f) == RI)
    ctx.ob("R04.3", "deadline-passed-unchanged", len(c) == 1 and Tr.operand(c[0][1]["args"][E.params["deadline"] - 1]) == ("param", 2, rr.local_name(2)) and E.mp_term[2][3] == dl, rr.loc(0), "the deadline reaches maybe_poll unchanged")
    lt = prog.one("communicate::Communicator::limit_time")
    rf = builder_result_fields(lt, "communicate::Communicator")
    ok = rf is not None and set(rf[0]) == {"time_limit"} and rf[0]["time_limit"] == ("agg", ("adt", "std::option::Option", "Some"), (("param", 2, lt.local_name(2)),))
    ctx.ob("R04.3", "limit_time.stores-Some(arg)", ok, lt.loc(0), "limit_time stores Some(time)")
    pc = mp.calls_to(lambda f: M.callee_str(f) == "posix::poll")
    ok = len(pc) == 1
    if ok:
        to = Tm.operand(pc[0][1]["args"][1])
        dlp = ("param", 4, mp.local_name(4))
        ob_ = option_body(prog, mp, Tm, to, lambda x: x == dlp)
        ok = ob_ is not None and ob_.payload is not None and ob_.none_ok and ob_.form in ("map", "match") and bool(ob_.results)
        if ok:
            cf, Tf, dparam = ob_.fn, ob_.T, ob_.payload
            now = lambda x: M.noref(M.strip(x))[0] == "call" and M.noref(M.strip(x))[1] == "std::time::Instant::now"
            isd = lambda x: M.noref(M.strip(x)) == M.noref(dparam) or M.noref(x) == M.noref(dparam)
            past = bool_edges(cf, Tf, lambda c_: c_[0] == "call" and c_[1].endswith("PartialOrd::ge") and now(c_[2][0]) and isd(c_[2][1]), True)
            notpast = bool_edges(cf, Tf, lambda c_: c_[0] == "call" and c_[1].endswith("PartialOrd::ge") and now(c_[2][0]) and isd(c_[2][1]), False)
            kinds = []
            flat = []
            for bb, v in ob_.results:
                for a_ in M.alts(v):
                    # (a value computed by a call is classified where that call is made)
                    flat.append((a_[3] if a_[0] == "call" and len(a_) > 3 and isinstance(a_[3], int) and v[0] == "phi" else bb, a_))
            for bb, v in flat:
                if v[0] == "call" and v[1] in ("std::time::Instant::saturating_duration_since",) and isd(v[2][0]) and now(v[2][1]):
                    kinds.append("sat")          # deadline.saturating_duration_since(Instant::now()): zero when already past
                elif v[0] == "call" and v[1] in ("std::time::Duration::from_secs", "std::time::Duration::from_millis") and const_of(v[2][0]) == 0 and dominated_by_edges(cf, bb, past):
                    kinds.append("zero")
                elif v[0] == "call" and "Sub" in v[1] and isd(v[2][0]) and now(v[2][1]) and dominated_by_edges(cf, bb, notpast):
                    kinds.append("sub")
                elif v[0] in ("phi",) or v[0] == "local":
                    continue                     # a join of the values classified above
                else:
                    kinds.append("?" + M.term_str(v)[:60])
            ok = sorted(kinds) in (["sat"], ["sub", "zero"])
    if not ok and len(pc) == 1:
        # the same decided by evaluating maybe_poll per case, however the Option is put together (map, match, is_some().then(..), ...)
        dlp = ("param", 4, mp.local_name(4))
        NONE_ = ("agg", ("adt", "std::option::Option", "None"), ())
        now_ = lambda x: M.noref(M.strip(x))[0] == "call" and M.noref(M.strip(x))[1] == "std::time::Instant::now"
        isd_ = lambda x: M.noref(M.strip(x)) == dlp or (M.noref(x)[0] == "field" and M.noref(x)[1][0] == "downcast" and M.noref(M.noref(x)[1][1]) == dlp)
        def clock(t_):
            t_ = M.noref(t_)
            if t_[0] == "call" and "PartialOrd" in t_[1] and len(t_[2]) == 2:
                op = t_[1].split("::")[-1]
                if now_(t_[2][0]) and isd_(t_[2][1]):
                    return {"ge": 1, "gt": 1, "le": 0, "lt": 0}.get(op)
                if now_(t_[2][1]) and isd_(t_[2][0]):
                    return {"le": 1, "lt": 1, "ge": 0, "gt": 0}.get(op)
            return None
        def case(dl, past=None):
            def af(t_):
                if not t_:
                    return None
                if M.noref(t_) == dlp:
                    return dl
                if past is not None:
                    v_ = clock(t_)
                    if v_ is not None:
                        return v_ if past else 1 - v_
                return None
            E_ = M.Explore(mp, assume_fn=af)
            if pc[0][0] not in E_.blocks:
                return None
            return [M.noref(a_) for a_ in M.alts(M.Terms(mp, blocks=E_.blocks).operand(pc[0][1]["args"][1]))]
        def some_of(a_):
            return a_[2][0] if a_[0] == "agg" and a_[1][:3] == ("adt", "std::option::Option", "Some") else None
        is_sat = lambda v: v is not None and v[0] == "call" and v[1] == "std::time::Instant::saturating_duration_since" and isd_(v[2][0]) and now_(v[2][1])
        is_zero = lambda v: v is not None and ((v[0] == "call" and v[1] in ("std::time::Duration::from_secs", "std::time::Duration::from_millis", "std::time::Duration::from_nanos") and const_of(v[2][0]) == 0)
                                               or (v[0] == "const" and v[2] == "std::time::Duration::ZERO"))
        is_sub = lambda v: v is not None and v[0] == "call" and "Sub" in v[1] and isd_(v[2][0]) and now_(v[2][1])
        none_c, some_c = case(0), case(1)
        ok = none_c == [M.noref(NONE_)] and bool(some_c)
        if ok and all(is_sat(some_of(a_)) for a_ in some_c):
            pass
        elif ok:
            past_c, fut_c = case(1, True), case(1, False)
            ok = bool(past_c) and bool(fut_c) and all(is_zero(some_of(a_)) or is_sat(some_of(a_)) for a_ in past_c) and all(is_sub(some_of(a_)) or is_sat(some_of(a_)) for a_ in fut_c)
    ctx.ob("R04.3", "poll-timeout=deadline-now|0", ok, mp.loc(pc[0][0] if pc else 0), "the timeout of each poll is recomputed as deadline - Instant::now() (zero when already past)")

    # ---- R04.4 posix::poll: infinite without limit, guarded cast, re-arm --------------------------------------------
    pp = prog.one("posix::poll")
    Tq = M.Terms(pp)
    lp = pp.calls_to(lambda f: M.callee_str(f) == "libc::poll")
    ok = len(lp) == 1
    if ok:
        # The pair (timeout in ms, clipped?) handed to libc::poll, however it is computed (map(closure).unwrap_or(default), a match, ...):
        # collect every (ms, overflow) tuple that is built for it and classify each by the condition it is built under
        I32MAX = 2147483647
        tparam = lambda x: M.noref(x) in (("param", 2, pp.local_name(2)), ("local", 2)) or (M.noref(x)[0] == "phi" and ("param", 2, pp.local_name(2)) in M.noref(x)[1])
        pair_fns = [pp] + [prog.fns[c_] for c_ in sorted(M.local_callees(prog, pp)) if "{closure" in c_ and c_ in prog.fns]
        kinds = {}
        unknown = []
        for pf in pair_fns:
            Tp_ = M.Terms(pf) if pf is not pp else Tq
            is_ms = lambda u: u[0] == "call" and u[1] == "std::time::Duration::as_millis"
            le_t = bool_edges(pf, Tp_, lambda c_: c_[0] == "bin" and c_[1] == "Le" and const_of(c_[3]) == I32MAX and M.contains(c_[2], is_ms), True) + \
                bool_edges(pf, Tp_, lambda c_: c_[0] == "bin" and c_[1] == "Gt" and const_of(c_[3]) == I32MAX and M.contains(c_[2], is_ms), False)
            le_f = bool_edges(pf, Tp_, lambda c_: c_[0] == "bin" and c_[1] == "Le" and const_of(c_[3]) == I32MAX and M.contains(c_[2], is_ms), False) + \
                bool_edges(pf, Tp_, lambda c_: c_[0] == "bin" and c_[1] == "Gt" and const_of(c_[3]) == I32MAX and M.contains(c_[2], is_ms), True)
            is_try = lambda t_: t_[0] == "call" and "TryFrom<u128> for i32" in t_[1] and M.contains(t_, is_ms)
            try_ok = variant_edges(pf, Tp_, is_try, 0, [0, 1], "std::result::Result<")
            try_err = variant_edges(pf, Tp_, is_try, 1, [0, 1], "std::result::Result<")
            none_t = variant_edges(pf, Tp_, tparam, 0, [0, 1], "std::option::Option<") if pf is pp else []
            def taken_up(l_):
                """blocks in which the pair held in local l_ is passed on (moved into another local)"""
                return [b2 for b2 in pf.live_blocks() for s2 in pf.blocks[b2]["stmts"] if s2["k"] == "assign" and s2["r"]["k"] == "use"
                        and s2["r"]["op"]["k"] in ("move", "copy") and s2["r"]["op"]["p"]["l"] == l_ and not s2["r"]["op"]["p"]["proj"]]
            for bb_, si_, r_, dl_ in ((b2, i2, s2["r"], s2["p"]["l"]) for b2 in pf.live_blocks() for i2, s2 in enumerate(pf.blocks[b2]["stmts"]) if s2["k"] == "assign" and s2["r"]["k"] == "agg" and s2["r"].get("kind") == "tuple" and len(s2["r"]["ops"]) == 2):
                v0, v1 = Tp_.operand(r_["ops"][0]), Tp_.operand(r_["ops"][1])
                ovf = const_of(v1)
                if ovf not in (0, 1) or pf.locals[r_["ops"][1]["p"]["l"]]["ty"] != "bool" if r_["ops"][1]["k"] in ("copy", "move") else ovf not in (0, 1):
                    continue
                c0 = const_of(v0)
                if c0 is not None and c0 < 0 and ovf == 0:
                    # the no-limit pair: the default of unwrap_or (built unconditionally in posix::poll), or under `timeout == None`
                    is_default = pf is pp and any(M.callee_str(t_["f"]) == "std::option::Option::<T>::unwrap_or" and Tq.operand(t_["args"][1]) == ("agg", "tuple", (v0, v1)) for _, t_ in pp.calls())
                    # (built ahead of the case distinction and taken up only in the no-timeout case is the same thing)
                    up_ = taken_up(dl_)
                    with_timeout = M.Explore(pf, assume_fn=lambda t_: 1 if (t_ and tparam(t_)) else None).blocks if pf is pp else None
                    kinds.setdefault("no-limit", []).append(is_default or (bool(none_t) and dominated_by_edges(pf, bb_, none_t)) or
                                                            (bool(none_t) and bool(up_) and with_timeout is not None and not (set(up_) & with_timeout)))
                elif ovf == 0 and M.contains(v0, is_ms):
                    exact = (v0[0] == "cast" and dominated_by_edges(pf, bb_, le_t)) or \
                        (M.noref(v0)[0] == "field" and M.noref(v0)[1][0] == "downcast" and M.noref(v0)[1][2] == "Ok" and is_try(M.noref(v0)[1][1]) and dominated_by_edges(pf, bb_, try_ok))
                    kinds.setdefault("exact", []).append(bool(exact))
                elif ovf == 1 and c0 == I32MAX:
                    kinds.setdefault("clipped", []).append(dominated_by_edges(pf, bb_, le_f) or dominated_by_edges(pf, bb_, try_err))
                else:
                    unknown.append("(%s, %s)@%s" % (M.term_str(v0)[:50], M.term_str(v1), pf.loc(bb_)))
        try:
            pev = poll_by_evaluation(pp, Tq, lp)
        except (IndexError, KeyError, TypeError, AttributeError, ValueError):
            pev = {}
        # the five evaluated facts are one statement about posix::poll; they stand in for the shape-based rules only together
        if not (pev and all(pev.values())):
            pev = {}
        ctx.ob("R04.4", "no-limit=>infinite-timeout", kinds.get("no-limit") == [True] or pev.get("no-limit", False), pp.loc(lp[0][0]),
               "without a timeout libc::poll must get a negative constant (block until an event) with overflow = false, and only then (pairs found: %s)" % kinds.get("no-limit"))
        okc = kinds.get("exact") == [True] and kinds.get("clipped") == [True] and not unknown
        ctx.ob("R04.4", "ms-cast-guarded", bool(okc) or pev.get("cast", False), pp.loc(0),
               "the millisecond count reaches libc::poll unchanged only when it fits an i32 (`ms <= i32::MAX` / i32::try_from(ms) is Ok); otherwise i32::MAX with overflow = true "
               "(exact: %s, clipped: %s, unclassified pairs: %s)" % (kinds.get("exact"), kinds.get("clipped"), unknown))
        # what libc::poll receives is the first component of those pairs
        ms = Tq.operand(lp[0][1]["args"][2])
        # re-arm loop is covered by the deadline exit
        loops = M.sccs(pp)
        okl = len(loops) == 1
        if okl:
            dterm = lambda x: True
            ge = bool_edges(pp, Tq, lambda c_: c_[0] == "call" and c_[1].endswith("PartialOrd::ge") and M.noref(M.strip(c_[2][0]))[0] == "call" and M.noref(M.strip(c_[2][0]))[1] == "std::time::Instant::now"
                            and M.contains(c_[2][1], lambda u: (u[0] == "call" and u[1] == "std::option::Option::<T>::unwrap") or (u[0] == "downcast" and u[2] == "Some")), True)
            blocks = {b for b, s in ge if s not in loops[0]}
            # a deadline that could not be represented (None although a timeout was given) is no deadline: the cycle through that edge is the
            # intended 'wait on' and is exempt from the cover
            # (the deadline: an Option computed from Instant::now() and the payload of the timeout parameter, outside the loop)
            tparam = lambda u: M.noref(u) in (("param", 2, pp.local_name(2)), ("local", 2))
            is_dl_add = lambda u: u[0] == "call" and (u[1] == "std::time::Instant::checked_add" or ("Add" in u[1] and "Instant" in u[1])) and len(u) > 3 and u[3] not in loops[0] \
                and M.contains(u[2][0], lambda w: w[0] == "call" and w[1] == "std::time::Instant::now") \
                and M.contains(u[2][1], lambda w: w[0] == "downcast" and w[2] == "Some" and tparam(w[1]))
            is_dl = lambda t_: M.contains(t_, is_dl_add)
            none_dl = set(variant_edges(pp, Tq, is_dl, 0, [0, 1], "std::option::Option<"))
            alle = {(b_, s_) for b_ in pp.live_blocks() for s_ in pp.succs(b_)} - none_dl
            okl = bool(blocks) and not M.sccs(pp, removed=blocks, edges=alle)
            # deadline computed once, before the loop, from the original timeout
            d0 = [bb for bb, t in pp.calls() if bb not in loops[0] and is_dl_add(("call", M.callee_str(t["f"]), tuple(Tq.operand(a_) for a_ in t["args"]), bb))]
            okl = okl and len(d0) >= 1
            # re-armed timeout = deadline - now
            st = [Tq.rvalue(r) for (bb, si, r) in pp.defs().get(2, []) if r["k"] not in ("partial", "call")]
            okl = okl and any(v[0] == "agg" and v[1][2] == "Some" and v[2][0][0] == "call" and "Sub" in v[2][0][1] for v in st)
        # the deadline of the re-arm loop is computed without a panicking addition as well
        safe = len(loops) == 1 and bool(d0) and all(M.callee_str(pp.blocks[bb_]["term"]["f"]) == "std::time::Instant::checked_add" for bb_ in d0) and \
            not [1 for bb_, t_ in pp.calls() if "Add" in M.callee_str(t_["f"]) and "Instant" in M.callee_str(t_["f"])]
        ctx.ob("R04.4", "poll-deadline-addition-cannot-overflow", safe, pp.loc(0),
               "posix::poll computes its own deadline from the remaining time on a later clock reading: `Instant::now() + timeout` there can still overflow "
               "for a limit whose deadline was only just representable; it must be checked_add (None = wait on)")
        ctx.ob("R04.4", "rearm-loop-covered-by-deadline", okl or pev.get("loop", False), pp.loc(0), "the > i32::MAX ms re-arm loop re-checks the original deadline every iteration and re-arms with deadline - now")
        # what leaves the loop and what re-arms: a positive count is returned at once; a zero count is returned only when the whole requested
        # timeout was armed (no overflow) or the deadline has passed; the loop re-arms only when nothing was ready *and* the timeout was clipped
        is_cnt = lambda t_: M.contains(t_, lambda u: u[0] == "call" and u[1] == "posix::check_err") and M.contains(t_, lambda u: u[0] == "call" and u[1] == "libc::poll")
        zc, nzc = zero_test_edges(pp, Tq, is_cnt)
        # the `overflow` flag: component 1 of the pair (a field of the unwrap_or result, or a local copied out of the pair-typed local)
        ovf_locals = set()
        for l_ in range(len(pp.locals)):
            if pp.locals[l_]["ty"] != "bool":
                continue
            for (db_, dsi_, dr_) in pp.defs().get(l_, []):
                if dr_.get("k") == "use" and dr_["op"]["k"] in ("copy", "move") and [e_["k"] for e_ in dr_["op"]["p"]["proj"]] == ["field"] and dr_["op"]["p"]["proj"][0].get("name") == "1" \
                        and pp.locals[dr_["op"]["p"]["l"]]["ty"].replace(" ", "") in ("(i32,bool)",):
                    ovf_locals.add(l_)
        def ovf_edges(val):
            out = []
            for bb_ in pp.live_blocks():
                t_ = pp.blocks[bb_]["term"]
                if t_["k"] == "switch" and t_["d"]["k"] in ("copy", "move") and not t_["d"]["p"]["proj"] and Tq.origin_local(t_["d"]) in ovf_locals:
                    out.append((bb_, M.switch_target(t_, 1 if val else 0)))
            return out
        ov_t, ov_f = ovf_edges(True), ovf_edges(False)
        cnt_rets = []
        for (bb_, si_, v_, r_) in result_variants(pp, M.Explore(pp)):
            if v_ == "Ok" and const_of(Tq.operand(r_["ops"][0])) is None:
                cnt_rets.append(bb_)
        # a count that is not poll's own can only be 0 ('nothing ready, time is up'): any other constant claims readiness that was not reported
        const_rets = [(bb_, const_of(Tq.operand(r_["ops"][0]))) for (bb_, si_, v_, r_) in result_variants(pp, M.Explore(pp)) if v_ == "Ok" and const_of(Tq.operand(r_["ops"][0])) is not None]
        for bb_, c_ in const_rets:
            ctx.ob("R04.4", "constant-count-is-zero", c_ == 0, pp.loc(bb_), "posix::poll returns the constant %s as the number of ready descriptors (only 0, after the deadline, is truthful)" % c_)
        okr = bool(cnt_rets) and bool(nzc) and bool(ov_f) and all(dominated_by_edges(pp, b_, nzc + ov_f) for b_ in cnt_rets)
        ctx.ob("R04.4", "count-returned-iff-ready-or-timeout-fully-armed", okr or (pev.get("count", False) and pev.get("rearm", False)), pp.loc(cnt_rets[0] if cnt_rets else 0),
               "Ok(cnt) is returned only when cnt != 0, or when the armed timeout was the whole remaining time (overflow == false): returning 0 after a clipped "
               "timeout reports 'nothing ready' long before the limit")
        rearm = [bb_ for (bb_, si_, r_) in pp.defs().get(2, []) if r_["k"] not in ("partial",) and bb_ in (loops[0] if len(loops) == 1 else set())]
        oka = bool(rearm) and bool(zc) and bool(ov_t) and all(dominated_by_edges(pp, b_, zc) and dominated_by_edges(pp, b_, ov_t) for b_ in rearm)
        ctx.ob("R04.4", "rearm-only-if-nothing-ready-and-clipped", oka or pev.get("rearm", False), pp.loc(rearm[0] if rearm else 0),
               "the loop goes round again (timeout := deadline - now) only when poll reported nothing *and* the timeout had been clipped to i32::MAX ms; "
               "re-arming with a ready descriptor spins forever without ever returning the count")
    # ---- R04.5 partial results travel with the error ------------------------------------------------------------------
    r0 = Tr.local(0)
    good = r0[0] == "agg" and r0[1] == "tuple" and len(r0[2]) == 2
    # no decision in RawCommunicator::read depends on whether read_into failed: the captured pair is built the same way on success and on error
    ri_call = lambda u: u[0] == "call" and u[1] == "communicate::raw::RawCommunicator::read_into"
    conds = [bb for bb in rr.live_blocks() if rr.blocks[bb]["term"]["k"] == "switch" and M.contains(M.switch_term(rr, Tr, bb), ri_call)]
    # ... and the pair sits next to the error in the one value returned
    pair_ok = good and M.noref(r0[2][1])[0] == "agg" and M.noref(r0[2][1])[1] == "tuple" and M.contains(r0[2][0], ri_call)
    ctx.ob("R04.5", "capture-built-unconditionally", pair_ok and not conds, rr.loc(conds[0] if conds else 0),
           "RawCommunicator::read returns (error-of-read_into, (out, err)) and takes no branch on that error — the captured data is returned whether or not an error occurred (branches on the result: %s)" % conds)
    cr0 = None
    for (bb, si, v, r) in result_variants(cr, M.Explore(cr)):
        if v == "Err":
            e = Tc.operand(r["ops"][0])
            ctx.ob("R04.5", "CommunicateError.capture=that-pair", e[0] == "agg" and e[2][1][0] == "field" and e[2][1][2] == "1" and e[2][1][1][0] == "call" and e[2][1][1][1] == rr.path, cr.loc(bb, si), "the timeout error carries the pair captured during this call")
    # ---- R04.6 resumability: state written only by the accounting sites ---------------------------------------------------
    RC = "communicate::raw::RawCommunicator"
    writers = {}
    for p, fn in sorted(prog.fns.items()):
        for fld in ("input_pos", "input_data", "stdin"):
            for bb, si, s in stores_to_field(fn, fld, RC):
                writers.setdefault(fld, []).append((p, bb))
            for bb, si in mut_borrows_of_field(fn, fld, RC):
                writers.setdefault(fld + "&mut", []).append((p, bb))
    okw = all(p == ri.path for v in writers.values() for p, _ in v)
    ctx.ob("R04.6", "state-writers", okw and len(writers.get("input_pos", [])) == 1 and len(writers.get("stdin&mut", [])) == 1, ri.loc(0),
           "cursor / input / stdin of the communicator are written only inside read_into (writers: %s)" % {k: [p.split("::")[-1] + "@bb%d" % b for p, b in v] for k, v in writers.items()})
    # what a write() accepted must be persisted in the communicator before *any* return — also the error returns
    # (timeout, I/O error), or a resumed read() sends those bytes again
    for wb, wt in E.writes:
        ok_e = try_ok_edges(ri, T, lambda c: c[3] == wb)
        st_ = [x_[0] for x_ in stores_to_field(ri, "input_pos", RC)]
        rets_ = ri.return_blocks()
        okp = bool(ok_e) and bool(st_) and all(dominated_by_blocks(ri, r_, st_, start=ok_e[0][1]) for r_ in rets_ if r_ in ri.reachable(ok_e[0][1]))
        ctx.ob("R04.6", "cursor-persisted-before-any-return", okp, ri.loc(wb),
               "after a successful write() every path to a return — Ok, TimedOut or an I/O error — must first store the advanced cursor into self.input_pos "
               "(stores at %s); a cursor kept in a local until the loop ends is lost on the error exits and the next read() repeats the bytes" % st_)
    # input_data is cleared only together with closing stdin
    idw = writers.get("input_data", [])
    takes = [bb for bb, kind, t in stdin_releases(ri, T, E.selfp)[0]]
    ctx.ob("R04.6", "input-dropped-only-when-done", all(dominated_by_blocks(ri, b, takes, start=min(E.loop)) for _, b in idw), ri.loc(0), "input_data is replaced only after stdin was closed (nothing undelivered is thrown away)")


def run_thorough(ctx):
    # the cfg(windows) sibling implementation, analysed on the windows-msvc build
    import winrules
    winrules.c04_recv_deadline(ctx)
