"""thorough tier: the cfg(windows) communicator (helper threads + rendezvous channel) — sibling rules of C01..C03,
analysed on the x86_64-pc-windows-msvc build.  Complements winrules.c01_threads_do_the_io / c02_routing / c03_leftover."""
import mirlib as M
from common import *
from winrules import _win, RAW

SI = RAW + "StreamIdent"
PAYLOAD = RAW + "Payload"


def _ival(t):
    """value of a constant integer expression as MIR spells `Enum::Variant as u8`: casts, (a + b with overflow check).0, | & ^"""
    while t and t[0] in ("cast", "copy", "move"):
        t = t[2] if t[0] == "cast" else t[1]
    if not t:
        return None
    if t[0] == "const" and isinstance(t[1], int):
        return t[1]
    if t[0] == "discr" and t[1][0] == "agg" and isinstance(t[1][1], tuple) and t[1][1][0] == "adt" and _ADTS is not None:
        # the discriminant of a variant built on the spot (`ident as u8` with ident bound to StreamIdent::Out)
        for v in (_ADTS.get(t[1][1][1]) or {}).get("variants", []):
            if v["name"] == t[1][1][2] and "discr" in v:
                return v["discr"]
        return None
    if t[0] == "field" and t[2] == "0" and t[1][0] == "bin":
        t = t[1]
    if t[0] == "bin":
        a, b = _ival(t[2]), _ival(t[3])
        if a is None or b is None:
            return None
        return {"BitOr": a | b, "BitAnd": a & b, "Add": a + b, "AddWithOverflow": a + b, "BitXor": a ^ b}.get(t[1])
    return None


_ADTS = None


def _ident_bits(prog):
    global _ADTS
    _ADTS = prog.adts
    return {v["name"]: v["discr"] for v in prog.adts[SI]["variants"]}


def c01_protocol(ctx):
    """R01.8: the helper protocol terminates — every helper announces its end exactly when its stream is finished, the
    announcements retire distinct bits, and the receiving loop runs exactly while a bit is left"""
    prog = _win(ctx)
    if prog is None:
        return
    bits = _ident_bits(prog)
    vals = list(bits.values())
    ok = all(v and v & (v - 1) == 0 for v in vals) and len(set(vals)) == len(vals) == 3
    ctx.ob("R01.8", "StreamIdent-bits-distinct", ok, "", "StreamIdent discriminants %s must be three distinct single bits: they are OR-ed into helper_set / requested_streams "
           "and cleared one by one; a zero or shared bit makes a stream invisible to the loop or retires two helpers at once" % bits)
    # reader helper: a read of 0 bytes (and only that) is end-of-file: announce it and stop; anything else is forwarded
    rt = prog.one(RAW + "read_and_transmit")
    T = M.Terms(rt)
    loops = M.sccs(rt)
    loop = loops[0] if len(loops) == 1 else set()
    ctx.ob("R01.8", "reader.one-loop", len(loops) == 1, rt.loc(0), "read_and_transmit has one read loop (found %d)" % len(loops))
    is_count = lambda t: M.contains(t, lambda u: u[0] == "call" and "Read>::read" in u[1]) and "Ok" in M.term_str(t)
    zero, nonzero = zero_test_edges(rt, T, is_count)
    eof = [bb for bb, si, r in aggregates_of(rt, PAYLOAD) if r["variant"] == "EOF"]
    data = [bb for bb, si, r in aggregates_of(rt, PAYLOAD) if r["variant"] == "Data"]
    ctx.floor("R01.8", "reader EOF / Data announcements", len(eof) + len(data), 2)
    for bb in eof:
        after = set()
        for s_ in rt.succs(bb):
            after |= rt.reachable(s_)
        readers = {b for b in loop if any(M.callee_str(t["f"]).endswith("Read>::read") for b2, t in rt.calls([b]))}
        # (by evaluation when the announcement and the decision to stop are separate: `let more = matches!(payload, Data(_)); .. if !more { break }`)
        leaves = not (after & readers) or not (M.Explore(rt, start=bb).blocks & readers)
        ctx.ob("R01.8", "reader.eof-iff-read-0", bool(zero) and dominated_by_edges(rt, bb, zero) and leaves, rt.loc(bb),
               "Payload::EOF is announced exactly on the `read() == 0` edge and the helper then stops reading (a helper that treats another count as EOF "
               "drops data; one that does not stop on 0 floods the channel with empty chunks forever)")
    for bb in data:
        ctx.ob("R01.8", "reader.data-iff-read>0", bool(nonzero) and dominated_by_edges(rt, bb, nonzero), rt.loc(bb), "Payload::Data is sent only for a non-zero count")
    # receiving loop
    ri = prog.one(RAW + "RawCommunicator::read_into")
    Ti = M.Terms(ri)
    hs = ("field", ("param", 1, ri.local_name(1)), "helper_set")
    is_hs = lambda t: M.noref(M.strip(t)) == hs
    z, nz = zero_test_edges(ri, Ti, is_hs)
    rcv = [bb for bb, t in ri.calls() if M.callee_str(t["f"]) == RAW + "RawCommunicator::recv_until"]
    ctx.floor("R01.8", "recv_until sites in read_into", len(rcv), 1)
    for bb in rcv:
        ctx.ob("R01.8", "recv-only-while-helpers-remain", bool(nz) and dominated_by_edges(ri, bb, nz), ri.loc(bb),
               "the channel is waited on only while helper_set != 0: with no helper left nobody will ever send and recv() blocks forever")
    for e in z:
        after = ri.reachable(e[1])
        vs = [v for (b, si, v, r) in result_variants(ri, M.Explore(ri, start=e[1]))]
        ctx.ob("R01.8", "no-helper-left=>Ok", not (after & set(rcv)) and vs == ["Ok"], ri.loc(e[0]), "when helper_set == 0 read_into returns Ok(()) without waiting again (results %s)" % vs)
    # helper_set is only ever narrowed, by the bit of the helper that announced EOF
    stores = stores_to_field(ri, "helper_set", RAW + "RawCommunicator")
    ctx.floor("R01.8", "stores to helper_set in read_into", len(stores), 1)
    eof_e = variant_edges(ri, Ti, lambda t: t[0] == "field" and t[2] == "1" and M.contains(t, lambda u: u[0] == "call" and u[1] == RAW + "RawCommunicator::recv_until"),
                          [v["discr"] if "discr" in v else i for i, v in enumerate(prog.adts[PAYLOAD]["variants"]) if v["name"] == "EOF"][0],
                          list(range(len(prog.adts[PAYLOAD]["variants"]))), PAYLOAD)
    for bb, si, s in stores:
        v = Ti.rvalue(s["r"])
        shape = v[0] == "bin" and v[1] == "BitAnd" and M.noref(v[2]) == hs and v[3][0] == "un" and v[3][1] == "Not" \
            and M.contains(v[3][2], lambda u: u[0] == "field" and u[2] == "0" and M.contains(u, lambda w: w[0] == "call" and w[1] == RAW + "RawCommunicator::recv_until"))
        ctx.ob("R01.8", "eof-retires-that-helper", shape and bool(eof_e) and dominated_by_edges(ri, bb, eof_e), ri.loc(bb, si),
               "helper_set &= !(ident as u8) with the ident of the received message, under Payload::EOF only (found %s)" % M.term_str(v)[:100])
    # construction: each helper's bit is set exactly when that helper is created
    new = prog.one(RAW + "RawCommunicator::new")
    want = {"{closure#0}": ("Out", True), "{closure#1}": ("Err", True), "{closure#2}": ("In", False)}
    for cname, (var, requested) in want.items():
        c = prog.as_written.fn(RAW + "RawCommunicator::new::" + cname)      # modular view: the three helper-creating closures as units
        if c is None:
            ctx.missing("R01.8", "RawCommunicator::new::" + cname)
            continue
        Tc = M.Terms(c)
        ups = [u["name"] for u in c.body["upvars"]]
        got = {}
        for bb in c.live_blocks():
            for s in c.blocks[bb]["stmts"]:
                if s["k"] == "assign" and s["r"]["k"] == "bin" and s["r"]["op"] == "BitOr":
                    tgt = Tc.place(s["p"])
                    val = Tc.rvalue(s["r"])
                    # the target is *(_1.k): the k-th captured variable
                    name = M.term_str(tgt)
                    tt = M.noref(tgt)
                    while tt[0] in ("deref",):
                        tt = tt[1]
                    if tt[0] == "field" and tt[2].isdigit() and int(tt[2]) < len(ups):
                        name = ups[int(tt[2])]
                    bit = _ival(val[3]) if _ival(val[3]) is not None else _ival(val[2])
                    got[name] = bit
        exp = {"helper_set": bits[var]}
        if requested:
            exp["requested_streams"] = bits[var]
        ctx.ob("R01.8", "new.%s-bit(%s)" % (var, cname), got == exp, c.loc(0),
               "creating the %s helper must OR exactly StreamIdent::%s into %s (found %s)" % (var, var, sorted(exp), got))


def c02_options(ctx):
    """R02.7: read() reports a stream's data as Some iff that stream was requested (piped), else None"""
    prog = _win(ctx)
    if prog is None:
        return
    bits = _ident_bits(prog)
    rd = prog.one(RAW + "RawCommunicator::read")
    T = M.Terms(rd)
    req = ("field", ("param", 1, rd.local_name(1)), "requested_streams")
    for var, vecname in (("Out", "outvec"), ("Err", "errvec")):
        def is_mask(t, var=var):
            t = M.noref(t)
            if t[0] != "bin" or t[1] != "BitAnd":
                return False
            a, b = M.noref(t[2]), M.noref(t[3])
            bit_of = _ival
            return (a == req and bit_of(b) == bits[var]) or (b == req and bit_of(a) == bits[var])
        z, nz = zero_test_edges(rd, T, is_mask)
        vl = [i for i, l in enumerate(rd.locals) if l.get("name") == vecname]
        somes = []
        for bb in rd.live_blocks():
            for si, s in enumerate(rd.blocks[bb]["stmts"]):
                if s["k"] == "assign" and s["r"]["k"] == "agg" and s["r"].get("adt") == "std::option::Option" and s["r"]["variant"] == "Some" \
                        and s["r"]["ops"] and s["r"]["ops"][0]["k"] in ("move", "copy") and vl and T.origin_local(s["r"]["ops"][0]) == vl[0]:
                    somes.append(bb)
        ok = len(somes) == 1 and bool(nz) and dominated_by_edges(rd, somes[0], nz)
        ctx.ob("R02.7", "read.%s=Some-iff-requested" % vecname, ok, rd.loc(somes[0] if somes else 0),
               "Some(%s) is produced exactly on the `requested_streams & StreamIdent::%s != 0` edge (sites %s, edges %s)" % (vecname, var, somes, nz))


def c03_grow(ctx):
    """R03.7: grow_result says 'stop' exactly when the byte total has reached the limit (before or after the append), and read_into obeys it"""
    prog = _win(ctx)
    if prog is None:
        return
    # modular view: the local closure as a unit, its call sites by their results (the bodies as written, before closure lowering)
    g = prog.orig_fns.get(RAW + "RawCommunicator::read_into::{closure#0}")
    ri = prog.orig_fns.get(RAW + "RawCommunicator::read_into")
    if g is None or ri is None:
        ctx.missing("R03.7", "grow_result closure")
        return
    T = M.Terms(g)

    def reached(c):
        # total >= limit, total = len(outvec) + len(errvec), limit = the Some payload of the captured size_limit
        if c[0] != "bin":
            return False
        if c[1] == "Ge":
            tot, lim = c[2], c[3]
        elif c[1] == "Le":
            lim, tot = c[2], c[3]
        else:
            return False
        lens = []
        M.contains(tot, lambda u: lens.append(u) or False if (u[0] == "call" and u[1] == "std::vec::Vec::<T, A>::len") else False)
        two = len({M.term_str(x[2][0]) for x in lens}) == 2 and M.contains(tot, lambda u: u[0] == "bin" and u[1] in ("Add", "AddWithOverflow"))
        return two and M.contains(lim, lambda u: u[0] == "downcast" and u[2] == "Some")
    t_e = bool_edges(g, T, reached, True)
    ctx.floor("R03.7", "limit tests `total >= size_limit` in grow_result", len(t_e), 2)
    stops, goes = [], []
    for bb in g.live_blocks():
        for s in g.blocks[bb]["stmts"]:
            if s["k"] == "assign" and s["p"]["l"] == 0 and not s["p"]["proj"] and s["r"]["k"] == "use" and s["r"]["op"]["k"] == "const":
                (stops if s["r"]["op"].get("int") == 0 else goes).append(bb)
    under = set()
    for e in t_e:
        under |= g.reachable(e[1])
    ctx.ob("R03.7", "stop-iff-limit-reached", bool(stops) and all(dominated_by_edges(g, b, t_e) for b in stops), g.loc(stops[0] if stops else 0),
           "grow_result returns false ('stop reading') only under `outvec.len() + errvec.len() >= size_limit` (stop sites %s)" % stops)
    ctx.ob("R03.7", "continue-iff-below-limit", bool(goes) and not any(b in under for b in goes), g.loc(goes[0] if goes else 0),
           "grow_result returns true ('keep reading') on no path on which the limit test succeeded (continue sites %s)" % goes)
    app = [bb for bb, t in g.calls() if M.callee_str(t["f"]) == "std::vec::Vec::<T, A>::extend_from_slice"]
    # the second test re-reads the lengths after the append
    late = [e for e in t_e if any(e[0] in g.reachable(a) for a in app)]
    ctx.ob("R03.7", "limit-retested-after-append", bool(app) and bool(late), g.loc(app[0] if app else 0), "after appending, the total is compared with the limit again, so the read stops as soon as the limit is reached")
    # read_into obeys the answer at both call sites
    Ti = M.Terms(ri)
    rcv = {bb for bb, t in ri.calls() if M.callee_str(t["f"]) == RAW + "RawCommunicator::recv_until"}
    sites = [(bb, t) for bb, t in ri.calls() if M.callee_str(t["f"]) == g.path]
    ctx.floor("R03.7", "grow_result call sites", len(sites), 2)
    for bb, t in sites:
        f_e = bool_edges(ri, Ti, lambda c: c[0] == "call" and c[1] == g.path and c[3] == bb, False)
        t_e2 = bool_edges(ri, Ti, lambda c: c[0] == "call" and c[1] == g.path and c[3] == bb, True)
        okf = bool(f_e) and all(not (ri.reachable(e[1]) & rcv) and [v for (b, si, v, r) in result_variants(ri, M.Explore(ri, start=e[1]))] == ["Ok"] for e in f_e)
        okt = bool(t_e2) and all((ri.reachable(e[1]) & rcv) for e in t_e2)
        ctx.ob("R03.7", "stop-obeyed", okf, ri.loc(bb), "when grow_result says stop, read_into returns Ok(()) without receiving anything more")
        ctx.ob("R03.7", "continue-obeyed", okt, ri.loc(bb), "when grow_result says continue, read_into goes on receiving (it must not return early with streams still open)")
