"""C07 — a Popen exists iff the program started; failed launches leave nothing behind."""
import mirlib as M
from common import *

SPEC = {
    "explanation": (
        "Static decision on os_start / do_exec / posix::*: (a) Popen::create's Ok is dominated by os_start's Ok, which "
        "is dominated by the `read_cnt == 0` edge of the read on the close-on-exec status pipe; the parent's copy of "
        "the write end is released before that read and both ends are marked close-on-exec before fork; (b) the "
        "child encodes the error code with the byte/shift table the parent decodes with, and the parent accepts "
        "exactly the length the child writes; (c) from the child entry no path reaches os_start's return — every "
        "path ends in _exit, exec or a panic entry — and do_exec's Err is what gets reported; (d) the "
        "exec-failure return is preceded by an unconditional blocking reap of the child; (e) descriptor ownership: "
        "no into_raw_fd/forget/ManuallyDrop/leak/raw close/dup/open in the crate (one control-checked exception), "
        "and in posix::pipe nothing fallible lies between the successful pipe() and both from_raw_fd — so any early "
        "return at any k-th fallible step closes everything by RAII (the static counterpart of fault injection at "
        "every k); (f) no Result of a parent-side step is discarded outside a three-entry allow-list."
        " Every function that creates a descriptor pair (found by census) wraps both in File before anything fallible."
    ),
    "not_decided": "which errno the kernel produces; EINTR on the status read (File::read does not retry).",
    "trusted_base": ["rustc MIR and drop elaboration (RAII closes a File when its owner goes out of scope)", "POSIX pipe/read/fork/_exit",
                     "mirlib dominance, provenance, census, discarded-result detection"],
    "assumptions": [],
}


def shift_table_encode(T, arr):
    """child side: array(cast(ec), cast(Shr(ec,8)), ...) -> {index: shift}, plus the encoded term"""
    if arr[0] == "call" and arr[1] in ("core::num::<impl u32>::to_le_bytes", "core::num::<impl i32>::to_le_bytes"):
        return {0: 0, 1: 8, 2: 16, 3: 24}, arr[2][0]
    if arr[0] != "agg" or arr[1] != "array":
        return None, None
    tab = {}
    src = None
    for i, e in enumerate(arr[2]):
        x = e
        while x[0] == "cast":
            x = x[2]
        sh = 0
        if x[0] == "bin" and x[1] == "Shr":
            sh = const_of(x[3])
            x = x[2]
        while x[0] == "cast":
            x = x[2]
        if sh is None:
            return None, None
        if src is None:
            src = x
        elif x != src:
            return None, None
        tab[i] = sh
    return tab, src


def shift_table_decode(t, tab=None):
    """parent side: BitOr(BitOr(cast(buf[0]), Shl(cast(buf[1]),8)), ...) -> {index: shift}, buffer term"""
    tab = {} if tab is None else tab
    if t[0] == "call" and t[1] in ("core::num::<impl u32>::from_le_bytes", "core::num::<impl i32>::from_le_bytes"):
        return {0: 0, 1: 8, 2: 16, 3: 24}
    if t[0] == "bin" and t[1] == "BitOr":
        a = shift_table_decode(t[2], tab)
        b = shift_table_decode(t[3], tab)
        return tab if a is not None and b is not None else None
    sh = 0
    x = t
    if x[0] == "bin" and x[1] == "Shl":
        sh = const_of(x[3])
        x = x[2]
    while x[0] == "cast":
        x = x[2]
    if x[0] == "index" and const_of(x[2]) is not None and sh is not None:
        tab[const_of(x[2])] = sh
        return tab
    if x[0] == "cidx":
        tab[x[2]] = sh
        return tab
    return None


def run(ctx):
    prog = ctx.prog
    fm = ForkModel(prog)
    if not fm.ok:
        ctx.ob("R07.0", "fork-model", False, "", "no unique fork site")
        return
    os_start, T = fm.fn, fm.T

    def _status_channel():
        # ---- R07.1 Ok only after EOF on the status channel -----------------------
        # functions that hand out a fresh pipe as (File, File): whoever calls the OS for one, and plain delegations to such a function
        pipefns = {fn_.path for fn_, _, _ in extern_calls(prog, ["pipe", "pipe2", "socketpair"])}
        for p_, f_ in prog.fns.items():
            cs_ = [M.callee_str(t_["f"]) for _, t_ in f_.calls() if not is_panic_call(t_)]
            if len(cs_) == 1 and cs_[0] in pipefns:
                pipefns.add(p_)
        pipes = os_start.calls_to(lambda f: M.callee_str(f) in pipefns)
        ctx.ob("R07.1", "status-pipe.site", len(pipes) == 1 and pipes[0][0] in fm.pre_region, os_start.loc(0), "os_start creates exactly one (status) pipe before fork; found %d" % len(pipes))
        if len(pipes) != 1:
            return
        is_pipe_comp = lambda t, k: t[0] == "field" and t[2] == str(k) and M.strip(t[1])[0] == "call" and M.strip(t[1])[1] in pipefns
        reads = [(bb, t) for bb, t in os_start.calls() if M.callee_str(t["f"]).endswith("as std::io::Read>::read") and bb in fm.parent_region]
        sreads = [(bb, t) for bb, t in reads if is_pipe_comp(M.noref(T.operand(t["args"][0])), 0)]
        ctx.ob("R07.1", "status-read.site", len(sreads) == 1, os_start.loc(0), "exactly one read of the status pipe's read end on the parent path; found %d" % len(sreads))
        if len(sreads) == 1:
            rb, rt = sreads[0]
            is_cnt = lambda t: M.strip(t)[0] == "call" and M.strip(t)[3] == rb
            eof_e = int_eq_edges(os_start, T, is_cnt, 0)
            oks = [(bb, si) for (bb, si, v, r) in result_variants(os_start, M.Explore(os_start)) if v == "Ok"]
            ctx.floor("R07.1", "Ok returns of os_start", len(oks), 1)
            for bb, si in oks:
                ctx.ob("R07.1", "ok-only-after-eof", dominated_by_edges(os_start, bb, eof_e), os_start.loc(bb, si), "os_start may return Ok only under `read_cnt == 0` (EOF on the close-on-exec status pipe: exec succeeded)")
            # the write end is released in the parent before the read
            drops = []
            for bb, t in os_start.calls():
                if M.callee_str(t["f"]) in ("std::mem::drop", "core::mem::drop") and is_pipe_comp(M.noref(T.operand(t["args"][0])), 1) and bb in fm.parent_region and bb not in fm.child_region:
                    drops.append(bb)
            for bb in os_start.live_blocks():
                tt = os_start.blocks[bb]["term"]
                if tt["k"] == "drop" and bb in fm.parent_region and bb not in fm.child_region:
                    sl = T.place_slot(tt["p"])
                    if sl and sl[2] == ("1",) and is_pipe_comp(M.noref(T.place(tt["p"])), 1) and not drop_is_flagged(os_start, bb):
                        drops.append(bb)
            ctx.ob("R07.1", "write-end-released-before-read", bool(drops) and dominated_by_blocks(os_start, rb, drops, start=fm.parent_entry), os_start.loc(rb),
                   "the parent's copy of the status write end must be dropped before the blocking read (otherwise EOF never arrives); drops at %s" % sorted(drops))
            # both ends close-on-exec before fork: marked here, or created that way by the pipe function itself
            def born_cloexec(gpath, seen=()):
                g = prog.fns.get(gpath)
                if g is None or gpath in seen:
                    return False
                Tg = M.Terms(g)
                for bb_, t_ in g.calls():
                    nm_ = M.callee_str(t_["f"])
                    if nm_ == "libc::pipe2":
                        fl = const_of(Tg.operand(t_["args"][1]))
                        if fl is not None and fl & 0o2000000:      # O_CLOEXEC
                            return True
                    if nm_ in pipefns and nm_ != gpath and born_cloexec(nm_, seen + (gpath,)):
                        return True
                return False
            born = born_cloexec(M.callee_str(pipes[0][1]["f"]))
            for k in (0, 1):
                if born:
                    ctx.ob("R07.1", "status-pipe.%d.cloexec-before-fork" % k, True, os_start.loc(pipes[0][0]), "the status pipe is created with pipe2(O_CLOEXEC)")
                    continue
                e = []
                for bb, t in os_start.calls_to(lambda f: M.callee_str(f) == "popen::os::set_inheritable"):
                    a = [T.operand(x) for x in t["args"]]
                    if is_pipe_comp(M.noref(a[0]), k) and const_of(a[1]) == 0:
                        e += try_ok_edges(os_start, T, lambda c: c[1] == "popen::os::set_inheritable" and c[3] == bb)
                ctx.ob("R07.1", "status-pipe.%d.cloexec-before-fork" % k, dominated_by_edges(os_start, fm.fork_bb, e), os_start.loc(fm.fork_bb),
                       "set_inheritable(&exec_fail_pipe.%d, false)? must succeed before fork" % k)
            # create: Ok(inst) dominated by os_start's success
            cr = prog.one("popen::Popen::create")
            Tc = M.Terms(cr)
            oke = try_ok_edges(cr, Tc, lambda c: c[1] == os_start.path)
            for (bb, si, v, r) in result_variants(cr, M.Explore(cr)):
                if v == "Ok":
                    ctx.ob("R07.1", "create.ok-after-os_start", dominated_by_edges(cr, bb, oke), cr.loc(bb, si), "Popen::create returns Ok only after os_start(..)? succeeded")

            # ---- R07.2 codec agreement -------------------------------------------
            WRITE_NAMES = ("std::io::Write::write_all", "<std::fs::File as std::io::Write>::write_all", "<std::fs::File as std::io::Write>::write", "std::io::Write::write")
            wa = []
            for p_ in [os_start.path] + sorted(fm.child_only_fns()):
                f_ = prog.fns[p_]
                for bb, t in f_.calls():
                    if M.callee_str(t["f"]) in WRITE_NAMES and fm.in_child(f_, bb):
                        wa.append((f_, bb, t))
            ctx.ob("R07.2", "child-report.site", len(wa) == 1, os_start.loc(fm.child_entry), "exactly one write of the error code in the child; found %d" % len(wa))
            if len(wa) == 1:
                wf, wb, wt = wa[0]
                Tw = T if wf.path == os_start.path else M.Terms(wf)
                a = [Tw.operand(x) for x in wt["args"]]

                def through_caller(term):
                    """a helper's parameter, replaced by what the (child-region) caller passes"""
                    if wf.path == os_start.path:
                        return term
                    cs = callers_of(prog, wf.path)
                    if len(cs) != 1:
                        return term
                    cf, cb, ct = cs[0]
                    Tc_ = T if cf.path == os_start.path else M.Terms(cf)
                    sub = {("param", i + 1, wf.local_name(i + 1)): Tc_.operand(x) for i, x in enumerate(ct["args"])}

                    def rw(t_):
                        if isinstance(t_, frozenset):
                            return frozenset(rw(y) for y in t_)
                        if not isinstance(t_, tuple) or not t_:
                            return t_
                        if t_ in sub:
                            return sub[t_]
                        if isinstance(t_[0], str):
                            return (t_[0],) + tuple(rw(y) if isinstance(y, (tuple, frozenset)) else y for y in t_[1:])
                        return tuple(rw(y) if isinstance(y, (tuple, frozenset)) else y for y in t_)
                    return rw(term)
                dest = through_caller(M.noref(a[0]))
                ctx.ob("R07.2", "child-report.to-status-pipe", is_pipe_comp(M.noref(dest), 1), wf.loc(wb), "the child reports on %s (must be the status pipe's write end)" % M.term_str(dest)[:100])
                arr = M.noref(a[1])
                while arr[0] == "cast":
                    arr = arr[2]
                enc, src = shift_table_encode(Tw, arr)
                if src is not None:
                    src = through_caller(src)
                # decode expression: argument of from_raw_os_error
                dec = None
                dterm = None
                for bb, t in os_start.calls_to(lambda f: M.callee_str(f) == "std::io::Error::from_raw_os_error"):
                    if bb in fm.parent_region:
                        dterm = T.operand(t["args"][0])
                        x = dterm
                        while x[0] == "cast":
                            x = x[2]
                        dec = shift_table_decode(x)
                ctx.ob("R07.2", "codec-tables-agree", enc is not None and dec is not None and enc == dec and sorted(enc) == [0, 1, 2, 3], wf.loc(wb),
                       "child encodes byte->shift %s, parent decodes %s (must be equal, 4 bytes)" % (enc, dec))
                n = len(arr[2]) if arr[0] == "agg" else 4
                len_e = int_eq_edges(os_start, T, is_cnt, n)
                for bb, t in os_start.calls_to(lambda f: M.callee_str(f) == "std::io::Error::from_raw_os_error"):
                    ctx.ob("R07.2", "decode-under-len==%d" % n, dominated_by_edges(os_start, bb, len_e), os_start.loc(bb), "the code is decoded only when exactly %d bytes (what the child writes) were read" % n)
                # what is encoded is do_exec's error
                okc = src is not None and M.contains(src, lambda u: u[0] == "call" and u[1] == "std::io::Error::raw_os_error") and M.contains(src, lambda u: u[0] == "call" and u[1] == DE)
                ctx.ob("R07.2", "reported=do_exec-error", okc, wf.loc(wb), "encoded value = %s (must be raw_os_error of do_exec's Err)" % (M.term_str(src) if src else None))

    _status_channel()

    # ---- R07.3 the child never returns into the caller ------------------------
    rets = [b for b in os_start.return_blocks() if b in fm.child_region]
    ctx.ob("R07.3", "child-never-returns", not rets, os_start.loc(fm.child_entry), "from the fork-child entry no path may reach os_start's return (found return blocks %s)" % rets)
    ends = []

    def diverging_ends(f_, blocks, depth=0):
        for b in sorted(blocks):
            t = f_.blocks[b]["term"]
            if t["k"] == "call" and t["t"] is None:
                nm = M.callee_str(t["f"])
                if nm in fm.child_only_fns() and nm != "posix::_exit" and depth < 4:
                    g_ = prog.fns[nm]
                    if g_.return_blocks():
                        ends.append("return-from:" + nm)
                    diverging_ends(g_, g_.live_blocks(), depth + 1)
                else:
                    ends.append(nm)
            elif t["k"] == "return" and f_.path == os_start.path:
                ends.append("return")
    diverging_ends(os_start, fm.child_region)
    ok = bool(ends) and all(e == "posix::_exit" or is_panic_callee(e) for e in ends)
    ctx.ob("R07.3", "child-ends-in-exit", ok and "posix::_exit" in ends, os_start.loc(fm.child_entry), "child paths end in %s (must be _exit or a panic entry)" % sorted(set(ends)))
    ex = prog.one("posix::_exit")
    c = [M.callee_str(t["f"]) for _, t in ex.calls()]
    ctx.ob("R07.3", "_exit=libc::_exit", c == ["libc::_exit"], ex.loc(0), "posix::_exit calls %s" % c)
    # every `?` in do_exec propagates into the reported Err (no swallowed child-side step)
    de = prog.one("PopenOsImpl>::do_exec")
    for bb, t, why in discarded_results(de):
        ctx.ob("R07.3", "do_exec.swallowed:%s" % M.callee_str(t["f"]), False, de.loc(bb), "result of %s is %s in the child: exec would proceed after a failed step" % (M.callee_str(t["f"]), why))
    rd = [v for (_, _, v, _) in result_variants(de, M.Explore(de))]
    ctx.ob("R07.3", "do_exec.never-ok", "Ok" not in rd, de.loc(0), "do_exec result variants %s (it must not be able to return Ok: success means the image was replaced)" % sorted(set(rd)))

    # ---- R07.4 reap on reported failure ---------------------------------------
    fro = [(bb, t) for bb, t in os_start.calls_to(lambda f: M.callee_str(f) == "std::io::Error::from_raw_os_error") if bb in fm.parent_region]
    ctx.floor("R07.4", "exec-failure Err constructions", len(fro), 1)
    REAP = ("popen::os::<impl popen::PopenOs for popen::Popen>::os_wait", "popen::Popen::wait")
    for bb, t in fro:
        reaps = []
        for b2, t2 in os_start.calls():
            nm = M.callee_str(t2["f"])
            if b2 in fm.parent_region and (nm in REAP or (nm.endswith("PopenOsImpl>::waitpid") and const_of(T.operand(t2["args"][1])) == 1)):
                if M.strip(T.operand(t2["args"][0])) == ("param", 1, os_start.local_name(1)):
                    reaps.append(b2)
        # the Err return that carries this error
        errb = [b for (b, si, v, r) in result_variants(os_start, M.Explore(os_start)) if v == "Err" and b in os_start.reachable(bb)]
        ok = bool(reaps) and bool(errb) and all(dominated_by_blocks(os_start, b, reaps, start=fm.parent_entry) for b in errb)
        # the reap must not be conditioned on `detached`
        cond = False
        for rb_ in reaps:
            for sb in os_start.live_blocks():
                tt = os_start.blocks[sb]["term"]
                if tt["k"] == "switch" and "detached" in M.term_str(M.switch_term(os_start, T, sb)) and rb_ in os_start.reachable(sb):
                    cond = True
        ctx.ob("R07.4", "reap-failed-child", ok and not cond, os_start.loc(bb),
               "when exec failure is reported the child must be reaped unconditionally (blocking wait) before Err is returned — "
               "otherwise a detached Popen's Drop skips the wait and the failed child stays a zombie; reaps found at %s" % sorted(reaps))

    # ---- R07.5 descriptor ownership ---------------------------------------------
    DISOWN = ("into_raw_fd", "forget", "leak", "into_raw")

    def disowns(nm):
        last = nm.split("::")[-1]
        return last in DISOWN or ("ManuallyDrop" in nm and last == "new")
    seen_sites = 0
    for p, fn in sorted(prog.fns.items()):
        for bb, t in fn.calls():
            nm = M.callee_str(t["f"])
            if disowns(nm):
                seen_sites += 1
                if nm.split("::")[-1] == "forget" and p == "posix::make_standard_stream":
                    continue  # the borrowed standard descriptors (C05/R05.4): must never be closed
                ctx.ob("R07.5", "disown:%s@%s" % (nm.split("::")[-1], p), False, fn.loc(bb), "%s can disown a descriptor (leak on early return)" % nm)
    # positive control of the matcher itself (the expected number of matching sites in the crate is zero or one)
    ctl = all(disowns(n) for n in ("std::mem::forget", "std::os::fd::IntoRawFd::into_raw_fd", "std::boxed::Box::<T>::leak", "std::mem::ManuallyDrop::<T>::new", "std::rc::Rc::<T>::into_raw")) \
        and not any(disowns(n) for n in ("std::mem::drop", "std::mem::take", "std::option::Option::<T>::take"))
    ctx.ob("R07.5", "control:disown-matcher", ctl, "", "positive control: the matcher recognises forget / into_raw_fd / leak / ManuallyDrop::new / into_raw and nothing else (sites seen in the crate: %d)" % seen_sites)
    for fn, bb, t in extern_calls(prog, ["close", "dup", "dup3", "open", "openat", "socket", "socketpair", "creat", "fdopen"]):
        ctx.ob("R07.5", "raw-fd:%s@%s" % (M.callee_str(t["f"]), fn.path), False, fn.loc(bb), "raw descriptor call %s outside an owning wrapper" % M.callee_str(t["f"]))
    # every function that obtains raw descriptors from the OS (found by census, not by name) hands them to an owning File at once:
    # from the success edge of the creating call to the last from_raw_fd there is nothing that can fail or return
    makers = sorted({fn.path for fn, bb, t in extern_calls(prog, ["pipe", "pipe2", "socketpair"])})
    ctx.floor("R07.5", "functions creating raw descriptor pairs", len(makers), 1)
    for mp_ in makers:
        pf = prog.fns[mp_]
        Tp = M.Terms(pf)
        lp = pf.calls_to(lambda f: M.callee_str(f) in ("libc::pipe", "libc::pipe2", "libc::socketpair"))
        fr = pf.calls_to(lambda f: M.callee_str(f).endswith("from_raw_fd"))
        ok = len(lp) == 1 and len(fr) == 2
        bad = []
        if ok:
            oke = try_ok_edges(pf, Tp, lambda c: c[1] == "posix::check_err")
            between = pf.reachable(oke[0][1]) if oke else set()
            # between the success edge and the second from_raw_fd: no call other than from_raw_fd / indexing asserts
            last_fr = max(b for b, _ in fr)
            bad = [M.callee_str(t["f"]) for b, t in pf.calls(between) if last_fr in pf.reachable(b) and b != last_fr and not M.callee_str(t["f"]).endswith("from_raw_fd")]
            # ... and every return reachable from the success edge lies behind both wraps
            rets = [r for r in pf.return_blocks() if r in between]
            ok = bool(oke) and not bad and all(dominated_by_edges(pf, b, oke) for b, _ in fr) and all(dominated_by_blocks(pf, r, [b], start=oke[0][1]) for r in rets for b, _ in fr)
        ctx.ob("R07.5", "%s.owned-immediately" % mp_.split("::")[-1], ok, pf.loc(lp[0][0] if lp else 0),
               "in %s both descriptors must be wrapped by File::from_raw_fd right after the successful creation, with nothing fallible in between: "
               "an early return there leaves two descriptors open with no owner (calls in between: %s)" % (mp_, bad))

    # ---- R07.6 (first part) the failure test of the syscall wrappers is not vacuous -------------------
    ce_calls = callers_of(prog, "posix::check_err")
    ctx.floor("R07.6", "check_err call sites", len(ce_calls), 10)
    for fn_, bb_, t_ in ce_calls:
        ga = t_["f"].get("gargs", [])
        Tc_ = M.Terms(fn_)
        arg = Tc_.operand(t_["args"][0])
        direct = arg[0] == "call" and (arg[1].startswith("libc::")) or (arg[0] == "phi" and all(a_[0] == "call" and a_[1].startswith("libc::") for a_ in arg[1]))
        ctx.ob("R07.6", "check_err-signed@%s" % fn_.path, ga[:1] in (["i32"], ["i64"], ["isize"]) and direct, fn_.loc(bb_),
               "check_err::<%s>(%s) in %s: the failure test is `num < 0`, which is vacuous on an unsigned or converted value — the step's failure would be taken for success"
               % (",".join(ga), M.term_str(arg)[:60], fn_.path))

    # ---- R07.6 error discipline ----------------------------------------------------
    ALLOW = {
        (os_start.path, "std::io::Write::write_all"): "child's final report: nothing left to do on failure",
        ("<popen::Popen as std::ops::Drop>::drop", "popen::Popen::wait"): "destructor cannot report",
        (os_start.path, "popen::os::<impl popen::PopenOs for popen::Popen>::os_wait"): "reaping a child known to be exiting after a failed exec; the exec error is the one reported",
    }
    scope = [os_start.path, "popen::Popen::create", "popen::Popen::setup_streams", "popen::os::set_inheritable", "popen::os::make_pipe", DE,
             "<popen::Popen as std::ops::Drop>::drop", "popen::get_standard_stream", "popen::get_standard_stream::{closure#0}"]
    scope += [p for p in prog.fns if p.startswith("posix::") or p.startswith("popen::Popen::setup_streams::")] + sorted(fm.child_only_fns())
    n = 0
    for p in scope:
        fn = prog.fns.get(p)
        if fn is None:
            continue
        n += 1
        for bb, t, why in discarded_results(fn):
            nm = M.callee_str(t["f"])
            # `.ok()` on a discarded chain: attribute to the producer of the Result
            prod = nm
            if nm.endswith("::ok") or nm.endswith("::err"):
                a = M.Terms(fn).operand(t["args"][0])
                prod = a[1] if a[0] == "call" else nm
            if prod.endswith("write_all") and fm.in_child(fn, bb):
                continue  # the child's final report: nothing is left to do if it fails
            if (p, prod) in ALLOW and not prod.endswith("write_all"):
                continue
            ctx.ob("R07.6", "discard:%s@%s" % (prod, p), False, fn.loc(bb), "the Result of %s is %s in %s" % (prod, why, p))
    ctx.floor("R07.6", "functions scanned for discarded results", n, 30)
    # positive control: the allow-listed child write is seen by the detector
    seen = [1 for p_ in [os_start.path] + sorted(fm.child_only_fns()) for bb, t, why in discarded_results(prog.fns[p_]) if fm.in_child(prog.fns[p_], bb)]
    ctx.ob("R07.6", "control:discard-matcher", len(seen) >= 1, os_start.loc(fm.child_entry), "positive control: the child's `write_all(..).ok()` must be seen by the discarded-result matcher")


DE = "<popen::Popen as popen::os::PopenOsImpl>::do_exec"


def drop_is_flagged(fn, bb):
    """is this Drop terminator reached only through a drop-flag test (conditional drop)?"""
    preds = fn.preds().get(bb, [])
    for p in preds:
        t = fn.blocks[p]["term"]
        if t["k"] == "switch" and t["d"]["k"] in ("copy", "move") and fn.locals[t["d"]["p"]["l"]]["ty"] == "bool" and not fn.locals[t["d"]["p"]["l"]].get("name"):
            return True
    return False


def run_thorough(ctx):
    # whole-program: raw descriptor creation / duplication only inside owning wrappers
    deep_census(ctx, "R07.5", ["dup", "dup3", "open", "openat", "open64", "socket", "creat", "pipe", "pipe2"],
                {"pipe": ["posix::pipe"], "pipe2": ["posix::pipe"], "open64": ["std::sys::fs::unix::File::open_c", "std::sys::fs::unix::File::open_c::{closure#0}"]})
