"""mirlib — the program database produced by the `spa` driver and the analysis
primitives (A1-A9 of DESIGN.md) the rules are written with.

Everything here works on the JSON dump of the *type-checked, resolved* program
(MIR at -Zmir-opt-level=0); nothing reads source text.
"""
import json
from collections import defaultdict

# ----------------------------------------------------------------------------
# program database
# ----------------------------------------------------------------------------


class Program:
    def __init__(self, doc):
        self.doc = doc
        self.target = doc.get("target")
        self.fns = {}
        for f in doc["fns"]:
            self.fns[f["path"]] = Fn(self, f)
        self.adts = {a["path"]: a for a in doc["adts"]}
        self.impls = doc["impls"]
        self.consts = {c["path"]: c["value"] for c in doc.get("consts", [])}
        self.graph = doc.get("graph")
        self._sites = None
        self.inlined_helpers = {}
        self.lowered_closures = {}
        self.orig_fns = self.fns
        self._lower_closures()
        self._look_through_new_helpers()
        self._inline_accessors()

    @property
    def as_written(self):
        """the program before closure lowering / accessor inlining: for the few rules that reason about a local closure as a unit
        (by its number, its captured variables, its call sites) -- they keep the modular view and its dependence on that shape"""
        v = self.__dict__.get("_as_written")
        if v is None:
            import copy
            v = copy.copy(self)
            v.fns = dict(self.orig_fns)
            v._sites = None
            v.__dict__["_as_written"] = v
            self.__dict__["_as_written"] = v
        return v

    def _inline_accessors(self):
        """`self.exit_status()` and `match self.child_state { Finished(s) => Some(s), _ => None }` are the same read of the same field: a
        method that takes nothing but `&self`, calls nothing, stores nothing and has no loop is spliced into its callers (it stays a
        function of its own as well: it may be public API)"""
        import os
        if os.environ.get("VERIF_NO_LOWER"):
            return
        acc = set()
        for p, f in self.fns.items():
            if "{closure" in p or f.arg_count != 1 or f.j.get("kind") not in ("AssocFn",):
                continue
            ty = f.locals[1]["ty"] if len(f.locals) > 1 else ""
            if not ty.startswith("&") or ty.startswith("&'{erased} mut") or ty.startswith("&mut"):
                continue
            live = f.live_blocks()
            if len(live) > 12 or sccs(f):
                continue
            if any(f.blocks[b]["term"]["k"] in ("call", "tailcall", "drop") for b in live):
                continue
            if any(s["k"] == "assign" and any(e["k"] == "deref" for e in s["p"]["proj"]) for b in live for s in f.blocks[b]["stmts"]):
                continue
            acc.add(p)
        self.accessors = sorted(acc)
        if not acc:
            return
        new = {}
        for p, f in self.fns.items():
            new[p] = f if p in acc else inlined(self, f, only=acc)
        self.fns = new
        self._sites = None

    def _lower_closures(self):
        """closure-taking Option/Result combinators become explicit matches, directly called closures become part of the calling body
        (lower.py): one form for the rules, whichever way the source spells it"""
        import os
        if os.environ.get("VERIF_NO_LOWER"):
            return
        import lower
        # the bodies as written stay available (orig): a rule that reasons about a local closure as a unit, and about its call sites
        # by their results, is still entitled to that modular view
        self.orig_fns = dict(self.fns)
        spliced, kept = lower.lower_program(self, _remap_places, lambda j: Fn(self, j))
        live = lower.closure_uses(self) | kept
        for p in sorted(spliced):
            if p not in live and p in self.fns:
                self.lowered_closures[p] = True
                del self.fns[p]
        self._sites = None

    def _look_through_new_helpers(self):
        """Extracting a piece of a function into a private helper that is called from that one place does not change behaviour, so the
        rules must not care: every private, single-call-site function that the reference tree does not know (rules/known_fns.txt) is
        spliced into its caller (mirlib.inlined) and disappears as a function of its own."""
        import os
        try:
            known = {l.strip() for l in open(os.path.join(os.path.dirname(os.path.abspath(__file__)), "known_fns.txt")) if l.strip() and not l.startswith("#")}
        except OSError:
            return
        # (a new helper called from several places is spliced into each of them; mutual recursion among new helpers is left alone)
        helpers = {p for p in self.fns if p not in known and is_private_helper(self, p, single=False)}
        sites_, _ = _call_sites(self)
        def direct(h):
            out = set()
            for b in self.fns[h].blocks:
                t = b["term"]
                if t["k"] in ("call", "tailcall"):
                    out |= callee_names(t["f"]) & helpers
            return out
        helpers = {h for h in helpers if not any(h in callee_reach(self, g, helpers) for g in direct(h))}
        if not helpers:
            return
        new = {}
        for p, f in self.fns.items():
            if p in helpers:
                continue
            new[p] = inlined(self, f, only=helpers)
        for h in helpers:
            self.inlined_helpers[h] = sorted({c[0] for c in sites_.get(h, [])})
        self.fns = new
        self._sites = None

    def fn(self, path):
        return self.fns.get(path)

    def find(self, suffix):
        """all functions whose path ends with `suffix` (path-segment aligned)"""
        out = []
        for p, f in self.fns.items():
            if p == suffix or p.endswith("::" + suffix) or p.endswith(">::" + suffix):
                out.append(f)
        return out

    def one(self, suffix):
        r = self.find(suffix)
        if len(r) != 1:
            raise MissingAnchor("function %r: expected exactly one match, found %d" % (suffix, len(r)))
        return r[0]

    def closures_of(self, path):
        return [f for p, f in self.fns.items() if f.j.get("is_closure") and p.startswith(path + "::{closure")]


class MissingAnchor(Exception):
    pass


# ----------------------------------------------------------------------------
# inlined view: a function with its private single-call-site helpers spliced in
# ----------------------------------------------------------------------------

def _call_sites(prog):
    """callee path -> [(caller path, bb)] over direct calls; plus the set of crate functions mentioned as values (fn items)"""
    if getattr(prog, "_sites", None) is not None:
        return prog._sites, prog._as_value
    sites = defaultdict(list)
    as_value = set()
    def walk(x):
        if isinstance(x, dict):
            if x.get("k") == "const" and isinstance(x.get("fn"), dict):
                as_value.update(callee_names(x["fn"]))
            for v in x.values():
                walk(v)
        elif isinstance(x, list):
            for v in x:
                walk(v)
    for p_, f_ in prog.fns.items():
        for i, b in enumerate(f_.blocks):
            t = b["term"]
            if t["k"] in ("call", "tailcall"):
                for nm in callee_names(t["f"]):
                    if nm in prog.fns:
                        sites[nm].append((p_, i))
                for a in t["args"]:
                    walk(a)
            for s_ in b["stmts"]:
                walk(s_)
    prog._sites, prog._as_value = sites, as_value
    return sites, as_value


def is_private_helper(prog, path, single=True):
    """a crate function that is not part of any API surface and is called from exactly one place: extracting it from, or inlining
    it into, its caller does not change behaviour, so rules look through it"""
    f = prog.fns.get(path)
    if f is None or f.j.get("is_closure") or "{closure" in path:
        return False
    vis = f.j.get("vis") or ""
    if vis == "pub" or f.j.get("kind") not in ("Fn", "AssocFn"):
        return False
    sites, as_value = _call_sites(prog)
    if path in as_value:
        return False
    cs = sites.get(path, [])
    if single:
        return len(cs) == 1 and cs[0][0] != path
    return len(cs) >= 1 and all(c[0] != path for c in cs)


def helper_owner(prog, path):
    """the function a private single-call-site helper (transitively) belongs to, else the path itself"""
    seen = set()
    sites, _ = _call_sites(prog)
    while is_private_helper(prog, path) and path not in seen:
        seen.add(path)
        path = sites[path][0][0]
    return path


def callee_reach(prog, path, within):
    """functions of `within` reachable from `path` through direct calls (used to keep recursive helper groups out of inlining)"""
    seen, st = set(), [path]
    while st:
        p = st.pop()
        if p in seen or p not in prog.fns:
            continue
        seen.add(p)
        for b in prog.fns[p].blocks:
            t = b["term"]
            if t["k"] in ("call", "tailcall"):
                for nm in callee_names(t["f"]):
                    if nm in within:
                        st.append(nm)
    return seen


def _remap_places(x, lmap, bmap):
    """deep copy of a MIR JSON fragment with locals shifted by lmap and block targets by bmap (functions int -> int)"""
    if isinstance(x, dict):
        y = {}
        for k, v in x.items():
            y[k] = _remap_places(v, lmap, bmap)
        if "l" in x and ("proj" in x or x.get("k") == "index") and isinstance(x["l"], int):
            y["l"] = lmap(x["l"])
        return y
    if isinstance(x, list):
        return [_remap_places(v, lmap, bmap) for v in x]
    return x


def inlined(prog, fn, only=None, _depth=0):
    """An Fn equal to `fn` with every call to a private single-call-site helper (is_private_helper; or the paths in `only`) replaced by
    the helper's body: parameters bound by assignments, the result bound to the call's destination, returns turned into jumps to the
    call's continuation.  Block numbers of `fn` are preserved; helper blocks are appended and carry "inl": <helper path>."""
    import copy
    key = (fn.path, tuple(sorted(only)) if only else None)
    cache = prog.__dict__.setdefault("_inlined", {})
    if key in cache:
        return cache[key]
    j = copy.deepcopy(fn.j)
    body = j["body"]
    changed = False
    i = 0
    while i < len(body["blocks"]) and _depth < 6:
        b = body["blocks"][i]
        t = b["term"]
        i += 1
        if t["k"] != "call" or b["cleanup"]:
            continue
        names = [nm for nm in callee_names(t["f"]) if nm in prog.fns]
        if len(names) != 1:
            continue
        g = prog.fns[names[0]]
        if g.path == fn.path or (only is not None and g.path not in only) or (only is None and not is_private_helper(prog, g.path)):
            continue
        if g.arg_count != len(t["args"]) or b.get("inl") == g.path:
            continue
        loff = len(body["locals"])
        boff = len(body["blocks"]) + 1          # +1: the bind block goes first
        lmap = lambda l, loff=loff: l + loff
        bmap = lambda x, boff=boff: x + boff
        for l_ in g.locals:
            l2 = dict(l_)
            l2["inl"] = g.path
            body["locals"].append(l2)
        # promoted constants of the helper travel with it
        poff = len(j.get("promoted") or [])
        j.setdefault("promoted", [])
        j["promoted"].extend(copy.deepcopy(g.j.get("promoted") or []))
        bind = {"cleanup": False, "inl": g.path, "stmts": [], "term": {"k": "goto", "t": boff, "ln": t.get("ln")}}
        for k_, a in enumerate(t["args"]):
            bind["stmts"].append({"k": "assign", "p": {"l": loff + 1 + k_, "proj": [], "ty": g.locals[1 + k_]["ty"]}, "r": {"k": "use", "op": a}, "ln": t.get("ln")})
        cont = t["t"]
        new_blocks = [bind]
        for gb in g.blocks:
            nb = _remap_places(gb, lmap, bmap)
            nb["inl"] = g.path
            tt = nb["term"]
            k = tt["k"]
            if k == "goto":
                tt["t"] = bmap(gb["term"]["t"])
            elif k == "switch":
                tt["targets"] = [[v, bmap(x)] for v, x in gb["term"]["targets"]]
                tt["otherwise"] = bmap(gb["term"]["otherwise"])
            elif k in ("drop", "assert", "call"):
                if gb["term"].get("t") is not None:
                    tt["t"] = bmap(gb["term"]["t"])
                if gb["term"].get("unwind") is not None:
                    tt["unwind"] = bmap(gb["term"]["unwind"])
            if k == "return" and not nb["cleanup"]:
                if cont is None:
                    nb["term"] = {"k": "unreachable", "ln": tt.get("ln")}
                else:
                    nb["stmts"] = nb["stmts"] + [{"k": "assign", "p": t["dest"], "r": {"k": "use", "op": {"k": "move", "p": {"l": loff, "proj": [], "ty": g.locals[0]["ty"]}}}, "ln": t.get("ln")}]
                    nb["term"] = {"k": "goto", "t": cont, "ln": tt.get("ln")}
            # promoted references
            def fixp(x):
                if isinstance(x, dict):
                    if x.get("k") == "const" and "promoted" in x and isinstance(x["promoted"], int):
                        x["promoted"] += poff
                        if x.get("name") == g.path:
                            x["name"] = fn.path
                    for v in x.values():
                        fixp(v)
                elif isinstance(x, list):
                    for v in x:
                        fixp(v)
            fixp(nb)
            new_blocks.append(nb)
        b["term"] = {"k": "goto", "t": len(body["blocks"]), "ln": t.get("ln"), "was_call": g.path}
        body["blocks"].extend(new_blocks)
        changed = True
    if not changed:
        cache[key] = fn
        return fn
    nf = Fn(prog, j)
    nf.inlined_from = fn
    cache[key] = nf
    return nf


class Fn:
    def __init__(self, prog, j):
        self.prog = prog
        self.j = j
        self.path = j["path"]
        self.file = j["file"]
        self.line = j["line"]
        self.body = j["body"]
        self.blocks = self.body["blocks"]
        self.locals = self.body["locals"]
        self.arg_count = self.body["arg_count"]
        self._succ = None
        self._pred = None
        self._defs = None

    def __repr__(self):
        return "<Fn %s>" % self.path

    # -- locations -------------------------------------------------------
    def loc(self, bb, si=None):
        b = self.blocks[bb]
        if si is None or si >= len(b["stmts"]):
            ln = b["term"].get("ln", self.line)
        else:
            ln = b["stmts"][si].get("ln", self.line)
        return "%s:%d" % (self.file, ln)

    # -- CFG -------------------------------------------------------------
    def succ(self, bb, unwind=False):
        """normal-flow successors as (target, edge-label) pairs"""
        t = self.blocks[bb]["term"]
        k = t["k"]
        out = []
        if k == "goto":
            out.append((t["t"], "goto"))
        elif k == "switch":
            for v, tb in t["targets"]:
                out.append((tb, ("sw", v)))
            out.append((t["otherwise"], ("sw", "otherwise")))
        elif k in ("drop", "assert"):
            out.append((t["t"], k))
        elif k == "call":
            if t["t"] is not None:
                out.append((t["t"], "ret"))
        if unwind and t.get("unwind") is not None:
            out.append((t["unwind"], "unwind"))
        return out

    def succs(self, bb):
        return [x for x, _ in self.succ(bb)]

    def preds(self):
        if self._pred is None:
            p = defaultdict(list)
            for i in range(len(self.blocks)):
                if self.blocks[i]["cleanup"]:
                    continue
                for s in self.succs(i):
                    p[s].append(i)
            self._pred = p
        return self._pred

    def reachable(self, start=0, removed_blocks=(), removed_edges=(), stop_blocks=()):
        """blocks reachable from `start` (a block or an iterable of blocks) over normal
        (non-cleanup) flow, not entering `removed_blocks`, not taking
        `removed_edges` ((from,to) pairs), not continuing past `stop_blocks`."""
        removed_blocks = set(removed_blocks)
        removed_edges = set(removed_edges)
        stop_blocks = set(stop_blocks)
        seen = set()
        st = [start] if isinstance(start, int) else list(start)
        while st:
            b = st.pop()
            if b in seen or b in removed_blocks or self.blocks[b]["cleanup"]:
                continue
            seen.add(b)
            if b in stop_blocks:
                continue
            for s in self.succs(b):
                if (b, s) in removed_edges:
                    continue
                st.append(s)
        return seen

    def return_blocks(self):
        return [i for i, b in enumerate(self.blocks) if b["term"]["k"] == "return" and not b["cleanup"]]

    def live_blocks(self):
        return self.reachable(0)

    # -- calls -----------------------------------------------------------
    def calls(self, within=None):
        """yield (bb, term) for every call terminator in non-cleanup blocks reachable from entry"""
        live = self.live_blocks() if within is None else within
        for i in sorted(live):
            b = self.blocks[i]
            if b["cleanup"]:
                continue
            t = b["term"]
            if t["k"] in ("call", "tailcall"):
                yield i, t

    def calls_to(self, pred, within=None):
        """pred: a name / collection of names matched against callee path and resolved path,
        or a callable taking the callee dict"""
        m = callee_matcher(pred)
        return [(i, t) for i, t in self.calls(within) if m(t["f"])]

    # -- defs ------------------------------------------------------------
    def defs(self):
        """local -> list of (bb, stmt index | 'term', rvalue-or-call) assignments to the *whole* local;
        partial (projected) writes are recorded under kind 'partial'."""
        if self._defs is None:
            d = defaultdict(list)
            for i, b in enumerate(self.blocks):
                if b["cleanup"]:
                    continue
                for si, s in enumerate(b["stmts"]):
                    if s["k"] == "assign":
                        p = s["p"]
                        if not p["proj"]:
                            d[p["l"]].append((i, si, s["r"]))
                        else:
                            d[p["l"]].append((i, si, {"k": "partial", "p": p, "r": s["r"]}))
                    elif s["k"] == "setdiscr":
                        d[s["p"]["l"]].append((i, si, {"k": "partial", "p": s["p"], "r": {"k": "setdiscr", "v": s["v"]}}))
                t = b["term"]
                if t["k"] == "call":
                    p = t["dest"]
                    if not p["proj"]:
                        d[p["l"]].append((i, "term", {"k": "call", "t": t}))
                    else:
                        d[p["l"]].append((i, "term", {"k": "partial", "p": p, "r": {"k": "call", "t": t}}))
            self._defs = d
        return self._defs

    def local_name(self, l):
        n = self.locals[l].get("name")
        return n if n else "_%d" % l

    def local_ty(self, l):
        return self.locals[l]["ty"]

    def locals_named(self, name):
        return [i for i, l in enumerate(self.locals) if l.get("name") == name]


def callee_names(f):
    """all names a callee dict answers to"""
    out = set()
    if "indirect" in f:
        return out
    for k in ("path", "rpath"):
        if k in f:
            out.add(f[k])
    return out


def callee_matcher(pred):
    if callable(pred):
        return pred
    if isinstance(pred, str):
        pred = [pred]
    names = set(pred)

    def m(f):
        for n in callee_names(f):
            if n in names:
                return True
            for want in names:
                if n.endswith("::" + want):
                    return True
        return False

    return m


def callee_str(f):
    if "indirect" in f:
        return "<indirect %s>" % op_str(f["indirect"])
    return f.get("rpath") or f["path"]


# ----------------------------------------------------------------------------
# pretty printing (diagnostics and debugging)
# ----------------------------------------------------------------------------


def place_str(p, fn=None):
    s = "_%d" % p["l"]
    if fn is not None and fn.locals[p["l"]].get("name"):
        s = "%s/*%d*/" % (fn.locals[p["l"]]["name"], p["l"])
    for e in p["proj"]:
        k = e["k"]
        if k == "deref":
            s = "(*%s)" % s
        elif k == "field":
            s = "%s.%s" % (s, e["name"])
        elif k == "index":
            s = "%s[_%d]" % (s, e["l"])
        elif k == "cidx":
            s = "%s[%s%d]" % (s, "-" if e["from_end"] else "", e["off"])
        elif k == "subslice":
            s = "%s[%d..%s%d]" % (s, e["from"], "-" if e["from_end"] else "", e["to"])
        elif k == "downcast":
            s = "(%s as %s)" % (s, e["name"])
        else:
            s = "%s.<%s>" % (s, k)
    return s


def op_str(o, fn=None):
    k = o["k"]
    if k in ("copy", "move"):
        return ("move " if k == "move" else "") + place_str(o["p"], fn)
    if k == "const":
        if "fn" in o:
            return "fn " + callee_str(o["fn"])
        if "int" in o:
            n = o.get("name")
            return "const %s%s" % (o["int"], " /*%s*/" % n if n else "")
        if "str" in o:
            return "const %r" % o["str"]
        if "bytes" in o:
            return "const b%r" % bytes(o["bytes"])
        return "const{%s}" % o.get("dbg", o["ty"])
    return "?" + k


def rv_str(r, fn=None):
    k = r["k"]
    if k == "use":
        return op_str(r["op"], fn)
    if k == "ref":
        return "&%s%s" % ("mut " if r["mut"] else "", place_str(r["p"], fn))
    if k == "rawptr":
        return "&raw %s" % place_str(r["p"], fn)
    if k == "bin":
        return "%s(%s, %s)" % (r["op"], op_str(r["a"], fn), op_str(r["b"], fn))
    if k == "un":
        return "%s(%s)" % (r["op"], op_str(r["a"], fn))
    if k == "cast":
        return "%s as %s [%s]" % (op_str(r["op"], fn), r["ty"], r["kind"])
    if k == "discr":
        return "discriminant(%s)" % place_str(r["p"], fn)
    if k == "agg":
        kind = r["kind"]
        ops = ", ".join(op_str(o, fn) for o in r["ops"])
        if kind == "adt":
            return "%s::%s{%s}" % (r["adt"], r["variant"], ops)
        if kind == "closure":
            return "closure %s[%s]" % (r["closure"], ops)
        return "%s(%s)" % (kind, ops)
    if k == "repeat":
        return "[%s; %s]" % (op_str(r["op"], fn), r["n"])
    if k == "partial":
        return "<partial %s = %s>" % (place_str(r["p"], fn), rv_str(r["r"], fn) if r["r"]["k"] not in ("call", "setdiscr") else r["r"]["k"])
    return "<%s %s>" % (k, r.get("dbg", ""))


def terminator_str(t, fn=None):
    k = t["k"]
    if k == "goto":
        return "goto bb%d" % t["t"]
    if k == "switch":
        return "switchInt(%s) -> [%s, otherwise: bb%d]" % (
            op_str(t["d"], fn),
            ", ".join("%s: bb%d" % (v, b) for v, b in t["targets"]),
            t["otherwise"],
        )
    if k == "call":
        return "%s = %s(%s) -> %s%s" % (
            place_str(t["dest"], fn),
            callee_str(t["f"]),
            ", ".join(op_str(a, fn) for a in t["args"]),
            "bb%d" % t["t"] if t["t"] is not None else "!",
            " unwind bb%d" % t["unwind"] if t.get("unwind") is not None else "",
        )
    if k == "drop":
        return "drop(%s) -> bb%d" % (place_str(t["p"], fn), t["t"])
    if k == "assert":
        return "assert(%s == %s) -> bb%d" % (op_str(t["cond"], fn), t["expected"], t["t"])
    return k


def fn_str(fn):
    out = ["fn %s  [%s:%d]" % (fn.path, fn.file, fn.line)]
    for i, l in enumerate(fn.locals):
        out.append("    let _%d: %s%s" % (i, l["ty"], "  // " + l["name"] if l.get("name") else ""))
    for i, b in enumerate(fn.blocks):
        out.append("  bb%d%s:" % (i, " (cleanup)" if b["cleanup"] else ""))
        for s in b["stmts"]:
            if s["k"] == "assign":
                out.append("      %s = %s   // L%d" % (place_str(s["p"], fn), rv_str(s["r"], fn), s["ln"]))
            elif s["k"] == "setdiscr":
                out.append("      discriminant(%s) = %d" % (place_str(s["p"], fn), s["v"]))
            else:
                out.append("      <%s>" % s["k"])
        out.append("      %s   // L%d" % (terminator_str(b["term"], fn), b["term"].get("ln", 0)))
    return "\n".join(out)


def load(path):
    with open(path) as f:
        return Program(json.load(f))


# ----------------------------------------------------------------------------
# A3: provenance terms
# ----------------------------------------------------------------------------
# Terms are hashable nested tuples:
#   ("param", i, name)            ("const", value, name)         ("fnitem", path)
#   ("call", callee, args, bb)    ("field", base, name)          ("deref", base)
#   ("ref", base)                 ("downcast", base, variant)    ("index", base, idx)
#   ("cidx", base, off, from_end) ("bin", op, a, b)              ("un", op, a)
#   ("cast", kind, a)             ("agg", kind, ops)             ("discr", base)
#   ("phi", frozenset)            ("local", l)  (not resolvable: loop-carried / partial)
# The walk is flow-insensitive over whole-local definitions, so the set of terms for a
# multiply-defined local over-approximates what can reach any use (sound for
# "only-from" queries); "agrees-with-table" queries demand a single term.


class Terms:
    def __init__(self, fn, max_depth=40, blocks=None):
        """blocks: if given, only definitions located in these blocks are considered (used
        together with Explore to evaluate terms under a finite-domain assumption)"""
        self.fn = fn
        self.memo = {}
        self.stack = set()
        self.max_depth = max_depth
        self.blocks = set(blocks) if blocks is not None else None

    def _defs(self, l):
        d = self.fn.defs().get(l, [])
        if self.blocks is not None:
            d = [x for x in d if x[0] in self.blocks]
        return d

    def origin_local(self, o, depth=0):
        """follow plain copies/moves back to the local a value was taken from"""
        if o["k"] not in ("copy", "move") or o["p"]["proj"]:
            return None
        l = o["p"]["l"]
        if depth > 20:
            return l
        d = [x for x in self._defs(l) if x[2]["k"] != "partial"]
        if len(d) == 1 and d[0][2]["k"] == "use" and d[0][2]["op"]["k"] in ("copy", "move") and not d[0][2]["op"]["p"]["proj"] \
                and not self.fn.locals[l].get("name"):
            return self.origin_local(d[0][2]["op"], depth + 1)
        return l

    def addr(self, o, depth=0):
        """the place a reference operand points to, as ("slot", root, path) where root is
        ("param", i, name) / ("local", l, name) and path the tuple of field names; None if the
        operand is not a (re)borrow chain of a place"""
        if o["k"] not in ("copy", "move") or depth > 20:
            return None
        p = o["p"]
        if p["proj"]:
            return None
        d = [x for x in self._defs(p["l"]) if x[2]["k"] != "partial"]
        if 1 <= p["l"] <= self.fn.arg_count and not d:
            # a reference parameter: the slot is whatever the caller passed
            return ("slot", ("param", p["l"], self.fn.local_name(p["l"])), ("*",))
        if len(d) != 1:
            return None
        r = d[0][2]
        if r["k"] == "use":
            return self.addr(r["op"], depth + 1)
        if r["k"] == "cast":
            return self.addr(r["op"], depth + 1)
        if r["k"] not in ("ref", "rawptr"):
            return None
        return self.place_slot(r["p"], depth + 1)

    def place_slot(self, pl, depth=0):
        path = []
        base = None
        proj = list(pl["proj"])
        l = pl["l"]
        if proj and proj[0]["k"] == "deref":
            inner = self.addr({"k": "copy", "p": {"l": l, "proj": []}}, depth + 1)
            if inner is None:
                return None
            base = inner[1]
            path = [x for x in inner[2] if x != "*"] if inner[2] != ("*",) else ["*"]
            if inner[2] == ("*",):
                path = ["*"]
            proj = proj[1:]
        else:
            if 1 <= l <= self.fn.arg_count:
                base = ("param", l, self.fn.local_name(l))
            else:
                base = ("local", l, self.fn.local_name(l))
        for e in proj:
            if e["k"] == "field":
                path.append(e["name"])
            elif e["k"] == "downcast":
                path.append("as " + e["name"])
            elif e["k"] == "deref":
                path.append("*")
            elif e["k"] == "cidx":
                path.append("[%d]" % e["off"])
            elif e["k"] == "index":
                path.append("[_]")
            else:
                path.append("<%s>" % e["k"])
        return ("slot", base, tuple(path))

    def local(self, l, depth=0):
        if l in self.memo:
            return self.memo[l]
        if l in self.stack or depth > self.max_depth:
            return ("local", l)
        fn = self.fn
        self.stack.add(l)
        try:
            alts = []
            if 1 <= l <= fn.arg_count:
                alts.append(("param", l, fn.locals[l].get("name") or "_%d" % l))
            for (bb, si, r) in self._defs(l):
                if r["k"] == "partial":
                    continue
                if r["k"] == "call":
                    t = r["t"]
                    alts.append(("call", callee_str(t["f"]), tuple(self.operand(a, depth + 1) for a in t["args"]), bb))
                else:
                    alts.append(self.rvalue(r, depth + 1))
            # de-duplicate, unwrap singletons
            uniq = []
            for a in alts:
                if a not in uniq:
                    uniq.append(a)
            if not uniq:
                res = ("local", l)
            elif len(uniq) == 1:
                res = uniq[0]
            else:
                flat = set()
                for u in uniq:
                    if u[0] == "phi":
                        flat |= set(u[1])
                    else:
                        flat.add(u)
                res = ("phi", frozenset(flat))
        finally:
            self.stack.discard(l)
        if not _mentions_unresolved(res, l):
            self.memo[l] = res
        return res

    def place(self, p, depth=0):
        t = self.local(p["l"], depth)
        for e in p["proj"]:
            t = project(t, e, self, depth)
        return t

    def operand(self, o, depth=0):
        k = o["k"]
        if k in ("copy", "move"):
            return self.place(o["p"], depth)
        if k == "const":
            if "fn" in o:
                return ("fnitem", callee_str(o["fn"]))
            if "promoted" in o and depth < self.max_depth:
                # a promoted constant of this body (`&Some(ECHILD)`, `&SHELL[1..]`): evaluate its tiny body
                proms = self.fn.j.get("promoted") or []
                i = o["promoted"]
                if 0 <= i < len(proms) and o.get("name") == self.fn.path:
                    pj = {"path": self.fn.path + "::promoted[%d]" % i, "file": self.fn.file, "line": self.fn.line, "body": proms[i]}
                    pt = Terms(Fn(self.fn.prog, pj), self.max_depth).local(0)
                    if not _has_local(pt):
                        return pt
            if "int" in o:
                return ("const", o["int"], o.get("name"))
            if "str" in o:
                return ("const", o["str"], o.get("name"))
            if "bytes" in o:
                return ("const", bytes(o["bytes"]), o.get("name"))
            if o.get("zst"):
                return ("const", None, o.get("name") or o["ty"])
            return ("const", o.get("dbg"), o.get("name"))
        return ("unknown", k)

    def rvalue(self, r, depth=0):
        k = r["k"]
        if k == "use":
            return self.operand(r["op"], depth)
        if k in ("ref", "rawptr"):
            return mkref(self.place(r["p"], depth))
        if k == "bin":
            return ("bin", r["op"], self.operand(r["a"], depth), self.operand(r["b"], depth))
        if k == "un":
            return ("un", r["op"], self.operand(r["a"], depth))
        if k == "cast":
            return ("cast", r["kind"], self.operand(r["op"], depth))
        if k == "discr":
            return ("discr", self.place(r["p"], depth))
        if k == "agg":
            kind = r["kind"]
            if kind == "adt":
                kd = ("adt", r["adt"], r["variant"])
            elif kind == "closure":
                kd = ("closure", r["closure"])
            else:
                kd = kind
            return ("agg", kd, tuple(self.operand(o, depth) for o in r["ops"]))
        if k == "repeat":
            return ("repeat", self.operand(r["op"], depth), r["n"])
        return ("unknown", k)


def _mentions_unresolved(t, l):
    # do not memoize results that were cut by the recursion guard on another local
    return _has_local(t)


def _has_local(t):
    if not isinstance(t, tuple):
        return False
    if t and t[0] == "local":
        return True
    for x in t[1:]:
        if isinstance(x, tuple) and _has_local(x):
            return True
        if isinstance(x, frozenset):
            for y in x:
                if _has_local(y):
                    return True
    return False


def mkref(t):
    return ("ref", t)


def project(t, e, terms=None, depth=0):
    k = e["k"]
    if t[0] == "never":
        return t
    if t[0] == "phi":
        return mkphi([project(x, e, terms, depth) for x in t[1]])
    if k == "deref":
        if t[0] == "ref":
            return t[1]
        return ("deref", t)
    if k == "field":
        if t[0] == "agg":
            kd = t[1]
            idx = e["i"]
            if kd in ("tuple",) or (isinstance(kd, tuple) and kd[0] in ("adt", "closure")):
                if idx < len(t[2]):
                    return t[2][idx]
        return ("field", t, e["name"])
    if k == "downcast":
        if t[0] == "never":
            return t
        if t[0] == "agg" and isinstance(t[1], tuple) and t[1][0] == "adt":
            if len(t[1]) > 2 and t[1][2] != e["name"]:
                return ("never",)        # `(None as Some)`: this alternative cannot be the one looked at
            return t  # field projection that follows picks the operand
        return ("downcast", t, e["name"])
    if k == "index":
        idx = terms.local(e["l"], depth + 1) if terms is not None else ("local", e["l"])
        if t[0] == "agg" and t[1] == "array" and idx[0] == "const" and isinstance(idx[1], int) and idx[1] < len(t[2]):
            return t[2][idx[1]]
        return ("index", t, idx)
    if k == "cidx":
        if t[0] == "agg" and t[1] == "array" and not e["from_end"] and e["off"] < len(t[2]):
            return t[2][e["off"]]
        return ("cidx", t, e["off"], e["from_end"])
    if k == "subslice":
        return ("subslice", t, e["from"], e["to"], e["from_end"])
    return ("proj", t, k)


def mkphi(ts):
    flat = set()
    for u in ts:
        if u[0] == "phi":
            flat |= set(u[1])
        elif u[0] == "never":
            continue
        else:
            flat.add(u)
    if not flat:
        return ("never",)
    if len(flat) == 1:
        return next(iter(flat))
    return ("phi", frozenset(flat))


def peel(t):
    """strip every outer &, * and reborrow layer: &*(&x) -> x"""
    while t and t[0] in ("ref", "deref", "copy", "move") and len(t) >= 2 and isinstance(t[1], tuple):
        t = t[1]
    return t


def alts(t):
    """the alternatives of a term (singleton unless phi)"""
    if t[0] == "phi":
        return list(t[1])
    return [t]


# value-transparent callees: the result *is* (a view of) argument 0
TRANSPARENT = {
    "std::option::Option::<T>::as_ref": "view",
    "std::option::Option::<T>::as_mut": "view",
    "std::option::Option::<T>::as_deref": "view",
    "std::option::Option::<T>::as_deref_mut": "view",
    "std::option::Option::<T>::unwrap": "payload",
    "std::option::Option::<T>::expect": "payload",
    "std::option::Option::<T>::take": "take",
    "std::result::Result::<T, E>::unwrap": "payload",
    "std::result::Result::<T, E>::expect": "payload",
    "<std::result::Result<T, E> as std::ops::Try>::branch": "try",
    "<std::option::Option<T> as std::ops::Try>::branch": "try",
    "std::convert::AsRef::as_ref": "view",
    "std::ops::Deref::deref": "view",
    "std::ops::DerefMut::deref_mut": "view",
    "<std::rc::Rc<T, A> as std::ops::Deref>::deref": "view",
    "<std::rc::Rc<T, A> as std::convert::AsRef<T>>::as_ref": "view",
    "<std::rc::Rc<T, A> as std::clone::Clone>::clone": "view",
    "std::rc::Rc::<T>::new": "view",
    "std::convert::Into::into": "view",
    "std::convert::From::from": "view",
    "<T as std::convert::From<T>>::from": "view",
    "<T as std::convert::Into<U>>::into": "view",
    "std::borrow::Borrow::borrow": "view",
    "<std::vec::Vec<T, A> as std::ops::Deref>::deref": "view",
    "std::vec::Vec::<T, A>::as_slice": "view",
    "std::ffi::OsString::as_os_str": "view",
    "<std::ffi::OsString as std::ops::Deref>::deref": "view",
    "std::ffi::OsStr::new": "view",
    "<std::ffi::OsStr as std::os::unix::ffi::OsStrExt>::as_bytes": "view",
    "<std::ffi::OsStr as std::os::unix::ffi::OsStrExt>::from_bytes": "view",
}


def strip(t, also=()):
    """peel references, derefs, casts, value-transparent calls, Try/unwrap payloads and
    Continue/Some downcasts: what object does this value denote?"""
    while True:
        k = t[0]
        if k in ("ref", "deref"):
            t = t[1]
        elif k == "cast":
            t = t[2]
        elif k == "call" and (t[1] in TRANSPARENT or t[1] in also) and t[2]:
            t = t[2][0]
        elif k == "downcast" and t[2] in ("Continue", "Some", "Ok"):
            t = t[1]
        elif k == "field" and t[2] == "0" and t[1][0] == "downcast" and t[1][2] in ("Continue", "Some", "Ok"):
            t = t[1][1]
        else:
            return t


def term_str(t, depth=0):
    if not isinstance(t, tuple):
        return repr(t)
    k = t[0]
    if depth > 12:
        return "..."
    d = depth + 1
    if k == "param":
        return "%s" % t[2]
    if k == "const":
        if t[2]:
            return "%s(=%r)" % (t[2].split("::")[-1], t[1])
        return repr(t[1])
    if k == "fnitem":
        return "fn:" + t[1]
    if k == "call":
        return "%s(%s)" % (short(t[1]), ", ".join(term_str(a, d) for a in t[2]))
    if k == "field":
        return "%s.%s" % (term_str(t[1], d), t[2])
    if k == "deref":
        return "*%s" % term_str(t[1], d)
    if k == "ref":
        return "&%s" % term_str(t[1], d)
    if k == "downcast":
        return "(%s as %s)" % (term_str(t[1], d), t[2])
    if k == "index":
        return "%s[%s]" % (term_str(t[1], d), term_str(t[2], d))
    if k == "cidx":
        return "%s[%s%d]" % (term_str(t[1], d), "-" if t[3] else "", t[2])
    if k == "bin":
        return "%s(%s, %s)" % (t[1], term_str(t[2], d), term_str(t[3], d))
    if k == "un":
        return "%s(%s)" % (t[1], term_str(t[2], d))
    if k == "cast":
        return "%s as _" % term_str(t[2], d)
    if k == "agg":
        kd = t[1]
        if isinstance(kd, tuple):
            kd = "::".join(str(x) for x in kd[1:]) if kd[0] == "adt" else "closure " + kd[1]
        return "%s{%s}" % (kd, ", ".join(term_str(a, d) for a in t[2]))
    if k == "discr":
        return "discr(%s)" % term_str(t[1], d)
    if k == "phi":
        return "phi{%s}" % " | ".join(sorted(term_str(a, d) for a in t[1]))
    if k == "local":
        return "_%d" % t[1]
    return str(t)


def short(path):
    # keep the last two path segments, drop generic noise
    p = path.replace("<T, A>", "").replace("<T>", "").replace("<T, E>", "")
    segs = p.split("::")
    return "::".join(segs[-2:]) if len(segs) > 2 else p


def contains(t, pred):
    """does any sub-term satisfy pred?"""
    if isinstance(t, frozenset):
        return any(contains(y, pred) for y in t)
    if not isinstance(t, tuple) or not t:
        return False
    if isinstance(t[0], str):
        if pred(t):
            return True
        rest = t[1:]
    else:
        rest = t
    for x in rest:
        if isinstance(x, (tuple, frozenset)) and contains(x, pred):
            return True
    return False


def leaves(t, out=None):
    """roots of a term: params, consts, calls-with-no-args, locals"""
    if out is None:
        out = set()
    k = t[0]
    if k in ("param", "const", "fnitem", "local", "unknown", "var"):
        out.add(t)
    elif k == "call":
        if not t[2]:
            out.add(t)
        for a in t[2]:
            leaves(a, out)
    elif k == "agg":
        if not t[2]:
            out.add(t)
        for a in t[2]:
            leaves(a, out)
    elif k == "phi":
        for a in t[1]:
            leaves(a, out)
    else:
        for x in t[1:]:
            if isinstance(x, tuple) and x and isinstance(x[0], str):
                leaves(x, out)
    return out


# ----------------------------------------------------------------------------
# switch classification and A4 finite-domain exploration
# ----------------------------------------------------------------------------


def switch_operand_def(fn, bb):
    """If the block ends in switchInt(move _k) and _k is assigned in this very block,
    return that rvalue (the common `_k = discriminant(P)` / `_k = Cmp(a,b)` shapes)."""
    t = fn.blocks[bb]["term"]
    if t["k"] != "switch":
        return None
    d = t["d"]
    if d["k"] not in ("copy", "move") or d["p"]["proj"]:
        return None
    l = d["p"]["l"]
    for s in reversed(fn.blocks[bb]["stmts"]):
        if s["k"] == "assign" and not s["p"]["proj"] and s["p"]["l"] == l:
            return s["r"]
    return None


def switch_term(fn, terms, bb):
    """term of the value switched on"""
    t = fn.blocks[bb]["term"]
    r = switch_operand_def(fn, bb)
    if r is not None:
        return terms.rvalue(r)
    return terms.operand(t["d"])


def switch_target(t, value):
    for v, b in t["targets"]:
        if v == value:
            return b
    return t["otherwise"]


def try_branch_locals(fn):
    """locals holding the ControlFlow result of a `?` (Try::branch)"""
    out = set()
    for i, b in enumerate(fn.blocks):
        t = b["term"]
        if t["k"] == "call" and callee_str(t["f"]).endswith("as std::ops::Try>::branch") and not t["dest"]["proj"]:
            out.add(t["dest"]["l"])
    return out


class EV(tuple):
    """value of a tracked enum local whose payload is followed too: (variant index, payload value)"""
    __slots__ = ()

    def __new__(cls, vidx, payload):
        return tuple.__new__(cls, (vidx, payload))

    @property
    def vidx(self):
        return self[0]

    @property
    def payload(self):
        return self[1]


class Explore:
    """A4: traverse a body under an assumption about finite-domain values.

    assume:  {term: int}   value of discriminants / bools / ints, keyed by the
                            term of the *place or value* being tested
    tracked: locals whose constant value (fieldless enum aggregate, int/bool
             constant) is followed flow-sensitively
    tries:   "both" | "ok" | "err-only-at:<bb>" — which edges of `?` to follow
    """

    def __init__(self, fn, assume=None, tracked=(), tries="both", start=0, init=None, stop=(), removed_edges=(), assume_fn=None):
        self.fn = fn
        self.terms = Terms(fn)
        self.assume = dict(assume or {})
        # besides the requested locals, follow every unnamed bool temporary that is only ever assigned constants
        # (drop flags, the result temporaries of `matches!`, `&&`, `||`): their switches are then decided exactly
        auto = []
        for l, decl in enumerate(fn.locals):
            if l <= fn.arg_count or decl["ty"] != "bool" or l in tracked:
                continue
            d = fn.defs().get(l, [])
            # unnamed temporaries only ever assigned constants; and every bool (named or not: `let all_closed = a && b && c;`) that is
            # assigned by plain moves — its value is then whatever the moved operand evaluates to under the assumptions, or unknown
            if d and all(r["k"] in ("use", "call") or (r["k"] == "un" and r["op"] == "Not") for (_, _, r) in d if r.get("k") != "partial"):
                auto.append(l)
        # and every enum-valued local whose variant is asked for (`discriminant(x)`) while it is only ever assigned whole -- an aggregate
        # `Some(..)` / `None` / `Finished(..)`, a move of another local, a call result -- and never borrowed mutably: its variant is then known
        # wherever an aggregate (or a known local) was assigned
        asked = set()
        mut_borrowed = set()
        for b in fn.blocks:
            for s_ in b["stmts"]:
                if s_["k"] == "assign":
                    r_ = s_["r"]
                    if r_["k"] == "discr" and not r_["p"]["proj"]:
                        asked.add(r_["p"]["l"])
                    if r_["k"] in ("ref", "rawptr") and r_.get("mut") and r_["p"]["proj"] == [] :
                        mut_borrowed.add(r_["p"]["l"])
        # (also asked for through x.is_none() / is_some() / is_ok() / is_err() on `&x`)
        for b in fn.blocks:
            t_ = b["term"]
            if t_["k"] == "call" and "indirect" not in t_["f"] and callee_str(t_["f"]) in self._OPT_TESTS and len(t_["args"]) == 1:
                a_ = t_["args"][0]
                if a_["k"] in ("copy", "move") and not a_["p"]["proj"]:
                    d_ = [x for x in fn.defs().get(a_["p"]["l"], []) if x[2]["k"] != "partial"]
                    if len(d_) == 1 and d_[0][2]["k"] == "ref" and not d_[0][2]["p"]["proj"] and not d_[0][2].get("mut"):
                        asked.add(d_[0][2]["p"]["l"])
        # (and the operand of `?`: the variant of `x` decides which way `x?` goes)
        for b in fn.blocks:
            t_ = b["term"]
            if t_["k"] == "call" and "indirect" not in t_["f"] and callee_str(t_["f"]).endswith("as std::ops::Try>::branch") and len(t_["args"]) == 1:
                a_ = t_["args"][0]
                if a_["k"] in ("copy", "move") and not a_["p"]["proj"]:
                    asked.add(a_["p"]["l"])
        enum_auto = []
        def movable(l_, seen=()):
            d_ = fn.defs().get(l_, [])
            return bool(d_) and l_ not in mut_borrowed and l_ > fn.arg_count and all(r_["k"] in ("agg", "use", "call") for (_, _, r_) in d_)
        for l in sorted(asked):
            if l in tracked or l in auto or not movable(l):
                continue
            enum_auto.append(l)
            # the locals it is moved from are followed as well
            for (_, _, r_) in fn.defs().get(l, []):
                if r_["k"] == "use" and r_["op"]["k"] in ("move", "copy") and not r_["op"]["p"]["proj"]:
                    src = r_["op"]["p"]["l"]
                    if src not in tracked and src not in auto and src not in enum_auto and movable(src):
                        enum_auto.append(src)
        if len(enum_auto) > 64:
            enum_auto = []
        # and tuple-valued locals built from aggregates / moved whole (`let (ms, clipped) = if .. { (a, false) } else { (MAX, true) }`): their
        # components are followed, so that a flag read out of the pair is as well known as a flag assigned directly
        tup_auto = []
        def tuple_like(l_):
            ty_ = (fn.locals[l_].get("ty") or "")
            return ty_.startswith("(") and ty_ != "()" and l_ > fn.arg_count and l_ not in mut_borrowed
        changed = True
        cand = {l_ for l_ in range(len(fn.locals)) if tuple_like(l_) and fn.defs().get(l_)}
        while changed:
            changed = False
            for l_ in sorted(cand):
                ok_ = True
                for (_, _, r_) in fn.defs().get(l_, []):
                    if r_["k"] == "agg" and r_.get("kind") == "tuple":
                        continue
                    if r_["k"] == "use" and r_["op"]["k"] in ("move", "copy") and not r_["op"]["p"]["proj"] and r_["op"]["p"]["l"] in cand:
                        continue
                    if r_["k"] == "use" and r_["op"]["k"] in ("move", "copy") and [e_["k"] for e_ in r_["op"]["p"]["proj"]] == ["downcast", "field"] \
                            and r_["op"]["p"]["l"] in enum_auto:
                        continue        # the payload of a followed enum local (`Some(pair)` taken apart again)
                    ok_ = False
                if not ok_:
                    cand.discard(l_)
                    changed = True
        # only where a component is actually read into a tracked scalar
        reads_comp = set()
        for b in fn.blocks:
            for s_ in b["stmts"]:
                if s_["k"] == "assign" and s_["r"]["k"] == "use" and s_["r"]["op"]["k"] in ("move", "copy"):
                    pr_ = s_["r"]["op"]["p"]
                    if len(pr_["proj"]) == 1 and pr_["proj"][0]["k"] == "field" and pr_["l"] in cand:
                        reads_comp.add(pr_["l"])
        for b in fn.blocks:
            t_ = b["term"]
            if t_["k"] == "switch" and t_["d"]["k"] in ("move", "copy"):
                pr_ = t_["d"]["p"]
                if len(pr_["proj"]) == 1 and pr_["proj"][0]["k"] == "field" and pr_["l"] in cand:
                    reads_comp.add(pr_["l"])
        grow = set(reads_comp)
        frontier = list(reads_comp)
        while frontier:
            l_ = frontier.pop()
            for (_, _, r_) in fn.defs().get(l_, []):
                if r_["k"] == "use" and r_["op"]["k"] in ("move", "copy") and not r_["op"]["p"]["proj"]:
                    src_ = r_["op"]["p"]["l"]
                    if src_ in cand and src_ not in grow:
                        grow.add(src_)
                        frontier.append(src_)
                elif r_["k"] == "use" and r_["op"]["k"] in ("move", "copy") and r_["op"]["p"]["proj"] and r_["op"]["p"]["l"] in enum_auto:
                    for (_, _, re_) in fn.defs().get(r_["op"]["p"]["l"], []):
                        if re_["k"] == "agg" and re_.get("kind") == "adt" and len(re_["ops"]) == 1 and re_["ops"][0]["k"] in ("move", "copy") and not re_["ops"][0]["p"]["proj"]:
                            src_ = re_["ops"][0]["p"]["l"]
                            if src_ in cand and src_ not in grow:
                                grow.add(src_)
                                frontier.append(src_)
        tup_auto = sorted(grow) if len(grow) <= 12 else []
        self.tracked = tuple(tracked) + tuple(auto) + tuple(enum_auto) + tuple(tup_auto)
        self._enum_tracked = set(enum_auto) | set(tracked)
        self._tuple_tracked = set(tup_auto)
        self.tries = tries
        self.try_locals = try_branch_locals(fn)
        self.visited = set()  # (bb, state)
        self.blocks = set()
        self.edges = set()
        self.stop = set(stop)
        self.removed_edges = set(removed_edges)
        self.assume_fn = assume_fn
        self.state_at = defaultdict(set)
        init_state = tuple((l, (init or {}).get(l)) for l in self.tracked)
        self._run(start, init_state)

    def _value_of(self, op, state):
        """constant value of an operand if known under state/assume"""
        if op["k"] == "const" and "int" in op:
            return op["int"]
        if op["k"] in ("copy", "move") and not op["p"]["proj"]:
            l = op["p"]["l"]
            for tl, v in state:
                if tl == l:
                    return v
        if op["k"] in ("copy", "move") and [e_["k"] for e_ in op["p"]["proj"]] == ["downcast", "field"] and op["p"]["l"] in self._enum_tracked:
            for tl, v in state:
                if tl == op["p"]["l"]:
                    if isinstance(v, EV) and v.vidx == op["p"]["proj"][0].get("v") and op["p"]["proj"][1]["i"] == 0 and v.payload is not None:
                        return v.payload
                    break
        if op["k"] in ("copy", "move") and len(op["p"]["proj"]) == 1 and op["p"]["proj"][0]["k"] == "field" and op["p"]["l"] in self._tuple_tracked:
            for tl, v in state:
                if tl == op["p"]["l"]:
                    if isinstance(v, tuple) and op["p"]["proj"][0]["i"] < len(v) and v[op["p"]["proj"][0]["i"]] is not None:
                        return v[op["p"]["proj"][0]["i"]]
                    break
        t = self.terms.operand(op)
        return self._eval_term(t)

    _OPT_TESTS = {"std::option::Option::<T>::is_none": 0, "std::option::Option::<T>::is_some": 1,
                  "std::result::Result::<T, E>::is_ok": 0, "std::result::Result::<T, E>::is_err": 1}

    def _eval_term(self, t, depth=0):
        """value of a term under the assumptions: the term itself, x.is_none()/is_some()/is_ok()/is_err() of an
        assumed discriminant, !b, and ==/!= of two determined values"""
        if t in self.assume:
            return self.assume[t]
        if depth > 6 or not t:
            return None
        if self.assume_fn is not None:
            v = self.assume_fn(t)
            if v is not None:
                return v
        if t[0] == "call" and t[1] in self._OPT_TESTS and len(t[2]) == 1:
            k = noref(t[2][0])
            v = self.assume.get(k)
            if v is None:
                v = self.assume.get(noref(strip(k)))
            if v is None and self.assume_fn is not None:
                v = self.assume_fn(k)
                if v is None:
                    v = self.assume_fn(noref(strip(k)))
            if v is None:
                return None
            return int(v == self._OPT_TESTS[t[1]])
        if t[0] == "call" and t[1] in ("std::option::Option::<T>::is_some_and", "std::option::Option::<T>::is_none_or") and len(t[2]) == 2:
            k = noref(t[2][0])
            v = self.assume.get(k)
            if v is None and self.assume_fn is not None:
                v = self.assume_fn(k)
            if v == 0:
                return 0 if t[1].endswith("is_some_and") else 1
            return None
        if t[0] == "un" and t[1] == "Not":
            v = self._eval_term(t[2], depth + 1)
            return None if v is None or v not in (0, 1) else 1 - v
        if t[0] in ("copy", "move") and len(t) == 2:
            return self._eval_term(t[1], depth + 1)
        if t[0] == "const" and isinstance(t[1], int):
            return t[1]
        if t[0] == "cast" and len(t) == 3:
            return self._eval_term(t[2], depth + 1)
        if t[0] == "field" and len(t) == 3 and isinstance(t[2], str) and t[2].isdigit():
            base = noref(t[1])
            if base[0] == "agg" and base[1] == "tuple" and int(t[2]) < len(base[2]):
                return self._eval_term(base[2][int(t[2])], depth + 1)
        if t[0] == "bin" and t[1] in ("Eq", "Ne") and len(t) == 4:
            a, b = self._eval_term(t[2], depth + 1), self._eval_term(t[3], depth + 1)
            if a is not None and b is not None:
                return int((a == b) == (t[1] == "Eq"))
        return None

    def eval(self, t):
        """public: value of a term under this exploration's assumptions (None if not determined)"""
        return self._eval_term(t)

    def _ref_target(self, op, depth=0):
        """the local whose address (or value) the operand carries: `_t = &x; f(move _t)` -> x"""
        if op["k"] not in ("copy", "move") or op["p"]["proj"] or depth > 4:
            return None
        l = op["p"]["l"]
        if l in self.tracked:
            return l
        d = [x for x in self.fn.defs().get(l, []) if x[2]["k"] != "partial"]
        if len(d) != 1:
            return None
        r = d[0][2]
        if r["k"] == "ref" and not r["p"]["proj"]:
            return r["p"]["l"] if r["p"]["l"] in self.tracked else None
        if r["k"] == "use":
            return self._ref_target(r["op"], depth + 1)
        return None

    def _agg_vidx(self, op, depth=0):
        """variant index of a fieldless enum value moved through temporaries"""
        if op["k"] not in ("copy", "move") or op["p"]["proj"] or depth > 8:
            return None
        d = [x for x in self.fn.defs().get(op["p"]["l"], []) if x[2]["k"] != "partial"]
        if len(d) != 1:
            return None
        r = d[0][2]
        if r["k"] == "agg" and r["kind"] == "adt" and not r["ops"]:
            return r["vidx"]
        if r["k"] == "use":
            return self._agg_vidx(r["op"], depth + 1)
        return None

    def _step_state(self, bb, state):
        st = dict(state)
        for s in self.fn.blocks[bb]["stmts"]:
            if s["k"] != "assign" or s["p"]["proj"]:
                continue
            l = s["p"]["l"]
            if l not in st:
                continue
            r = s["r"]
            v = None
            if r["k"] == "agg" and r["kind"] == "tuple" and l in self._tuple_tracked:
                v = tuple(self._value_of(o_, tuple(st.items())) for o_ in r["ops"])
            elif r["k"] == "agg" and r["kind"] == "adt" and (not r["ops"] or l in self._enum_tracked):
                v = r["vidx"]
                if l in self._enum_tracked and len(r["ops"]) == 1:
                    pv = self._value_of(r["ops"][0], tuple(st.items()))
                    if pv is not None and not isinstance(pv, EV):
                        v = EV(r["vidx"], pv)      # Ok(true), Some((ms, clipped)): the payload travels with the variant
            elif r["k"] == "use":
                v = self._value_of(r["op"], tuple(st.items()))
                if v is None:
                    v = self._agg_vidx(r["op"])
            elif r["k"] == "un" and r["op"] == "Not":
                v = self._value_of(r["a"], tuple(st.items()))
                v = 1 - v if v in (0, 1) else None
            st[l] = v
        t = self.fn.blocks[bb]["term"]
        if t["k"] == "call" and not t["dest"]["proj"] and t["dest"]["l"] in st:
            # the result of a call that the assumptions determine (x.is_none() of an assumed x, ...), else unknown
            try:
                ct = ("call", callee_str(t["f"]), tuple(self.terms.operand(a) for a in t["args"]), bb)
                v = self._eval_term(ct)
                if v is None and callee_str(t["f"]).endswith("as std::ops::Try>::branch") and len(t["args"]) == 1:
                    # x? of a followed x: Ok / Some continue, Err / None break
                    a0 = t["args"][0]
                    if a0["k"] in ("copy", "move") and not a0["p"]["proj"] and a0["p"]["l"] in st and st[a0["p"]["l"]] is not None:
                        sv0 = st[a0["p"]["l"]]
                        sv = sv0.vidx if isinstance(sv0, EV) else sv0
                        if "std::result::Result" in callee_str(t["f"]):
                            v = sv
                        elif "std::option::Option" in callee_str(t["f"]):
                            v = 1 - sv if sv in (0, 1) else None
                        if v == 0 and isinstance(sv0, EV) and t["dest"]["l"] in self._enum_tracked:
                            v = EV(0, sv0.payload)     # Continue(payload)
                if v is None and "FromResidual" in callee_str(t["f"]) and callee_str(t["f"]).endswith("::from_residual"):
                    # the residual of `?` converted back: an Err (a None)
                    v = 1 if "std::result::Result" in callee_str(t["f"]) else (0 if "std::option::Option" in callee_str(t["f"]) else None)
                if v is None and callee_str(t["f"]) in self._OPT_TESTS and len(t["args"]) == 1:
                    # x.is_none() / is_some() / is_ok() / is_err() of a followed local (through the `&x` temporary)
                    src = self._ref_target(t["args"][0])
                    if src is not None and src in st and st[src] is not None:
                        sv = st[src].vidx if isinstance(st[src], EV) else st[src]
                        v = int(sv == self._OPT_TESTS[callee_str(t["f"])])
                st[t["dest"]["l"]] = v
            except Exception:
                st[t["dest"]["l"]] = None
        return tuple((l, st[l]) for l in self.tracked)

    def _decide(self, bb, state):
        """value switched on in bb if determined, else None"""
        fn = self.fn
        t = fn.blocks[bb]["term"]
        r = switch_operand_def(fn, bb)
        if r is not None and r["k"] == "discr":
            p = r["p"]
            if not p["proj"]:
                for tl, v in state:
                    if tl == p["l"] and v is not None:
                        return v.vidx if isinstance(v, EV) else v
                if p["l"] in self.try_locals:
                    if self.tries == "ok":
                        return 0
                    if self.tries == "err":
                        return 1
            key = self.terms.place(p)
            if key in self.assume:
                return self.assume[key]
            sk = strip(key)
            if sk in self.assume:
                return self.assume[sk]
            if self.assume_fn is not None:
                for k_ in (key, noref(key), sk, noref(sk)):
                    v = self.assume_fn(k_)
                    if v is not None:
                        return v
            return None
        if r is not None and r["k"] == "use":
            return self._value_of(r["op"], state)
        if r is None:
            return self._value_of(t["d"], state)
        if r["k"] == "use" and r["op"]["k"] == "const" and "int" in r["op"]:
            return r["op"]["int"]
        key = self.terms.rvalue(r)
        return self._eval_term(key)

    def _run(self, start, init_state):
        fn = self.fn
        work = [(start, init_state)]
        while work:
            bb, state = work.pop()
            if (bb, state) in self.visited or fn.blocks[bb]["cleanup"]:
                continue
            self.visited.add((bb, state))
            self.blocks.add(bb)
            self.state_at[bb].add(state)
            if bb in self.stop:
                continue
            out_state = self._step_state(bb, state)
            t = fn.blocks[bb]["term"]
            if t["k"] == "switch":
                # (the operand is read after the block's own statements have run)
                v = self._decide(bb, out_state)
                if v is not None:
                    tb = switch_target(t, v)
                    if (bb, tb) not in self.removed_edges:
                        self.edges.add((bb, tb))
                        work.append((tb, out_state))
                    continue
            for s in fn.succs(bb):
                if (bb, s) in self.removed_edges:
                    continue
                self.edges.add((bb, s))
                work.append((s, out_state))

    def calls(self, pred=None):
        m = callee_matcher(pred) if pred is not None else (lambda f: True)
        out = []
        for bb in sorted(self.blocks):
            t = self.fn.blocks[bb]["term"]
            if t["k"] in ("call", "tailcall") and m(t["f"]):
                out.append((bb, t))
        return out

    def returns(self):
        return [b for b in self.blocks if self.fn.blocks[b]["term"]["k"] == "return"]


def sccs(fn, blocks=None, removed=(), edges=None):
    """strongly connected components (with at least one edge) of the normal-flow CFG;
    edges: optional set of (from, to) pairs the traversal is restricted to"""
    blocks = set(blocks if blocks is not None else fn.live_blocks()) - set(removed)
    _succs = fn.succs if edges is None else (lambda v: [w for w in fn.succs(v) if (v, w) in edges])
    index = {}
    low = {}
    stack = []
    on = set()
    out = []
    counter = [0]
    import sys

    sys.setrecursionlimit(10000)

    def strong(v):
        index[v] = low[v] = counter[0]
        counter[0] += 1
        stack.append(v)
        on.add(v)
        for w in _succs(v):
            if w not in blocks:
                continue
            if w not in index:
                strong(w)
                low[v] = min(low[v], low[w])
            elif w in on:
                low[v] = min(low[v], index[w])
        if low[v] == index[v]:
            comp = []
            while True:
                w = stack.pop()
                on.discard(w)
                comp.append(w)
                if w == v:
                    break
            if len(comp) > 1 or v in _succs(v):
                out.append(set(comp))

    for v in sorted(blocks):
        if v not in index:
            strong(v)
    return out


# ----------------------------------------------------------------------------
# crate-level (shallow) call graph
# ----------------------------------------------------------------------------


def local_callees(prog, fn):
    """paths of crate-local bodies this body can enter: direct calls (resolved), closures it
    constructs, function items it passes around"""
    out = set()

    def add_op(o):
        if o["k"] == "const" and "fn" in o:
            f = o["fn"]
            for k in ("rpath", "path"):
                if f.get(k) in prog.fns:
                    out.add(f[k])

    for i in fn.live_blocks():
        b = fn.blocks[i]
        for s in b["stmts"]:
            if s["k"] != "assign":
                continue
            r = s["r"]
            if r["k"] == "agg":
                if r["kind"] == "closure" and r["closure"] in prog.fns:
                    out.add(r["closure"])
                for o in r["ops"]:
                    add_op(o)
            elif r["k"] in ("use", "cast"):
                add_op(r["op"])
        t = b["term"]
        if t["k"] in ("call", "tailcall"):
            f = t["f"]
            if "indirect" not in f:
                for k in ("rpath", "path"):
                    if f.get(k) in prog.fns:
                        out.add(f[k])
            for a in t["args"]:
                add_op(a)
    return out


def local_closure(prog, roots):
    """all crate-local bodies reachable from the given paths"""
    seen = set()
    st = list(roots)
    while st:
        p = st.pop()
        if p in seen or p not in prog.fns:
            continue
        seen.add(p)
        st.extend(local_callees(prog, prog.fns[p]))
    return seen


def all_calls(prog, pred):
    """every (fn, bb, term) call site in the crate whose callee matches"""
    m = callee_matcher(pred)
    out = []
    for p, fn in sorted(prog.fns.items()):
        for i, t in fn.calls():
            if m(t["f"]):
                out.append((fn, i, t))
    return out


def noref(t):
    """the same term with every reference / dereference node removed (auto-ref insensitive comparison)"""
    if isinstance(t, frozenset):
        return frozenset(noref(x) for x in t)
    if not isinstance(t, tuple) or not t:
        return t
    if isinstance(t[0], str):
        if t[0] in ("ref", "deref") and len(t) == 2:
            return noref(t[1])
        return (t[0],) + tuple(noref(x) if isinstance(x, (tuple, frozenset)) else x for x in t[1:])
    return tuple(noref(x) if isinstance(x, (tuple, frozenset)) else x for x in t)


class SymTerms(Terms):
    """like Terms, but named (user) locals other than parameters are opaque variables
    ("var", l, name): used for loop-carried counters"""

    def local(self, l, depth=0):
        if l > self.fn.arg_count and self.fn.locals[l].get("name"):
            # (the parameter of a spliced-in helper is bound once, to the argument: it stands for that argument, not for a variable)
            if self.fn.locals[l].get("inl") and len([d for d in self.fn.defs().get(l, []) if d[2]["k"] != "partial"]) == 1 and \
                    self.fn.defs()[l][0][2]["k"] == "use" and self.fn.blocks[self.fn.defs()[l][0][0]].get("inl") and \
                    self.fn.blocks[self.fn.defs()[l][0][0]]["term"]["k"] == "goto" and not any(s_["k"] != "assign" for s_ in self.fn.blocks[self.fn.defs()[l][0][0]]["stmts"]) and \
                    self._is_bind_block(self.fn.defs()[l][0][0]):
                return Terms.local(self, l, depth)
            # (a pattern binding -- `Some(&c) => ..`, `let (a, b) = pair` -- names a part of another value: it stands for that part)
            ds = [d for d in self.fn.defs().get(l, []) if d[2]["k"] != "partial"]
            if len(ds) == 1 and ((ds[0][2]["k"] == "use" and ds[0][2]["op"]["k"] in ("copy", "move") and ds[0][2]["op"]["p"]["proj"]) or
                                 (ds[0][2]["k"] == "ref" and ds[0][2]["p"]["proj"])):
                src_l = ds[0][2]["op"]["p"]["l"] if ds[0][2]["k"] == "use" else ds[0][2]["p"]["l"]
                # (`x = a - b` is computed into a (value, overflowed) pair first: that is arithmetic, not a binding)
                if not any(d2[2]["k"] == "bin" for d2 in self.fn.defs().get(src_l, [])):
                    return Terms.local(self, l, depth)
            return ("var", l, self.fn.locals[l]["name"])
        return Terms.local(self, l, depth)

    def _is_bind_block(self, bb):
        """the block that binds a spliced-in helper's parameters: only plain assignments of the call's arguments"""
        b = self.fn.blocks[bb]
        return bool(b.get("inl")) and all(s_["k"] == "assign" and s_["r"]["k"] == "use" and not s_["p"]["proj"] for s_ in b["stmts"]) and bool(b["stmts"])


if __name__ == "__main__":
    import sys

    prog = load(sys.argv[1])
    for name in sys.argv[2:]:
        for f in prog.find(name):
            print(fn_str(f))
            print()
