"""C05 — every redirection combination wires the child's streams to the requested objects."""
import itertools
import mirlib as M
from common import *

SPEC = {
    "explanation": (
        "Exhaustive finite-domain analysis: for each of the 5x5x5 assignments of Redirection variants to "
        "(stdin, stdout, stderr) the MIR of Popen::setup_streams is traversed following only the switch edges "
        "that agree with the assignment (and with the flow-sensitive value of the local merge selector); the set "
        "of helper calls reached, the slots (self.<stream> / child end locals) and payloads they receive, and the "
        "variant returned are compared with an oracle table written from the property statement (pipe: child gets "
        "the opposite end of the one stored in the Popen; file: the very payload; merge: the other output's child "
        "end, defaulting to the parent's matching standard stream; merge on stdin or on both outputs: LogicError). "
        "The helpers' own effects are summarised the same way (prepare_pipe under parent_writes = true/false, "
        "reuse_stream under src = None/Some). Together with the pipe-end identity of posix::pipe, the dup2 table "
        "of the child ((child_ends.k, k) guarded by fd != k, k = 0,1,2), the census of File::from_raw_fd on "
        "borrowed descriptors (an extra strong reference is forgotten so fds 0-2 are never closed), and the "
        "who-may-call census showing that dup2/chdir/setuid/... are reachable only from the fork-child region, "
        "this decides the wiring for every configuration — the quantifier the tests sample ~10 of."
        " Also: a user-supplied File/Rc<File> becomes a child end only after set_inheritable(.., true) succeeded (needed when its number already equals the target); PopenConfig::default() leaves all three streams inherited. Thorough tier, windows: same table; CreateProcess inherits handles, gets the three child ends in order with STARTF_USESTDHANDLES and no creation flags; pipes are created inheritable."
    ),
    "not_decided": "kernel semantics of dup2/pipe; descriptor-number collisions when the parent itself runs with 0/1/2 closed.",
    "trusted_base": ["rustc MIR", "POSIX pipe(2): fds[0] is the read end, fds[1] the write end", "POSIX dup2(2)",
                     "mirlib finite-domain exploration, slot addressing, provenance terms"],
    "assumptions": [],
}

VARS = ["None", "Pipe", "Merge", "File", "RcFile"]
STD = {"Input": 0, "Output": 1, "Error": 2}


def redirection_table(ctx, prog, R="R05.1", RH="R05.1h"):
    """the 125-configuration table of setup_streams and the helpers' effect summaries, on the given build"""
    ss = prog.one("popen::Popen::setup_streams")
    red = {v["name"]: v["discr"] for v in prog.adts["popen::Redirection"]["variants"]}
    if sorted(red) != sorted(VARS):
        ctx.ob(R, "redirection-variants", False, "", "Redirection variants changed: %s (oracle knows %s)" % (sorted(red), VARS))
        return
    params = {"stdin": None, "stdout": None, "stderr": None}
    for i in range(1, ss.arg_count + 1):
        if ss.local_name(i) in params:
            params[ss.local_name(i)] = i
    if None in params.values():
        ctx.missing(R, "setup_streams parameters stdin/stdout/stderr", str(params))
        return
    merge_locals = [i for i, l in enumerate(ss.locals) if "MergeKind" in l["ty"] and i > ss.arg_count and l.get("name")]
    helper = {"pipe": "popen::Popen::setup_streams::prepare_pipe", "file": "popen::Popen::setup_streams::prepare_file",
              "rc": "popen::Popen::setup_streams::prepare_rc_file", "reuse": "popen::Popen::setup_streams::reuse_stream"}
    for h in helper.values():
        if h not in prog.fns:
            ctx.missing(R, h)
            return
    T0 = M.Terms(ss)
    # the child-end locals are the ones returned, in order
    ret_locals = None
    for bb in ss.live_blocks():
        for s in ss.blocks[bb]["stmts"]:
            if s["k"] == "assign" and s["p"]["l"] == 0 and s["r"]["k"] == "agg" and s["r"].get("variant") == "Ok":
                op = s["r"]["ops"][0]
                l = T0.origin_local(op)
                d = [x for x in ss.defs().get(l, []) if x[2]["k"] == "agg" and x[2]["kind"] == "tuple"]
                if len(d) == 1:
                    ret_locals = [T0.origin_local(o) for o in d[0][2]["ops"]]
    if not ret_locals or len(ret_locals) != 3:
        ctx.missing(R, "Ok((child_stdin, child_stdout, child_stderr)) return", str(ret_locals))
        return
    child = dict(zip(("stdin", "stdout", "stderr"), ret_locals))
    ctx.ob(R, "return-order", len(set(ret_locals)) == 3, ss.loc(0), "returned child ends are three distinct locals %s" % [ss.local_name(l) for l in ret_locals])

    def slot_of_child(name):
        return ("slot", ("local", child[name], ss.local_name(child[name])), ())

    def slot_of_self(name):
        return ("slot", ("param", 1, ss.local_name(1)), (name,))

    n = 0
    bad = 0
    for cin, cout, cerr in itertools.product(VARS, VARS, VARS):
        n += 1
        assume = {("param", params["stdin"], "stdin"): red[cin], ("param", params["stdout"], "stdout"): red[cout], ("param", params["stderr"], "stderr"): red[cerr]}
        ex = M.Explore(ss, assume=assume, tracked=merge_locals, tries="ok")
        T = M.Terms(ss, blocks=ex.blocks)
        got = []
        for bb, t in ex.calls(lambda f: M.callee_str(f) in helper.values()):
            nm = M.callee_str(t["f"])
            args = []
            for a in t["args"]:
                sl = T.addr(a)
                args.append(sl if sl is not None else T.operand(a))
            got.append((nm, tuple(args), bb))
        res = [v for (_, _, v, _) in result_variants(ss, ex)]
        # oracle
        want = []
        expect_err = cin == "Merge" or (cout == "Merge" and cerr == "Merge")
        for name, cfg, pw in (("stdin", cin, 1), ("stdout", cout, 0), ("stderr", cerr, 0)):
            pl = ("param", params[name], name)
            if cfg == "Pipe":
                want.append((helper["pipe"], (("const", pw, None), slot_of_self(name), slot_of_child(name))))
            elif cfg == "File":
                want.append((helper["file"], (("field", ("downcast", pl, "File"), "0"), slot_of_child(name))))
            elif cfg == "RcFile":
                want.append((helper["rc"], (("field", ("downcast", pl, "RcFile"), "0"), slot_of_child(name))))
        std_adt = lambda v: ("agg", ("adt", "os_common::StandardStream", v), ())
        if cout == "Merge" and cerr != "Merge":
            want.append((helper["reuse"], (slot_of_child("stdout"), slot_of_child("stderr"), std_adt("Error"))))
        if cerr == "Merge" and cout != "Merge":
            want.append((helper["reuse"], (slot_of_child("stderr"), slot_of_child("stdout"), std_adt("Output"))))
        key = "cfg(%s,%s,%s)" % (cin, cout, cerr)
        if expect_err:
            ok = res and all(r == "Err" for r in res)
            # stdin=Merge must be refused before anything is created; both-Merge before any reuse
            extra = [g for g in got if g[0] == helper["reuse"]] if cin != "Merge" else got
            ok = ok and not extra
            detail = "must be refused with Err(LogicError) without %s; results reachable: %s, calls: %s" % (
                "creating anything" if cin == "Merge" else "merging", res, [g[0].split("::")[-1] for g in got])
            if ok:
                # the error value is LogicError
                for (bb, si, v, r) in result_variants(ss, ex):
                    pay = T.operand(r["ops"][0])
                    if not (pay[0] == "agg" and pay[1][:3] == ("adt", "popen::PopenError", "LogicError")):
                        ok = False
                        detail += "; error payload %s is not PopenError::LogicError" % M.term_str(pay)
        else:
            gotset = sorted((g[0], g[1]) for g in got)
            ok = gotset == sorted(want) and res == ["Ok"]
            detail = "expected calls %s ; found %s ; results %s" % (
                [(w[0].split("::")[-1], [fmt(a) for a in w[1]]) for w in sorted(want)],
                [(g[0].split("::")[-1], [fmt(a) for a in g[1]]) for g in sorted(got)], res)
            if ok:
                # a merge must come after the other output's own preparation
                for g in got:
                    if g[0] == helper["reuse"]:
                        for h in got:
                            if h[0] != helper["reuse"] and h[1][-1] == g[1][1]:
                                if g[2] not in ss.reachable(h[2]) or h[2] in ss.reachable(g[2]):
                                    ok = False
                                    detail += "; merge is resolved before the other stream is prepared"
        if not ok:
            bad += 1
        ctx.ob(R, key, ok, ss.loc(0), detail)
    ctx.floor(R, "configurations enumerated", n, 125)
    ctx.exhaustive = True

    # ---- helper summaries -------------------------------------------------
    pp = prog.fns[helper["pipe"]]
    mk = lambda t: M.strip(t)
    for pw in (1, 0):
        ex, T, stores = effects(pp, {("param", 1, pp.local_name(1)): pw})
        st = {s[0]: s[1] for s in stores}
        par = st.get(("slot", ("param", 2, pp.local_name(2)), ("*",)))
        chl = st.get(("slot", ("param", 3, pp.local_name(3)), ("*",)))

        def comp(v):
            # Some{ [Rc::new(] (make_pipe()? ).k [)] }
            if v is None or v[0] != "agg" or v[1][:3] != ("adt", "std::option::Option", "Some"):
                return None
            x = v[2][0]
            if x[0] == "call" and x[1] == "std::rc::Rc::<T>::new":
                x = x[2][0]
            if x[0] == "field" and x[2] in ("0", "1"):
                b = M.strip(x[1])
                if b[0] == "call" and b[1] in ("popen::os::make_pipe", "posix::pipe"):
                    return int(x[2])
            return None
        pc, cc = comp(par), comp(chl)
        want_p, want_c = (1, 0) if pw else (0, 1)
        ctx.ob(RH, "prepare_pipe[parent_writes=%d]" % pw, (pc, cc) == (want_p, want_c), pp.loc(0),
               "parent slot <- pipe component %s, child slot <- component %s (want %s/%s: component 0 is the read end)" % (pc, cc, want_p, want_c))
        # the parent end is made close-on-exec before it is stored (C08 shares this)
        si_calls = [(bb, t) for bb, t in ex.calls(lambda f: M.callee_str(f) == "popen::os::set_inheritable")]
        okc = False
        for bb, t in si_calls:
            a0 = M.strip(T.operand(t["args"][0]))
            a1 = const_of(T.operand(t["args"][1]))
            if a0[0] == "field" and a0[2] == str(want_p) and a1 == 0:
                okc = True
        ctx.ob(RH, "prepare_pipe[parent_writes=%d].cloexec-parent-end" % pw, okc, pp.loc(0), "set_inheritable(&parent_end, false) on component %d" % want_p)
    for hname, wrap in (("file", True), ("rc", False)):
        hf = prog.fns[helper[hname]]
        ex, T, stores = effects(hf, {})
        st = {s[0]: s[1] for s in stores}
        v = st.get(("slot", ("param", 2, hf.local_name(2)), ("*",)))
        ok = v is not None and v[0] == "agg" and v[1][:3] == ("adt", "std::option::Option", "Some")
        if ok:
            x = v[2][0]
            if wrap:
                ok = x[0] == "call" and x[1] == "std::rc::Rc::<T>::new" and x[2][0] == ("param", 1, hf.local_name(1))
            else:
                ok = x == ("param", 1, hf.local_name(1))
        ctx.ob(RH, "prepare_%s.stores-payload" % hname, ok and len(stores) == 1, hf.loc(0), "child slot <- %s (must be the very file passed in)" % (M.term_str(v) if v else None))
        # the platform-neutral set-up marks a user-supplied file inheritable before it becomes a child end: on Windows CreateProcess hands
        # over only inheritable handles (R05.7); on Unix the call leaves the descriptor flags alone (R08.1) and the stream is put in place by
        # dup2, whose copy is never close-on-exec
        Th = M.Terms(hf)
        isfile = lambda u: M.noref(M.strip(u, also=("<std::rc::Rc<T, A> as std::ops::Deref>::deref", "<std::rc::Rc<T> as std::ops::Deref>::deref", "<std::rc::Rc<T, A> as std::convert::AsRef<T>>::as_ref"))) == ("param", 1, hf.local_name(1))
        oke = try_ok_edges(hf, Th, lambda c: c[0] == "call" and c[1].endswith("set_inheritable") and const_of(c[2][1]) == 1 and isfile(c[2][0]))
        sb = [bb_ for bb_ in hf.live_blocks() for s_ in hf.blocks[bb_]["stmts"]
              if s_["k"] == "assign" and s_["p"]["l"] == 2 and s_["p"]["proj"] and s_["p"]["proj"][0]["k"] == "deref"]
        oki = bool(oke) and bool(sb) and all(dominated_by_edges(hf, b_, oke) for b_ in sb)
        ctx.ob(RH, "prepare_%s.inheritable-before-store" % hname, oki, hf.loc(0),
               "a user-supplied file becomes a child end only after set_inheritable(&file, true) succeeded (on Windows a handle that is not inheritable never reaches the child)")
    ru = prog.fns[helper["reuse"]]
    Tr = M.Terms(ru)
    # postcondition, decided separately for *src == None and *src == Some(s): dest <- Some(Rc sharing *src), and *src is written only in the
    # None case, with get_standard_stream(src_id)? -- whichever way the case distinction is written (is_none() test, match, if let)
    destp, srcp, idp = (("param", i, ru.local_name(i)) for i in (1, 2, 3))
    is_gss = lambda t: t[0] == "call" and t[1] == "popen::get_standard_stream" and tuple(M.noref(x) for x in t[2]) == (idp,)

    def case(v):
        ex_, T_, st_ = effects(ru, {}, assume_fn=lambda t: v if M.noref(t) == srcp else None)
        pos = {}
        for bb_ in sorted(ex_.blocks):
            for si_, s_ in enumerate(ru.blocks[bb_]["stmts"]):
                if s_["k"] == "assign" and s_["p"]["proj"] and s_["p"]["proj"][0]["k"] == "deref":
                    pos.setdefault((s_["p"]["l"], bb_), si_)
        some_payload = lambda x: x[2][0] if x[0] == "agg" and x[1][:3] == ("adt", "std::option::Option", "Some") and x[2] else None
        d_ = [(some_payload(s_[1]), s_[2]) for s_ in st_ if s_[0] == ("slot", destp, ("*",))]
        s__ = [(some_payload(s_[1]), s_[2]) for s_ in st_ if s_[0] == ("slot", srcp, ("*",))]
        return ex_, d_, s__, pos
    exN, dN, sN, posN = case(0)
    exS, dS, sS, posS = case(1)
    core = lambda x: M.noref(M.strip(x)) if x is not None else None
    okd = len(dS) == 1 and core(dS[0][0]) == srcp and dS[0][0][0] == "call" and "Rc" in dS[0][0][1] and "clone" in dS[0][0][1]
    why = "dest <- %s when *src is Some" % (M.term_str(dS[0][0]) if dS and dS[0][0] else None)
    if okd:
        okd = len(dN) == 1 and len(sN) == 1 and dN[0][0] is not None
        if okd:
            cd_, cs_ = core(dN[0][0]), core(sN[0][0])
            def reach_without(ex_, avoid):
                seen, st_ = set(), [0]
                while st_:
                    b_ = st_.pop()
                    if b_ in seen or b_ == avoid:
                        continue
                    seen.add(b_)
                    st_.extend(w for (v_, w) in ex_.edges if v_ == b_)
                return seen
            after = (dN[0][1] != sN[0][1] and dN[0][1] not in reach_without(exN, sN[0][1])) \
                or (dN[0][1] == sN[0][1] and posN.get((2, sN[0][1]), 1 << 30) < posN.get((1, dN[0][1]), -1))
            okd = (cd_ == srcp and after and dN[0][0][0] == "call" and "clone" in dN[0][0][1]) or (is_gss(cd_) and cd_ == cs_)
            why = "dest <- %s, *src <- %s when *src is None" % (M.term_str(dN[0][0]), M.term_str(sN[0][0]) if sN[0][0] else None)
        else:
            why = "%d stores to dest, %d to *src when *src is None" % (len(dN), len(sN))
    ctx.ob(RH, "reuse_stream.dest<-clone(src)", okd, ru.loc(0), "%s (dest must share the Rc held by *src on return)" % why)
    oks = len(sS) == 0 and len(sN) == 1 and sN[0][0] is not None and is_gss(core(sN[0][0]))
    ctx.ob(RH, "reuse_stream.src-default", oks, ru.loc(0), "src is filled with get_standard_stream(src_id) only when it is None (%d stores when Some; when None: %s)"
           % (len(sS), [M.term_str(x[0]) if x[0] else None for x in sN]))
    gss = prog.one("popen::get_standard_stream::{closure#0}")
    Tg = M.Terms(gss)
    mks = gss.calls_to(lambda f: M.callee_str(f) in ("posix::make_standard_stream", "win32::make_standard_stream"))
    okg = len(mks) == 1
    if okg:
        a = Tg.operand(mks[0][1]["args"][0])
        up = [u for u in gss.body["upvars"] if u["name"] == "which"]
        okg = len(up) == 1 and a == Tg.place(up[0]["p"])
    ctx.ob(RH, "get_standard_stream.same-id", okg, gss.loc(0), "make_standard_stream is called with the requested id")
    return ss


def run(ctx):
    prog = ctx.prog
    config_defaults(ctx, prog, 'R05.8', ['stdin', 'stdout', 'stderr'])
    ss = redirection_table(ctx, prog)
    if ss is None:
        return
    helper = None
    # ---- R05.2 pipe end identity ------------------------------------------
    pf = prog.one("posix::pipe")
    T = M.Terms(pf)
    lp = pf.calls_to(lambda f: M.callee_str(f) in ("libc::pipe", "libc::pipe2"))
    ok = len(lp) == 1
    comps = []
    if ok:
        arr = T.addr(lp[0][1]["args"][0])
        arr_t = M.strip(T.operand(lp[0][1]["args"][0]), also=("core::slice::<impl [T]>::as_mut_ptr", "core::array::<impl [T; N]>::as_mut_ptr"))
        for bb in pf.live_blocks():
            for s in pf.blocks[bb]["stmts"]:
                if s["k"] == "assign" and s["r"]["k"] == "agg" and s["r"]["kind"] == "tuple" and len(s["r"]["ops"]) == 2:
                    for o in s["r"]["ops"]:
                        v = T.operand(o)
                        if v[0] == "call" and v[1].endswith("FromRawFd>::from_raw_fd"):
                            comps.append(v[2][0])
        # operands must be fds[0], fds[1] of the array handed to pipe()
        def idx_of(t):
            if t[0] == "index" and t[2][0] == "const":
                return t[2][1]
            if t[0] == "cidx":
                return t[2]
            return None
        idx = [idx_of(c) for c in comps]
        ok = idx == [0, 1]
    ctx.ob("R05.2", "posix::pipe.(read,write)", ok, pf.loc(0), "posix::pipe must return (from_raw_fd(fds[0]), from_raw_fd(fds[1])); found indices %s" % ([M.term_str(c) for c in comps],))
    mp = prog.one("popen::os::make_pipe")
    c = [M.callee_str(t["f"]) for _, t in mp.calls()]
    ctx.ob("R05.2", "make_pipe=posix::pipe", c == ["posix::pipe"], mp.loc(0), "make_pipe delegates to %s" % c)

    # ---- R05.3 dup2 table ---------------------------------------------------
    de = prog.one("PopenOsImpl>::do_exec")
    T = M.Terms(de)
    d2 = callers_of(prog, "posix::dup2")
    ctx.floor("R05.3", "posix::dup2 call sites", len(d2), 3)
    seen = {}
    ce = None
    for i in range(1, de.arg_count + 1):
        if de.local_name(i) == "child_ends":
            ce = i
    AS_RAW = ("<std::rc::Rc<T> as std::os::fd::AsRawFd>::as_raw_fd", "<std::fs::File as std::os::fd::AsRawFd>::as_raw_fd", "std::os::fd::AsRawFd::as_raw_fd")
    for fn, bb, t in d2:
        if fn.path != de.path:
            ctx.ob("R05.3", "dup2@%s" % fn.path, False, fn.loc(bb), "posix::dup2 outside do_exec")
            continue
        a = [T.operand(x) for x in t["args"]]
        k = const_of(a[1])
        src = M.strip(a[0], also=AS_RAW)
        want = ("field", ("param", ce, "child_ends"), str(k)) if ce else None
        is_fd = a[0][0] == "call" and a[0][1] in AS_RAW
        # (`fd != k`, `!(fd == k)`, an early return under `fd == k`, a match arm ...)
        is_src_fd = lambda x: M.noref(x)[0] == "call" and M.noref(x)[1] in AS_RAW and M.strip(x, also=AS_RAW) == want
        guard = int_eq_edges_ne(de, T, is_src_fd, k)
        ok = k in (0, 1, 2) and src == want and is_fd and dominated_by_edges(de, bb, guard)
        seen[k] = seen.get(k, 0) + 1
        ctx.ob("R05.3", "dup2->%s" % k, ok, de.loc(bb), "dup2(%s, %s): source must be the fd of child_ends.%s and the call guarded by `fd != %s`" % (M.term_str(a[0]), k, k, k))
    ctx.ob("R05.3", "dup2-targets", seen == {0: 1, 1: 1, 2: 1}, de.loc(0), "dup2 targets seen: %s (need exactly 0,1,2 once each)" % seen)
    pd = prog.one("posix::dup2")
    Tp = M.Terms(pd)
    ld = pd.calls_to(lambda f: M.callee_str(f) == "libc::dup2")
    okd = len(ld) == 1 and [Tp.operand(x) for x in ld[0][1]["args"]] == [("param", 1, pd.local_name(1)), ("param", 2, pd.local_name(2))]
    ctx.ob("R05.3", "posix::dup2.arg-order", okd, pd.loc(0), "libc::dup2(oldfd, newfd) in that order")
    fm = ForkModel(prog)
    if fm.ok:
        for fn, bb, t in callers_of(prog, de.path):
            a1 = M.strip(fm.T.operand(t["args"][1]))
            ctx.ob("R05.3", "do_exec.child_ends<-setup_streams", a1[0] == "call" and a1[1] == ss.path, fn.loc(bb), "do_exec receives child ends = %s" % M.term_str(a1))

    # ---- R05.4 borrowed descriptors are never closed -------------------------
    frf = M.all_calls(prog, lambda f: M.callee_str(f).endswith("FromRawFd>::from_raw_fd") or M.callee_str(f).endswith("::from_raw_fd"))
    ctx.floor("R05.4", "from_raw_fd sites", len(frf), 3)
    for fn, bb, t in frf:
        if fn.path == "posix::pipe":
            continue  # out-slots of pipe(): owned (R05.2)
        Tf = M.Terms(fn)
        # positive control + obligation: an extra strong reference is forgotten before return
        fg = fn.calls_to(lambda f: M.callee_str(f) in ("std::mem::forget", "core::mem::forget"))
        ok = False
        for fb, ft in fg:
            v = Tf.operand(ft["args"][0])
            if v[0] == "call" and "Rc" in v[1] and "clone" in v[1]:
                inner = M.strip(v)
                if inner[0] == "call" and inner[1].endswith("from_raw_fd"):
                    ok = all(dominated_by_blocks(fn, r, [fb]) for r in fn.return_blocks())
        ctx.ob("R05.4", "borrowed-fd@%s" % fn.path, ok and fn.path == "posix::make_standard_stream", fn.loc(bb),
               "File::from_raw_fd on a descriptor the crate did not open must leak one strong reference (mem::forget(Rc::clone(..))) on every path")
        arg = Tf.operand(t["args"][0])
        ctx.ob("R05.4", "std-stream-fd=id@%s" % fn.path, M.strip(arg) in (("param", 1, fn.local_name(1)), ("discr", ("param", 1, fn.local_name(1)))), fn.loc(bb), "descriptor = %s (must be the StandardStream discriminant)" % M.term_str(arg))
    sd = {v["name"]: v["discr"] for v in prog.adts["os_common::StandardStream"]["variants"]}
    ctx.ob("R05.4", "StandardStream-discriminants", sd == STD, "", "StandardStream discriminants %s must be Input=0, Output=1, Error=2" % sd)
    # no close()/into_raw_fd that could release 0/1/2
    for fn, bb, t in extern_calls(prog, ["close", "dup", "dup3", "closefrom", "close_range"]):
        ctx.ob("R05.4", "raw-close@%s" % fn.path, False, fn.loc(bb), "raw %s call" % M.callee_str(t["f"]))

    # ---- R05.5 parent state untouched: who may call ----------------------------
    child_only = {"posix::dup2": [de.path], "posix::setuid": [de.path], "posix::setgid": [de.path], "posix::setpgid": [de.path],
                  "posix::reset_sigpipe": [de.path], "std::env::set_current_dir": [de.path], "posix::chdir": [de.path]}
    for callee, allowed in child_only.items():
        cs = sorted({f.path for f, _, _ in callers_of(prog, callee)})
        if not cs and callee in ("posix::chdir", "std::env::set_current_dir"):
            continue
        ctx.ob("R05.5", "child-only:%s" % callee, cs == allowed, "", "callers of %s: %s (allowed: %s)" % (callee, cs, allowed))
    if fm.ok:
        for fn, bb, t in callers_of(prog, "posix::_exit"):
            ctx.ob("R05.5", "_exit-in-child", fm.in_child(fn, bb), fn.loc(bb), "_exit only in the fork-child region (or in a function that only runs there)")
        for fn, bb, t in callers_of(prog, de.path):
            ctx.ob("R05.5", "do_exec-in-child", fm.in_child(fn, bb), fn.loc(bb), "do_exec only in the fork-child region")
        # raw libc state-changing calls only inside their wrappers
        for fn, bb, t in extern_calls(prog, ["dup2", "chdir", "fchdir", "setuid", "setgid", "setpgid", "setsid", "signal", "sigaction", "pthread_sigmask", "sigprocmask", "_exit", "exit", "umask", "chroot"]):
            nm = M.callee_str(t["f"]).split("::")[-1]
            wrapper = {"dup2": "posix::dup2", "setuid": "posix::setuid", "setgid": "posix::setgid", "setpgid": "posix::setpgid", "signal": "posix::reset_sigpipe",
                       "pthread_sigmask": "posix::reset_sigpipe", "_exit": "posix::_exit", "chdir": "posix::chdir"}.get(nm)
            ctx.ob("R05.5", "raw:%s@%s" % (nm, fn.path), wrapper == fn.path, fn.loc(bb), "libc::%s called in %s (allowed only in %s)" % (nm, fn.path, wrapper))
        # ---- R05.6 refusal precedes process creation -----------------------------
        ok_edges = try_ok_edges(fm.fn, fm.T, lambda c: c[1] == ss.path)
        ctx.ob("R05.6", "fork-after-setup_streams-ok", dominated_by_edges(fm.fn, fm.fork_bb, ok_edges), fm.fn.loc(fm.fork_bb), "fork() must be dominated by the success edge of setup_streams(..)?")
    else:
        ctx.ob("R05.5", "fork-model", False, "", "no unique fork site")


def fmt(a):
    if isinstance(a, tuple) and a and a[0] == "slot":
        return "%s%s" % (a[1][2], "".join("." + x for x in a[2]))
    return M.term_str(a)


def run_thorough(ctx):
    # whole-program who-may-call for the calls that alter process-wide state: only the child-side wrappers
    deep_census(ctx, "R05.5", ["dup2", "dup3", "chdir", "fchdir", "setuid", "setgid", "setpgid", "setsid", "_exit", "exit", "umask", "chroot", "setresuid", "setresgid", "seteuid", "setegid"],
                {"dup2": ["posix::dup2"], "chdir": ["posix::chdir"], "setuid": ["posix::setuid"], "setgid": ["posix::setgid"], "setpgid": ["posix::setpgid"], "_exit": ["posix::_exit"]})
    # descriptors are closed only by their RAII owner
    deep_census(ctx, "R05.4", ["close", "closefrom", "close_range"], {"close": ["<std::os::fd::OwnedFd as std::ops::Drop>::drop"]})
    import winrules
    winrules.c05_table(ctx)
