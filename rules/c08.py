"""C08 — no pipe end leaks into a child: end-of-file always propagates."""
import mirlib as M
from common import *

SPEC = {
    "explanation": (
        "Close-on-exec discipline decided on the resolved MIR for every pipe-creation site in the crate (census with "
        "floor 3: the status pipe in os_start, prepare_pipe, Pipeline::setup_communicate): each component is "
        "classified by where it flows — parent-kept (stored into an Option<File> slot of the Popen, handed to "
        "communicate::communicate, or used by the parent after fork) or child-given (wrapped in Rc for the child, "
        "handed to Pipeline::stderr_to); a parent-kept end must pass `set_inheritable(&end, false)?` on an edge that "
        "dominates its escape and every later call that can reach fork; set_inheritable(_, false) itself must reach "
        "fcntl(F_SETFD, old | FD_CLOEXEC) on the same descriptor. Child ends cannot be stored in the Popen at all "
        "(type-level: its fields hold Option<File>, child ends are Rc<File>) and are dropped in the parent before "
        "the status read. The pipeline hand-over moves the previous stage's read end out (Option::take) into the "
        "next stage. Atomicity of creation w.r.t. forks on other threads (pipe2(O_CLOEXEC)) is checked too."
        " Thorough tier, windows: set_inheritable(f, b) sets HANDLE_FLAG_INHERIT to exactly b."
        " R08.5: after each dup2 in the child the source descriptor is marked close-on-exec (0..2 excepted), so a shared file is not inherited twice (reported D14)."
        " R08.2 accepts pipe2(O_CLOEXEC) (the D7 repair): pipes are born close-on-exec where the system can."
    ),
    "not_decided": "the contents of real descriptor tables; EOF timing; descriptors the *caller* leaves inheritable.",
    "trusted_base": ["rustc MIR", "POSIX: FD_CLOEXEC descriptors are closed by exec; pipe() returns inheritable descriptors",
                     "mirlib provenance terms, dominance-by-removal, call-graph reachability"],
    "assumptions": [],
}

PIPE_MAKERS = ("posix::pipe", "popen::os::make_pipe")
NEUTRAL = ("std::mem::drop", "core::mem::drop", "<std::result::Result<T, E> as std::ops::Try>::branch")


def run(ctx):
    prog = ctx.prog
    fm = ForkModel(prog)
    if not fm.ok:
        ctx.ob("R08.0", "fork-model", False, "", "no unique fork site")
        return
    can_fork = {p for p in prog.fns if "posix::fork" in M.local_closure(prog, [p])}

    # ---- R08.1 per creation site ------------------------------------------------
    sites = [(fn, bb, t) for fn, bb, t in M.all_calls(prog, lambda f: M.callee_str(f) in PIPE_MAKERS) if fn.path not in PIPE_MAKERS]
    ctx.floor("R08.1", "pipe creation sites", len(sites), 3)
    for fn, pbb, pt in sites:
        T = M.Terms(fn)

        def comp_of(t):
            """which components (set of 0/1) of this site's pipe does the term denote"""
            out = set()
            for a in M.alts(M.noref(t)):
                if a[0] == "field" and a[2] in ("0", "1"):
                    b = M.strip(a[1])
                    if b[0] == "call" and b[1] in PIPE_MAKERS and b[3] == pbb:
                        out.add(int(a[2]))
                    elif b[0] == "agg" and b[1] == "tuple":
                        # (write, read) / (read, write) selector tuples
                        sub = comp_of(b[2][int(a[2])]) if int(a[2]) < len(b[2]) else set()
                        out |= sub
            return out

        # cloexec marks: set_inheritable(&X, false) and the edges on which it succeeded
        marks = []
        for bb, t in fn.calls_to(lambda f: M.callee_str(f) == "popen::os::set_inheritable"):
            a = [T.operand(x) for x in t["args"]]
            cs = comp_of(a[0])
            if cs and const_of(a[1]) == 0:
                marks.append((cs, T.operand(t["args"][0]), try_ok_edges(fn, T, lambda c: c[1] == "popen::os::set_inheritable" and c[3] == bb)))
        # escapes
        escapes = []  # (component set, kind, bb, description, term)
        for bb, t in fn.calls():
            nm = M.callee_str(t["f"])
            if nm in NEUTRAL or nm == "popen::os::set_inheritable":
                continue
            for i, x in enumerate(t["args"]):
                term = T.operand(x)
                cs = set()
                holder = term
                if term[0] == "agg" and term[2]:
                    for o in term[2]:
                        cs |= comp_of(o)
                cs |= comp_of(term)
                if not cs:
                    continue
                if nm in ("builder::pipeline::Pipeline::stderr_to", "std::rc::Rc::<T>::new"):
                    kind = "child"
                elif nm in ("communicate::communicate",):
                    kind = "parent"
                elif "as std::io::Read>::read" in nm or "Write::write" in nm:
                    kind = "parent-use" if (fn.path == fm.fn.path and bb in fm.parent_region and bb not in fm.child_region) else "child-use"
                else:
                    kind = "unknown:" + nm
                escapes.append((cs, kind, bb, nm, term))
        for bb in sorted(fn.live_blocks()):
            for si, s in enumerate(fn.blocks[bb]["stmts"]):
                if s["k"] == "assign" and s["p"]["proj"] and s["p"]["proj"][0]["k"] == "deref":
                    v = T.rvalue(s["r"])
                    cs = set()
                    if v[0] == "agg" and v[2]:
                        for o in v[2]:
                            cs |= comp_of(o)
                    if cs:
                        ty = s["p"]["ty"]
                        kind = "parent" if ty.startswith("std::option::Option<std::fs::File") else ("child" if "Rc<std::fs::File" in ty else "unknown:store " + ty)
                        escapes.append((cs, kind, bb, "store into " + M.place_str(s["p"], fn), v))
        site_key = fn.path.split("::")[-1]
        if fn.path == fm.fn.path:
            # the status pipe: both ends must be close-on-exec before fork (the child's copy of the
            # write end must vanish at exec, the read end must never reach the program)
            for k in (0, 1):
                edges = [e for cs, _, es in marks if cs == {k} for e in es]
                ctx.ob("R08.1", "%s.status-pipe.%d" % (site_key, k), dominated_by_edges(fn, fm.fork_bb, edges), fn.loc(pbb),
                       "component %d of the launch-status pipe must pass set_inheritable(_, false)? before fork" % k)
            continue
        fork_calls = [bb for bb, t in fn.calls() if any(n in can_fork for n in M.callee_names(t["f"])) and bb in fn.reachable(pbb)]
        kept = set()
        for cs, kind, bb, desc, term in escapes:
            if kind.startswith("unknown"):
                ctx.ob("R08.1", "%s.unclassified:%s" % (site_key, desc), False, fn.loc(bb), "pipe component %s flows into %s — cannot classify as parent-kept or child-given" % (sorted(cs), desc))
            if kind in ("parent", "parent-use"):
                kept |= cs
                # the mark must be on the same value and dominate the escape
                edges = [e for mcs, mterm, es in marks if mcs & cs for e in es]
                same_value = any(M.noref(mterm) in [M.noref(x) for x in ([term] + list(term[2]) if term[0] == "agg" else [term])] for mcs, mterm, es in marks if mcs & cs)
                ok = dominated_by_edges(fn, bb, edges) and same_value
                ctx.ob("R08.1", "%s.parent-kept->%s" % (site_key, desc.split("::")[-1].split(" ")[0]), ok, fn.loc(bb),
                       "pipe end (component %s) stays with the parent (%s) but is not made close-on-exec first: every child forked afterwards inherits it and EOF never propagates" % (sorted(cs), desc))
                for fb in fork_calls:
                    ctx.ob("R08.1", "%s.cloexec-before-spawn" % site_key, dominated_by_edges(fn, fb, edges), fn.loc(fb),
                           "a parent-kept pipe end (component %s) must be close-on-exec before %s can fork" % (sorted(cs), M.callee_str(fn.blocks[fb]["term"]["f"])))
        ctx.ob("R08.1", "%s.has-parent-end" % site_key, bool(kept), fn.loc(pbb), "site classified: parent-kept components %s, escapes %s" % (sorted(kept), [(sorted(c), k) for c, k, _, _, _ in escapes]))

    # set_inheritable(_, false) really sets FD_CLOEXEC
    si = prog.one("popen::os::set_inheritable")
    ex = M.Explore(si, assume={("param", 2, si.local_name(2)): 0}, tries="ok")
    T = M.Terms(si, blocks=ex.blocks)
    fc = [(bb, t) for bb, t in ex.calls(lambda f: M.callee_str(f) == "posix::fcntl")]
    getfd = [(bb, t) for bb, t in fc if T.operand(t["args"][1])[0] == "const" and T.operand(t["args"][1])[2] in ("posix::F_GETFD", "libc::F_GETFD") and T.operand(t["args"][1])[1] == 1]
    setfd = [(bb, t) for bb, t in fc if T.operand(t["args"][1])[0] == "const" and T.operand(t["args"][1])[2] in ("posix::F_SETFD", "libc::F_SETFD") and T.operand(t["args"][1])[1] == 2]
    ok = len(getfd) == 1 and len(setfd) == 1 and len(fc) == 2
    detail = "expected fcntl(F_GETFD) then fcntl(F_SETFD, old | FD_CLOEXEC); found %d fcntl calls" % len(fc)
    if ok:
        g = [T.operand(x) for x in getfd[0][1]["args"]]
        s_ = [T.operand(x) for x in setfd[0][1]["args"]]
        fd_ok = g[0] == s_[0] and M.strip(g[0], also=("<std::fs::File as std::os::fd::AsRawFd>::as_raw_fd",)) == ("param", 1, si.local_name(1))

        def is_old(x):
            x = M.strip(x)
            return x[0] == "call" and x[1] == "posix::fcntl" and x[3] == getfd[0][0]

        def is_new(x):
            return x[0] == "bin" and x[1] == "BitOr" and any(is_old(y) for y in x[2:4]) and any(y[0] == "const" and y[2] in ("posix::FD_CLOEXEC", "libc::FD_CLOEXEC") and y[1] == 1 for y in x[2:4])
        arg = s_[2]
        arg_ok = arg[0] == "agg" and arg[1][:3] == ("adt", "std::option::Option", "Some") and is_new(arg[2][0])
        # the SETFD may be skipped only when the flag is already set (`new == old`)
        same_t, same_f = cond_edges(si, T, lambda c: (1 if c[1] == "Eq" else -1) if (c[0] == "bin" and c[1] in ("Eq", "Ne") and ((is_new(c[2]) and is_old(c[3])) or (is_new(c[3]) and is_old(c[2])))) else 0)
        oks = [b for (b, si_, v, r) in result_variants(si, ex) if v == "Ok"]
        reach_ok = bool(oks) and all(b not in si.reachable(0, removed_blocks=[setfd[0][0]], removed_edges=set(same_t)) or b not in ex.blocks for b in oks)
        # ... evaluated inside the explored (inheritable = false) sub-graph
        sub = set()
        st = [0]
        while st:
            x = st.pop()
            if x in sub or x == setfd[0][0] or x not in ex.blocks:
                continue
            sub.add(x)
            for y in si.succs(x):
                if (x, y) in ex.edges and (x, y) not in set(same_t):
                    st.append(y)
        reach_ok = bool(oks) and not any(b in sub for b in oks)
        ok = fd_ok and arg_ok and setfd[0][0] in si.reachable(getfd[0][0]) and reach_ok
        detail = "fd same & from f: %s, argument old|FD_CLOEXEC: %s, every Ok path sets the flag (or found it set): %s" % (fd_ok, arg_ok, reach_ok)
    ctx.ob("R08.1", "set_inheritable(false)=F_SETFD(old|FD_CLOEXEC)", ok, si.loc(0), detail)
    # set_inheritable(_, true) must leave the descriptor's flags alone: prepare_file / prepare_rc_file call it on files the
    # caller may keep open (another Rc clone, or the pipe end of another Popen) — clearing FD_CLOEXEC there hands that
    # descriptor to every child spawned later
    ex1 = M.Explore(si, assume={("param", 2, si.local_name(2)): 1}, tries="ok")
    T1 = M.Terms(si, blocks=ex1.blocks)
    w = [M.term_str(T1.operand(t["args"][1])) for bb, t in ex1.calls(lambda f: M.callee_str(f) == "posix::fcntl") if const_of(T1.operand(t["args"][1])) != 1]
    ctx.ob("R08.1", "set_inheritable(true).leaves-flags-alone", not w, si.loc(0),
           "with inheritable = true no descriptor flag may be written (found fcntl %s): the same open file can stay with the parent (RcFile clone, another Popen's pipe end) "
           "and would then be inherited by every later child" % w)
    pfc = prog.one("posix::fcntl")
    Tf = M.Terms(pfc)
    lf = pfc.calls_to(lambda f: M.callee_str(f) == "libc::fcntl")
    okf = len(lf) == 2
    for bb, t in lf:
        a = [Tf.operand(x) for x in t["args"]]
        okf = okf and a[0] == ("param", 1, pfc.local_name(1)) and a[1] == ("param", 2, pfc.local_name(2))
        if len(a) == 3:
            okf = okf and M.strip(a[2]) == ("param", 3, pfc.local_name(3))
    ctx.ob("R08.1", "posix::fcntl.passes-through", okf, pfc.loc(0), "posix::fcntl hands (fd, cmd, arg) to libc::fcntl unchanged")

    # ---- R08.2 atomic creation ------------------------------------------------------
    pf = prog.one("posix::pipe")
    Tp = M.Terms(pf)
    ext = [(bb, t) for bb, t in pf.calls() if M.callee_str(t["f"]).startswith("libc::")]
    atomic = False
    for bb, t in ext:
        if M.callee_str(t["f"]) == "libc::pipe2":
            fl = const_of(Tp.operand(t["args"][1]))
            atomic = fl is not None and (fl & 0o2000000) != 0
    ctx.ob("R08.2", "posix::pipe|libc::pipe", atomic, pf.loc(ext[0][0] if ext else 0),
           "pipes are created with plain pipe() and made close-on-exec by a later fcntl: a fork+exec on another thread inside that window inherits both ends "
           "(needs pipe2(O_CLOEXEC); found %s)" % [M.callee_str(t["f"]) for _, t in ext])

    # ---- R08.3 child ends are scoped --------------------------------------------------
    adt = prog.adts["popen::Popen"]
    ftys = {f["name"]: f["ty"] for f in adt["variants"][0]["fields"]}
    ok = all("Rc<" not in ty for ty in ftys.values()) and sorted(ftys) == ["child_state", "detached", "stderr", "stdin", "stdout"]
    ctx.ob("R08.3", "Popen-cannot-hold-child-ends", ok, "%s:%d" % (adt["file"], adt["line"]), "Popen fields %s must not be able to hold an Rc<File> child end" % ftys)
    cs = prog.adts["popen::ChildState"]
    okc = all("File" not in f["ty"] for v in cs["variants"] for f in v["fields"])
    ctx.ob("R08.3", "ChildState-holds-no-file", okc, "", "ChildState fields hold no File")
    os_start, T = fm.fn, fm.T
    # drop of the child_ends local on the parent path dominates the status read
    ce_locals = [i for i, l in enumerate(os_start.locals) if l.get("name") == "child_ends"]
    reads = [bb for bb, t in os_start.calls() if M.callee_str(t["f"]).endswith("as std::io::Read>::read") and bb in fm.parent_region]
    drops = [bb for bb in fm.parent_region if bb not in fm.child_region and os_start.blocks[bb]["term"]["k"] == "drop"
             and not os_start.blocks[bb]["term"]["p"]["proj"] and os_start.blocks[bb]["term"]["p"]["l"] in ce_locals and not _flagged(os_start, bb)]
    ctx.ob("R08.3", "child-ends-dropped-before-status-read", bool(ce_locals) and bool(reads) and all(dominated_by_blocks(os_start, r, drops, start=fm.parent_entry) for r in reads), os_start.loc(reads[0] if reads else 0),
           "the parent must drop its copies of the child ends before it waits on the status pipe (drops at %s)" % sorted(drops))
    # ---- R08.4 pipeline hand-over moves the read end -------------------------------------
    pp = prog.one(pipeline_spawner(prog) or "builder::pipeline::Pipeline::popen")
    Tq = M.Terms(pp)
    sc = pp.calls_to(lambda f: M.callee_str(f) == "builder::exec::Exec::stdin")
    loops = M.sccs(pp)
    inloop = [(bb, t) for bb, t in sc if any(bb in l for l in loops)]
    ctx.ob("R08.4", "stage-stdin.site", len(inloop) == 1, pp.loc(0), "one Exec::stdin call inside the spawn loop (found %d)" % len(inloop))
    for bb, t in inloop:
        a = Tq.operand(t["args"][1])
        x = a
        okm = x[0] == "call" and x[1] == "std::option::Option::<T>::unwrap" and x[2][0][0] == "call" and x[2][0][1] == "std::option::Option::<T>::take"
        src = M.noref(x[2][0][2][0]) if okm else None
        okm = okm and src[0] == "field" and src[2] == "stdout" and M.strip(src[1])[0] == "call" and ("index" in M.strip(src[1])[1].lower() or M.strip(src[1])[1].endswith("::last_mut"))
        ctx.ob("R08.4", "stage-stdin=take(prev.stdout)", okm, pp.loc(bb), "stage stdin = %s (must be prev.stdout.take().unwrap(): the parent keeps no copy)" % M.term_str(a)[:160])

    # ---- R08.5 the child keeps no second copy of a stream's source descriptor across exec --------------------------------------
    # dup2(src, k) leaves src open.  Dropping the child's Rc<File> closes it only if that was the last reference — not when the file
    # is shared (the stderr sink of a pipeline, an RcFile the caller still holds, Merge): the new program then owns the pipe's write end
    # twice, and closing stream k no longer gives the reader end-of-file.  So: after each dup2 the source is marked close-on-exec
    # (unless it is itself one of the descriptors 0..2, which later dup2 calls and the program may rely on).
    de = prog.one("PopenOsImpl>::do_exec")
    Tde = M.Terms(de)
    d2 = de.calls_to(lambda f: M.callee_str(f) == "posix::dup2")
    ctx.floor("R08.5", "dup2 sites in do_exec", len(d2), 3)

    def marks_cloexec(bb_, t_):
        """does this call mark its File argument close-on-exec?  returns the stream term, or None"""
        nm = M.callee_str(t_["f"])
        a_ = [Tde.operand(x) for x in t_["args"]]
        if nm == "popen::os::set_inheritable" and len(a_) == 2 and const_of(a_[1]) == 0:
            return a_[0]
        g = prog.fns.get(nm)
        if g is not None and len(a_) == 1:
            Tg = M.Terms(g)
            inner = [(b2, t2) for b2, t2 in g.calls() if M.callee_str(t2["f"]) == "popen::os::set_inheritable"]
            if len(inner) == 1:
                ia = [Tg.operand(x) for x in inner[0][1]["args"]]
                isp = M.noref(M.strip(ia[0], also=("<std::rc::Rc<T, A> as std::ops::Deref>::deref", "<std::rc::Rc<T> as std::ops::Deref>::deref"))) == ("param", 1, g.local_name(1))
                # the only admissible way to skip the marking inside the helper: the descriptor is one of 0..2
                low = int_gt_edges(g, Tg, lambda u: M.contains(u, lambda w: w[0] == "call" and w[1].endswith("as_raw_fd")) and not M.contains(u, lambda w: w[0] == "bin"), 2)
                oke = try_ok_edges(g, Tg, lambda c: c[1] == "popen::os::set_inheritable")
                rets_ok = all(dominated_by_edges(g, r_, oke + [e_ for e_ in _neg_edges(g, Tg, low)]) for r_ in _ok_returns(g))
                if isp and const_of(ia[1]) == 0 and (not low or dominated_by_edges(g, inner[0][0], low)) and rets_ok:
                    return a_[0]
        return None
    stream_of = lambda t_: M.noref(M.strip(t_, also=("<std::rc::Rc<T, A> as std::ops::Deref>::deref", "<std::rc::Rc<T> as std::ops::Deref>::deref", "<std::rc::Rc<T> as std::os::fd::AsRawFd>::as_raw_fd", "<std::rc::Rc<T, A> as std::os::fd::AsRawFd>::as_raw_fd", "<std::fs::File as std::os::fd::AsRawFd>::as_raw_fd")))
    marks = [(bb_, stream_of(m_)) for bb_, t_ in de.calls() for m_ in [marks_cloexec(bb_, t_)] if m_ is not None]
    execs = [bb_ for bb_, t_ in de.calls() if any(Tde.operand(a_) == ("param", 1, de.local_name(1)) or M.noref(Tde.operand(a_)) == ("param", 1, de.local_name(1)) for a_ in t_["args"][:1]) and "call_once" in M.callee_str(t_["f"])]
    for bb_, t_ in d2:
        src = stream_of(Tde.operand(t_["args"][0]))
        k = const_of(Tde.operand(t_["args"][1]))
        oke = try_ok_edges(de, Tde, lambda c, bb_=bb_: c[1] == "posix::dup2" and c[3] == bb_)
        mine = [mb for mb, ms in marks if ms == src and oke and dominated_by_edges(de, mb, oke)]
        # the marking may be skipped only for a source that is itself one of the descriptors 0..2 (the false side of `fd > 2`)
        is_src_fd = lambda x: M.noref(x)[0] == "call" and "as_raw_fd" in M.noref(x)[1] and stream_of(x) == src
        low_skip = _neg_edges(de, Tde, int_gt_edges(de, Tde, is_src_fd, 2))
        def passes_mark_or_low(r_):
            if not (r_ in de.reachable(oke[0][1])):
                return True
            blocked = de.reachable(oke[0][1], removed_blocks=set(mine), removed_edges=set(low_skip))
            return r_ not in blocked
        ok = bool(mine) and bool(oke) and all(passes_mark_or_low(r_) for r_ in _ok_returns(de) + execs)
        ctx.ob("R08.5", "dup2->%s.source-closed-on-exec" % k, ok, de.loc(bb_),
               "after dup2(src, %s) the source descriptor must be marked close-on-exec (set_inheritable(&src, false), possibly skipping descriptors 0..2) before the "
               "program is executed: a shared file (pipeline stderr sink, RcFile) is not closed by dropping the child's reference, so the new program would hold "
               "a second copy of the pipe's write end and its reader would not see end-of-file when stream %s is closed" % (k, k))




def _flagged(fn, bb):
    for p in fn.preds().get(bb, []):
        t = fn.blocks[p]["term"]
        if t["k"] == "switch" and t["d"]["k"] in ("copy", "move") and fn.locals[t["d"]["p"]["l"]]["ty"] == "bool" and not fn.locals[t["d"]["p"]["l"]].get("name"):
            return True
    return False

def _ok_returns(fn):
    return [bb for bb in fn.live_blocks() for s in fn.blocks[bb]["stmts"] if s["k"] == "assign" and s["p"]["l"] == 0 and not s["p"]["proj"] and s["r"].get("variant") == "Ok"]


def _neg_edges(fn, T, pos_edges):
    """the sibling (false) edges of the given true edges"""
    out = []
    for (b, tgt) in pos_edges:
        for s_ in fn.succs(b):
            if s_ != tgt:
                out.append((b, s_))
    return out


def run_thorough(ctx):
    deep_census(ctx, "R08.2", ["pipe", "pipe2", "socketpair"], {"pipe": ["posix::pipe"], "pipe2": ["posix::pipe"]})
    deep_census(ctx, "R08.1", ["fcntl"], {"fcntl": ["posix::fcntl", "std::os::fd::BorrowedFd::<'_>::try_clone_to_owned", "std::sys::fs::unix::debug_assert_fd_is_open", "std::sys::fs::unix::debug_path_fd::get_mode"]})
    # the cfg(windows) sibling of set_inheritable
    import winrules
    winrules.c08_set_inheritable(ctx)
