"""C11 — poll never blocks; wait_timeout is accurate and does not busy-wait."""
import mirlib as M
from common import *

SPEC = {
    "explanation": (
        "Static decision on the resolved MIR of os_wait_timeout / Popen::waitpid / Popen::poll: (a) context-sensitive "
        "constant propagation of the `block` flag shows that every waitpid reachable from poll/wait_timeout carries "
        "WNOHANG; (b) cycle cover: after deleting the blocks that call thread::sleep, and separately the blocks that "
        "branch on `Instant::now() >= deadline` with an exit to Ok(None), the loop has no cycle left — every "
        "iteration sleeps and consults the clock; (c) Ok(None) is returned only under that comparison, the deadline "
        "being Instant::now() + dur computed before the loop; (d) the sleep argument is min(delay, deadline - now) "
        "with delay drawn from constants <= 100 ms; (e) poll() is wait_timeout(0) with the error absorbed by "
        "unwrap_or, so it neither blocks nor panics on Err; (f) with a known status no clock/OS call is reachable."
        " Also: the back-off delay is inductively positive (no spin), and an Option not built in the function (e.g. self.exit_status()) may be returned only under dur.is_zero()."
        " Thorough tier, windows: the Duration -> ms conversion for WaitForSingleObject rounds up (reported D20)."
    ),
    "not_decided": "the latency numbers themselves (\"within a tenth of a second\", \"no later than d plus slack\") — timing; "
                   "Instant + Duration overflow for absurd d.",
    "trusted_base": ["rustc MIR", "waitpid(2) with WNOHANG never blocks", "std::cmp::min, Duration arithmetic",
                     "mirlib cycle cover (SCC after block removal), dominance-by-removal, provenance"],
    "assumptions": [],
}


def run(ctx):
    prog = ctx.prog
    _CONSTS.clear()
    _CONSTS.update(prog.consts)
    wp = prog.one("PopenOsImpl>::waitpid")
    owt = prog.one("os_wait_timeout")
    ow = prog.one("os_wait")

    # ---- R11.1 WNOHANG on the timeout path -----------------------------
    callers = M.all_calls(prog, lambda f: M.callee_str(f) == wp.path)
    ctx.floor("R11.1", "callers of Popen::waitpid", len(callers), 2)
    for fn, bb, t in callers:
        T = M.Terms(fn)
        v = const_of(T.operand(t["args"][1]))
        if fn.path == owt.path:
            ctx.ob("R11.1", "os_wait_timeout.block=false", v == 0, fn.loc(bb), "os_wait_timeout calls waitpid(block=%s); must be the constant false" % v)
        elif fn.path == ow.path:
            ctx.ob("R11.1", "os_wait.block=true", v == 1, fn.loc(bb), "os_wait calls waitpid(block=%s); must be the constant true" % v)
        else:
            ctx.ob("R11.1", "waitpid-caller@%s" % fn.path, False, fn.loc(bb), "unexpected caller of Popen::waitpid: %s" % fn.path)
    T = M.Terms(wp)
    for blockval, want_name, want_val in ((0, ("posix::WNOHANG", "libc::WNOHANG"), 1), (1, (None,), 0)):
        pw = wp.calls_to(lambda f: M.callee_str(f) == "posix::waitpid")
        if len(pw) != 1:
            ctx.ob("R11.1", "waitpid.one-site", False, wp.loc(0), "expected exactly one posix::waitpid site, found %d" % len(pw))
            break
        bb, t = pw[0]
        flag = t["args"][1]
        fl = flag["p"]["l"] if flag["k"] in ("copy", "move") and not flag["p"]["proj"] else None
        # the constant may travel through named locals / temporaries: track every local of the copy chain
        chain = []
        cur = fl
        while cur is not None and cur not in chain:
            chain.append(cur)
            d = [x for x in wp.defs().get(cur, []) if x[2]["k"] != "partial"]
            nxt = None
            if len(d) == 1 and d[0][2]["k"] == "use" and d[0][2]["op"]["k"] in ("copy", "move") and not d[0][2]["op"]["p"]["proj"]:
                nxt = d[0][2]["op"]["p"]["l"]
            cur = nxt
        ex = M.Explore(wp, assume={("param", 2, wp.local_name(2)): blockval, self_field("child_state"): CHILD_STATE["Running"]},
                       tracked=chain)
        vals = set()
        names = set()
        if fl is None:
            tt = T.operand(flag)
            vals.add(const_of(tt))
            names.add(tt[2] if tt[0] == "const" else "?")
        else:
            for st in ex.state_at.get(bb, ()):
                # value of the operand at the call itself: after the statements of the call's own block
                vals.add(dict(ex._step_state(bb, st)).get(fl))
            for b in ex.blocks:
                for s in wp.blocks[b]["stmts"]:
                    if s["k"] == "assign" and not s["p"]["proj"] and s["p"]["l"] in chain and s["r"]["k"] == "use" and s["r"]["op"]["k"] == "const":
                        names.add(s["r"]["op"].get("name"))
        ok = vals == {want_val} and names <= set(want_name) and len(names) == 1
        ctx.ob("R11.1", "flags[block=%d]" % blockval, ok, wp.loc(bb),
               "with block=%s the flags reaching posix::waitpid are %s (constants %s); must be %s" %
               (bool(blockval), sorted(vals, key=str), sorted(map(str, names)), "WNOHANG" if blockval == 0 else "0"))
    # poll's closure never reaches the blocking twin
    reach = M.local_closure(prog, ["popen::Popen::poll"])
    ctx.ob("R11.1", "poll-avoids-os_wait", ow.path not in reach and "popen::Popen::wait" not in reach and owt.path in reach, prog.fn("popen::Popen::poll").loc(0),
           "Popen::poll must reach os_wait_timeout and never os_wait/wait")
    wt = prog.fn("popen::Popen::wait_timeout")
    cc = [M.callee_str(t["f"]) for _, t in wt.calls()]
    ctx.ob("R11.1", "wait_timeout->os_wait_timeout", cc == [owt.path], wt.loc(0), "wait_timeout delegates to %s" % cc)

    # ---- R11.2 cycle cover ----------------------------------------------
    T = M.Terms(owt)
    loops = M.sccs(owt)
    ctx.floor("R11.2", "loops in os_wait_timeout", len(loops), 1)
    sleep_blocks = {bb for bb, t in owt.calls_to(lambda f: M.callee_str(f) == "std::thread::sleep")}
    rem = M.sccs(owt, removed=sleep_blocks)
    ctx.ob("R11.2", "every-iteration-sleeps", bool(sleep_blocks) and not rem, owt.loc(min(sleep_blocks) if sleep_blocks else 0),
           "after removing the thread::sleep blocks %s the loop still has a cycle %s (busy-wait)" % (sorted(sleep_blocks), [sorted(c) for c in rem]))

    def is_deadline_cmp(t):
        # ge(&now, &deadline) with now = Instant::now() and deadline = Instant::now() + dur
        if t[0] != "call" or not (t[1].endswith("PartialOrd::ge") or t[1].endswith("::ge")):
            return False
        a, b = M.strip(t[2][0]), M.strip(t[2][1])
        return a[0] == "call" and a[1] == "std::time::Instant::now" and is_deadline(b)

    def is_deadline(b):
        return (b[0] == "call" and b[1].startswith("<std::time::Instant as std::ops::Add<std::time::Duration>>::add")
                and M.strip(b[2][0])[0] == "call" and M.strip(b[2][0])[1] == "std::time::Instant::now"
                and b[2][1] == ("param", 2, owt.local_name(2)))

    true_edges = bool_edges(owt, T, is_deadline_cmp, True)
    chk_blocks = {bb for bb, _ in true_edges}
    loop_blocks = set().union(*loops) if loops else set()
    exits = [e for e in true_edges if e[1] not in loop_blocks]
    rem = M.sccs(owt, removed=chk_blocks)
    ctx.ob("R11.2", "every-iteration-checks-deadline", bool(exits) and not rem, owt.loc(min(chk_blocks) if chk_blocks else 0),
           "after removing the `now >= deadline` test blocks %s a cycle remains %s, or the test has no loop exit" % (sorted(chk_blocks), [sorted(c) for c in rem]))
    # every iteration also polls the child
    wp_blocks = {bb for bb, t in owt.calls_to(lambda f: M.callee_str(f) == wp.path)}
    ctx.ob("R11.2", "every-iteration-polls-child", bool(wp_blocks) and not M.sccs(owt, removed=wp_blocks), owt.loc(0), "each iteration must call waitpid(WNOHANG)")

    # ---- R11.3 Ok(None) only when the deadline has passed; deadline computed once ----
    none_blocks = []
    for bb in sorted(owt.live_blocks()):
        for si, s in enumerate(owt.blocks[bb]["stmts"]):
            if s["k"] == "assign" and s["p"]["l"] == 0 and not s["p"]["proj"] and s["r"]["k"] == "agg" and s["r"]["variant"] == "Ok":
                pay = T.operand(s["r"]["ops"][0])
                if pay == ("agg", ("adt", "std::option::Option", "None"), ()):
                    none_blocks.append((bb, si))
    # any other payload of Ok(..) — a computed Option such as self.exit_status() — may be None while the child runs: that is 'still running'
    # reported without the clock having been consulted, admissible only when the requested duration is exactly zero
    durp = ("param", 2, owt.local_name(2))
    zero_e = bool_edges(owt, T, lambda c: c[0] == "call" and c[1] == "std::time::Duration::is_zero" and M.noref(c[2][0]) == durp, True)
    for bb in sorted(owt.live_blocks()):
        for si, s in enumerate(owt.blocks[bb]["stmts"]):
            if s["k"] == "assign" and s["p"]["l"] == 0 and not s["p"]["proj"] and s["r"]["k"] == "agg" and s["r"]["variant"] == "Ok":
                pay = T.operand(s["r"]["ops"][0])
                lit = pay[0] == "agg" and pay[1][:2] == ("adt", "std::option::Option")
                if not lit:
                    # an Option that was tested for Some on the way here is a status, not a 'still running' (if let x @ Some(_) = .. { return Ok(x) })
                    known_some = False
                    op_ = s["r"]["ops"][0]
                    if op_["k"] in ("move", "copy") and not op_["p"]["proj"]:
                        ExA = M.Explore(owt)
                        l_ = op_["p"]["l"]
                        chain = [l_]
                        while True:
                            d_ = [r_ for (_, _, r_) in owt.defs().get(chain[-1], []) if r_["k"] != "partial"]
                            if len(d_) == 1 and d_[0]["k"] == "use" and d_[0]["op"]["k"] in ("move", "copy") and not d_[0]["op"]["p"]["proj"] and len(chain) < 6:
                                chain.append(d_[0]["op"]["p"]["l"])
                            else:
                                break
                        for c_ in chain:
                            if c_ in ExA.tracked:
                                vals = {dict(ExA._step_state(bb, st_)).get(c_) for st_ in ExA.state_at.get(bb, [])}
                                if vals == {1}:
                                    known_some = True
                    if not known_some and op_["k"] in ("move", "copy") and not op_["p"]["proj"]:
                        # with the clock never answering 'elapsed' (and a non-zero duration) the Option handed back here is Some: whatever
                        # None it can carry was put there behind the deadline test (`break None` out of the loop, then `Ok(outcome)`)
                        def af_ne(t_):
                            if not t_:
                                return None
                            if is_deadline_cmp(t_) or is_deadline_cmp(M.noref(t_)):
                                return 0
                            n_ = M.noref(t_)
                            if n_[0] == "call" and n_[1] == "std::time::Duration::is_zero" and M.noref(n_[2][0]) == durp:
                                return 0
                            return None
                        # (follow the value through every local it is moved through on any path)
                        srcs, todo = [], [chain[-1]]
                        while todo and len(srcs) < 12:
                            x_ = todo.pop()
                            if x_ in srcs or x_ <= owt.arg_count:
                                continue
                            srcs.append(x_)
                            for (_, _, r_) in owt.defs().get(x_, []):
                                if r_["k"] == "use" and r_["op"]["k"] in ("move", "copy") and not r_["op"]["p"]["proj"]:
                                    todo.append(r_["op"]["p"]["l"])
                        ExN = M.Explore(owt, assume_fn=af_ne, tracked=[c_ for c_ in dict.fromkeys(chain + srcs) if c_ > owt.arg_count])
                        for c_ in chain:
                            if c_ in ExN.tracked and bb in ExN.blocks:
                                vals = set()
                                for st_ in ExN.state_at.get(bb, []):
                                    v_ = dict(ExN._step_state(bb, st_)).get(c_)
                                    vals.add(v_.vidx if isinstance(v_, M.EV) else v_)
                                if vals == {1}:
                                    known_some = True
                        if bb not in ExN.blocks:
                            known_some = True
                    ctx.ob("R11.3", "computed-status-only-for-zero-duration", known_some or (bool(zero_e) and dominated_by_edges(owt, bb, zero_e)), owt.loc(bb, si),
                           "Ok(%s) returns an Option that is not built here: it can be None ('still running') although the deadline test has not run; "
                           "allowed only under `dur.is_zero()` — a test such as as_millis() == 0 also admits every sub-millisecond duration" % M.term_str(pay)[:80])
    # (`break None` out of the loop with `Ok(outcome)` behind it is an Ok(None) return as well)
    ret_ty = owt.locals[0]["ty"]
    for bb in sorted(owt.live_blocks()):
        for si, s in enumerate(owt.blocks[bb]["stmts"]):
            if s["k"] == "assign" and not s["p"]["proj"] and s["p"]["l"] != 0 and s["r"]["k"] == "agg" and s["r"].get("adt") == "std::option::Option" and s["r"]["variant"] == "None" \
                    and "ExitStatus" in (owt.locals[s["p"]["l"]]["ty"] or "") and (bb, si) not in none_blocks:
                # ... unless it is the temporary of a literal Ok(None) already counted
                used_in_ok = any(s2["k"] == "assign" and s2["p"]["l"] == 0 and s2["r"]["k"] == "agg" and s2["r"].get("variant") == "Ok" and s2["r"]["ops"] and
                                 s2["r"]["ops"][0]["k"] in ("move", "copy") and s2["r"]["ops"][0]["p"]["l"] == s["p"]["l"] for s2 in owt.blocks[bb]["stmts"])
                if not used_in_ok and not owt.blocks[bb].get("inl"):
                    none_blocks.append((bb, si))
    ctx.floor("R11.3", "Ok(None) returns", len(none_blocks), 1)
    for bb, si in none_blocks:
        ctx.ob("R11.3", "none-only-after-deadline", dominated_by_edges(owt, bb, true_edges), owt.loc(bb, si),
               "Ok(None) must be dominated by the true edge of `Instant::now() >= start + dur`")
    add_sites = owt.calls_to(lambda f: M.callee_str(f).startswith("<std::time::Instant as std::ops::Add<std::time::Duration>>::add"))
    ctx.ob("R11.3", "deadline-once", len(add_sites) == 1 and add_sites[0][0] not in loop_blocks, owt.loc(add_sites[0][0] if add_sites else 0),
           "deadline = now + dur must be computed exactly once, outside the loop")
    # Some(status) only from the Finished payload
    nsome = 0
    for bb in sorted(owt.live_blocks()):
        for si, s in enumerate(owt.blocks[bb]["stmts"]):
            if s["k"] == "assign" and s["r"]["k"] == "agg" and s["r"].get("adt") == "std::option::Option" and s["r"]["variant"] == "Some":
                pay = T.operand(s["r"]["ops"][0])
                want = ("field", ("downcast", self_field("child_state"), "Finished"), "0")
                nsome += 1
                ctx.ob("R11.3", "some-is-finished-payload#%d" % nsome, pay == want, owt.loc(bb, si), "Some(%s) must be the Finished payload" % M.term_str(pay))

    # ---- R11.4 bounded sleep --------------------------------------------
    for bb in sorted(sleep_blocks):
        t = owt.blocks[bb]["term"]
        a = T.operand(t["args"][0])
        ok = False
        detail = M.term_str(a)
        if a[0] == "call" and a[1] in MINS and len(a[2]) == 2:
            x, y = a[2]
            REM = ("std::time::Instant::duration_since", "std::time::Instant::saturating_duration_since", "std::time::Instant::checked_duration_since")
            rem_ok = any(u[0] == "call" and u[1] in REM and is_deadline(M.strip(u[2][0]))
                         and M.strip(u[2][1])[0] == "call" and M.strip(u[2][1])[1] == "std::time::Instant::now" for u in (x, y))
            delay = [u for u in (x, y) if not (u[0] == "call" and u[1] in REM)]
            caps = []
            cap_ok = False
            if len(delay) == 1:
                cap_ok = True
                for alt in M.alts(delay[0]):
                    ms = delay_cap_ms(alt)
                    caps.append(ms)
                    if ms is None or ms > 100:
                        cap_ok = False
            ok = rem_ok and cap_ok
            detail += " ; caps(ms)=%s remaining-term=%s" % (caps, rem_ok)
            # the back-off never collapses to zero (a zero delay turns the loop into a spin): inductively, the initial value is > 0 and
            # every update is min(delay * k, cap) / delay + c / delay * k with k >= 1, cap > 0
            pos = len(delay) == 1 and all(delay_positive(alt) for alt in M.alts(delay[0]))
            ctx.ob("R11.4", "sleep>0", pos, owt.loc(bb), "the delay slept between status checks must stay positive on every iteration "
                   "(initial value > 0, updates that cannot reach zero) — otherwise wait_timeout spins: " + M.term_str(delay[0] if delay else a)[:160])
        ctx.ob("R11.4", "sleep<=min(cap,remaining)", ok, owt.loc(bb), "sleep argument must be min(delay <= 100ms, deadline - now): " + detail)

    # ---- R11.5 poll == wait_timeout(0).unwrap_or(None) -------------------
    pl = prog.fn("popen::Popen::poll")
    T = M.Terms(pl)
    names = [M.callee_str(t["f"]) for _, t in pl.calls()]
    # one wait_timeout, nothing that can panic, and what comes back is its Ok payload, or None when it failed
    wt_ = pl.calls_to(lambda f: M.callee_str(f) == "popen::Popen::wait_timeout")
    panicky = [n for n in names if n.split("::")[-1] in ("unwrap", "expect", "unwrap_err", "expect_err") or "panic" in n]
    okp = len(wt_) == 1 and not panicky and not any(is_panic_call(t) for _, t in pl.calls())
    if okp:
        is_wt = lambda u: u[0] == "call" and u[1] == "popen::Popen::wait_timeout" and len(u) > 3 and u[3] == wt_[0][0]
        NONE_ = ("agg", ("adt", "std::option::Option", "None"), ())
        for a_ in M.alts(T.local(0)):
            x_ = M.noref(a_)
            if a_ == NONE_:
                continue
            if x_[0] == "field" and x_[2] == "0" and x_[1][0] == "downcast" and x_[1][2] == "Ok" and is_wt(M.noref(x_[1][1])):
                continue
            if x_[0] == "call" and x_[1] == "std::result::Result::<T, E>::unwrap_or" and is_wt(M.noref(x_[2][0])) and x_[2][1] == NONE_:
                continue
            okp = False
        # None only when wait_timeout failed: under its Ok outcome the result is the payload
        okx = M.Explore(pl, assume_fn=lambda t_: 0 if (t_ and is_wt(M.noref(t_))) else None)
        vals = set(M.alts(M.Terms(pl, blocks=okx.blocks).local(0)))
        okp = okp and NONE_ not in vals
    ctx.ob("R11.5", "poll.calls", okp, pl.loc(0),
           "Popen::poll = wait_timeout(0): its Ok payload, None only on Err, and nothing that panics on Err (calls: %s)" % [n.split("::")[-1] for n in names])
    for bb, t in pl.calls_to(lambda f: M.callee_str(f) == "popen::Popen::wait_timeout"):
        d = T.operand(t["args"][1])
        zero = d[0] == "call" and d[1] in ("std::time::Duration::from_secs", "std::time::Duration::from_millis", "std::time::Duration::from_nanos") and const_of(d[2][0]) == 0
        zero = zero or (d[0] == "const" and d[2] in ("std::time::Duration::ZERO",))
        ctx.ob("R11.5", "poll.zero-duration", zero, pl.loc(bb), "poll passes duration %s (must be zero)" % M.term_str(d))
    for bb, t in pl.calls_to(lambda f: M.callee_str(f) == "std::result::Result::<T, E>::unwrap_or"):
        d = T.operand(t["args"][1])
        ctx.ob("R11.5", "poll.default-none", d == ("agg", ("adt", "std::option::Option", "None"), ()), pl.loc(bb), "unwrap_or default = %s (must be None)" % M.term_str(d))
    ctx.exhaustive = False


_CONSTS = {}
MINS = ("std::cmp::min", "std::cmp::Ord::min", "core::cmp::min", "core::cmp::Ord::min")


def const_duration_ns(t):
    """nanoseconds of a named `const X: Duration` (evaluated by the compiler), else None"""
    if t[0] == "const" and len(t) > 2 and isinstance(t[2], str):
        v = _CONSTS.get(t[2])
        if isinstance(v, dict) and v.get("adt") == "std::time::Duration" and len(v.get("fields", [])) == 2:
            secs, nanos = v["fields"]
            while isinstance(nanos, dict) and nanos.get("fields"):
                nanos = nanos["fields"][0]
            if isinstance(secs, int) and isinstance(nanos, int):
                return secs * 10**9 + nanos
    return None


def delay_cap_ms(t):
    """upper bound in ms of a delay term: from_millis(c) or min(_, from_millis(c)); None if unbounded"""
    ns = const_duration_ns(t)
    if ns is not None:
        return (ns + 999999) // 1000000
    if t[0] == "call" and t[1] in MINS:
        caps = [delay_cap_ms(x) for x in t[2]]
        caps = [c for c in caps if c is not None]
        return min(caps) if caps else None
    if t[0] == "call" and t[1] == "std::time::Duration::from_millis":
        return const_of(t[2][0])
    if t[0] == "call" and t[1] == "std::time::Duration::from_secs":
        c = const_of(t[2][0])
        return None if c is None else c * 1000
    if t[0] == "call" and t[1] == "std::time::Duration::from_micros":
        c = const_of(t[2][0])
        return None if c is None else (c + 999) // 1000
    if t[0] == "call" and t[1] == "std::cmp::min":
        caps = [delay_cap_ms(x) for x in t[2]]
        caps = [c for c in caps if c is not None]
        return min(caps) if caps else None
    return None


def delay_positive(t):
    """lower bound > 0 of a delay term, assuming (induction over the loop) that the delay variable itself is > 0"""
    ns = const_duration_ns(t)
    if ns is not None:
        return ns > 0
    if t[0] == "call" and t[1] in ("std::time::Duration::from_millis", "std::time::Duration::from_secs", "std::time::Duration::from_micros", "std::time::Duration::from_nanos"):
        c = const_of(t[2][0])
        return c is not None and c > 0
    if t[0] == "call" and t[1] in ("std::cmp::min", "std::cmp::max", "std::cmp::Ord::min", "std::cmp::Ord::max"):
        return all(delay_positive(x) for x in t[2])
    if t[0] == "call" and ("Mul<u32>>::mul" in t[1] or t[1].endswith("Duration::saturating_mul") or "MulAssign" in t[1]):
        k = const_of(t[2][1])
        return k is not None and k >= 1 and delay_positive(t[2][0])
    if t[0] == "call" and ("as std::ops::Add>::add" in t[1] or t[1].endswith("Duration::saturating_add")):
        return any(delay_positive(x) for x in t[2])
    if t[0] == "local":      # the loop-carried delay variable itself (induction hypothesis)
        return True
    if t[0] in ("copy", "move"):
        return delay_positive(t[1])
    return False


def run_thorough(ctx):
    # the cfg(windows) sibling implementation, analysed on the windows-msvc build
    import winrules
    winrules.c11_wait_handle(ctx)
