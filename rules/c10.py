"""C10 — signals reach only the live child as requested, never after it was reaped."""
import mirlib as M
from common import *

SPEC = {
    "explanation": (
        "Static decision of the signal-sending discipline on the resolved MIR of the crate: the complete census "
        "of signal-sending extern calls (libc::kill and its siblings) and of their wrappers' callers; dominance of "
        "the only send by the `Running` edge of a discriminant test on self.child_state; provenance of the pid "
        "(the Running payload, > 0 because it is fork()'s parent-side result) and of the signal number (the "
        "caller's argument, or the constants SIGTERM/SIGKILL for terminate/kill); finite-domain traversal of "
        "send_signal under child_state = Finished / Preparing showing that no call at all is reachable. "
        "Holds for every history because the rule quantifies over all paths of the code, not over runs."
        " Thorough tier, windows: TerminateProcess only in os_terminate, under Running, on the stored handle; no call at all under Finished; the error is returned only if it is not ACCESS_DENIED or the process is STILL_ACTIVE, otherwise the exit is recorded."
        " Finished — the state in which nothing is sent — is stored only under pid_out == pid or errno == ECHILD."
    ),
    "not_decided": "pid reuse while the state is still Running because an external reaper has not been noticed "
                   "(excluded by the statement); kernel delivery semantics of kill(2).",
    "trusted_base": ["rustc type checking and MIR construction (nightly 1.97, mir-opt-level=0)",
                     "POSIX kill(2): pid > 0 addresses exactly that process",
                     "mirlib dominance-by-removal, provenance terms, finite-domain exploration"],
    "assumptions": ["the borrow checker excludes a concurrent wait(&mut self) during send_signal(&self)"],
}

SIGNAL_SENDERS = ["kill", "killpg", "tgkill", "tkill", "pthread_kill", "raise", "sigqueue", "pidfd_send_signal"]


def run(ctx):
    prog = ctx.prog
    st_vals = list(range(len(variants(prog, "popen::ChildState"))))

    # R10.1 census of signal-sending externs and of the wrapper's callers
    sites = extern_calls(prog, SIGNAL_SENDERS)
    ctx.floor("R10.1", "signal-sending extern call sites", len(sites), 1)
    for fn, bb, t in sites:
        name = M.callee_str(t["f"])
        ok = name == "libc::kill" and fn.path == "posix::kill"
        ctx.ob("R10.1", "extern:%s@%s" % (name, fn.path), ok, fn.loc(bb),
               "signal-sending extern %s called in %s (only libc::kill inside posix::kill is allowed)" % (name, fn.path))
    wrappers = M.all_calls(prog, lambda f: (f.get("rpath") or f.get("path")) == "posix::kill")
    ctx.floor("R10.1", "posix::kill call sites", len(wrappers), 1)
    for fn, bb, t in wrappers:
        ok = fn.path.endswith("PopenExt>::send_signal")
        ctx.ob("R10.1", "posix::kill@%s" % fn.path, ok, fn.loc(bb),
               "posix::kill called from %s; the only allowed caller is PopenExt::send_signal" % fn.path)
    # function-pointer escapes of the wrappers (would defeat the census)
    for p, fn in prog.fns.items():
        for bb in fn.live_blocks():
            for s in fn.blocks[bb]["stmts"]:
                if s["k"] == "assign":
                    txt = M.rv_str(s["r"])
                    if "fn posix::kill" in txt or "fn libc::kill" in txt:
                        ctx.ob("R10.1", "fnptr-escape@%s" % p, False, fn.loc(bb), "kill taken as a function value: " + txt)

    # R10.2 argument provenance
    pk = prog.one("posix::kill")
    T = M.Terms(pk)
    for bb, t in pk.calls_to(lambda f: M.callee_str(f) == "libc::kill"):
        a = [T.operand(x) for x in t["args"]]
        pid_ok = M.strip(a[0]) == ("param", 1, pk.local_name(1)) and a[0][0] in ("cast", "param")
        sig_ok = a[1] == ("param", 2, pk.local_name(2))
        ctx.ob("R10.2", "libc::kill.pid", pid_ok, pk.loc(bb), "pid argument = %s (must be the wrapper's pid parameter, cast only)" % M.term_str(a[0]))
        ctx.ob("R10.2", "libc::kill.sig", sig_ok, pk.loc(bb), "signal argument = %s (must be the wrapper's signal parameter unchanged)" % M.term_str(a[1]))
    ss = prog.one("PopenExt>::send_signal")
    T = M.Terms(ss)
    cs = lambda t: is_field_of_param(t, "child_state", 1)
    run_edges = variant_edges(ss, T, cs, CHILD_STATE["Running"], st_vals)
    for bb, t in ss.calls_to(lambda f: M.callee_str(f) == "posix::kill"):
        a = [T.operand(x) for x in t["args"]]
        # reachable only while the state is Running (decided per state; the test may be made through pid(), which is Some exactly then)
        gated = dominated_by_edges(ss, bb, run_edges) or \
            all(bb not in M.Explore(ss, assume={self_field("child_state"): v_}).blocks for n_, v_ in CHILD_STATE.items() if n_ != "Running")
        ctx.ob("R10.2", "send_signal.gated", gated, ss.loc(bb),
               "posix::kill in send_signal must be dominated by the Running edge of a test on self.child_state")
        want = ("field", ("downcast", self_field("child_state"), "Running"), "pid")
        ctx.ob("R10.2", "send_signal.pid", a[0] == want, ss.loc(bb),
               "pid = %s (must be the pid stored in self.child_state as Running)" % M.term_str(a[0]))
        ctx.ob("R10.2", "send_signal.sig", a[1] == ("param", 2, ss.local_name(2)), ss.loc(bb),
               "signal = %s (must be the caller's number unchanged)" % M.term_str(a[1]))
        # nothing between the test and the send may change the state: no &mut self call in between
        region = (ss.reachable(0) - ss.reachable(0, removed_edges=set(run_edges))) if dominated_by_edges(ss, bb, run_edges) else \
            {b_ for b_ in M.Explore(ss, assume={self_field("child_state"): CHILD_STATE["Running"]}).blocks if bb in ss.reachable(b_)}
        for rb in sorted(region):
            tt = ss.blocks[rb]["term"]
            if tt["k"] == "call" and rb != bb and not is_panic_call(tt):
                ctx.ob("R10.2", "send_signal.between:%s" % M.callee_str(tt["f"]), False, ss.loc(rb),
                       "call between the Running test and the kill: %s" % M.callee_str(tt["f"]))

    # R10.3 SIGTERM / SIGKILL constants and twin wiring
    import_consts = {"os_terminate": ("libc::SIGTERM", 15), "os_kill": ("libc::SIGKILL", 9)}
    for meth, (cname, cval) in import_consts.items():
        f = prog.one(meth)
        T = M.Terms(f)
        cc = f.calls_to(lambda c: M.callee_str(c).endswith("PopenExt>::send_signal"))
        others = [(b, t) for b, t in f.calls() if (b, t) not in cc and not is_panic_call(t)]
        ctx.ob("R10.3", "%s.single-call" % meth, len(cc) == 1 and not others, f.loc(0),
               "%s must consist of exactly one send_signal call (found %d send_signal, %d other calls)" % (meth, len(cc), len(others)))
        for bb, t in cc:
            a = [T.operand(x) for x in t["args"]]
            v = const_of(a[1])
            nm = a[1][2] if a[1][0] == "const" else None
            ctx.ob("R10.3", "%s.const" % meth, v == cval and nm == cname, f.loc(bb),
                   "%s sends %s (must be %s = %d)" % (meth, M.term_str(a[1]), cname, cval))
            ctx.ob("R10.3", "%s.receiver" % meth, M.strip(a[0]) == ("param", 1, f.local_name(1)), f.loc(bb),
                   "receiver = %s (must be self)" % M.term_str(a[0]))
    for pub, twin in (("popen::Popen::terminate", "os_terminate"), ("popen::Popen::kill", "os_kill")):
        f = prog.fn(pub)
        if f is None:
            ctx.missing("R10.3", pub)
            continue
        cc = [(b, t) for b, t in f.calls() if not is_panic_call(t)]
        ok = len(cc) == 1 and M.callee_str(cc[0][1]["f"]).endswith("::" + twin)
        ctx.ob("R10.3", "%s->%s" % (pub.split("::")[-1], twin), ok, f.loc(0),
               "%s must delegate to %s only; calls: %s" % (pub, twin, [M.callee_str(t["f"]) for _, t in cc]))

    # R10.4 finite-domain traversal of send_signal per state
    for name, val in CHILD_STATE.items():
        ex = M.Explore(ss, assume={self_field("child_state"): val})
        calls = ex.calls()
        if name == "Finished":
            ctx.ob("R10.4", "send_signal[Finished].no-call", not calls, ss.loc(0),
                   "under child_state=Finished send_signal reaches calls: %s" % [M.callee_str(t["f"]) for _, t in calls])
            # returns Ok(())
            oks = []
            Tx_ = M.Terms(ss, blocks=ex.blocks)
            for b in ex.blocks:
                for s in ss.blocks[b]["stmts"]:
                    if s["k"] == "assign" and s["p"]["l"] == 0 and not s["p"]["proj"]:
                        v_ = s["r"].get("variant")
                        if v_ is None:
                            # the value moved in from where it was built
                            tv = Tx_.rvalue(s["r"])
                            v_ = tv[1][2] if tv[0] == "agg" and isinstance(tv[1], tuple) and tv[1][:2] == ("adt", "std::result::Result") else None
                        oks.append(v_)
            ctx.ob("R10.4", "send_signal[Finished].ok", oks == ["Ok"] and bool(ex.returns()), ss.loc(0),
                   "under child_state=Finished the result must be Ok(()); assignments to the return place: %s" % oks)
        elif name == "Preparing":
            bad = [M.callee_str(t["f"]) for _, t in calls if not is_panic_call(t)]
            ctx.ob("R10.4", "send_signal[Preparing].only-panic", not bad, ss.loc(0),
                   "under child_state=Preparing only a panic may be reachable; found %s" % bad)
        else:
            sends = [t for _, t in calls if M.callee_str(t["f"]) == "posix::kill"]
            ctx.ob("R10.4", "send_signal[Running].sends", len(sends) == 1, ss.loc(0),
                   "under child_state=Running exactly one posix::kill must be reachable (found %d)" % len(sends))
    ctx.exhaustive = True

    reported_status_is_recorded(ctx, prog, "R10.4")
    # "while the child has not been reaped" the signal is delivered: Finished — the state in which nothing is sent — is entered only on proof of reaping
    import c09
    c09.finished_only_when_reaped(ctx, prog, "R10.4")

    # R10.5 signature facts: send_signal takes &self, wait/poll/wait_timeout take &mut self
    sig = ss.j.get("inputs", [])
    ctx.ob("R10.5", "send_signal.&self", bool(sig) and sig[0].startswith("&") and "mut" not in sig[0].split("popen::Popen")[0], ss.loc(0),
           "send_signal receiver type %s" % (sig[:1],))
    for m in ("popen::Popen::wait", "popen::Popen::wait_timeout", "popen::Popen::poll", "popen::Popen::terminate", "popen::Popen::kill"):
        f = prog.fn(m)
        if f is None:
            ctx.missing("R10.5", m)
            continue
        s0 = f.j["inputs"][0]
        ctx.ob("R10.5", "%s.&mut self" % m.split("::")[-1], s0.startswith("&") and "mut popen::Popen" in s0, f.loc(0),
               "%s receiver type %s (exclusive borrow excludes a concurrent signal)" % (m, s0))


def run_thorough(ctx):
    # A8: clauses enforced by the type system itself, witnessed by compile_fail doctests with compiling twins
    ctx.witness("R10.5", ['SignalVsWait', 'WaitNeedsMut'])

    # whole-program who-may-call (std and libc included): nothing else in the program reachable from the crate sends signals
    deep_census(ctx, "R10.1", SIGNAL_SENDERS, {"kill": ["posix::kill"]})

    # the cfg(windows) sibling of terminate/kill
    import winrules
    winrules.c10_terminate(ctx)

