"""C01 — communicate always terminates: parent and child never deadlock."""
import itertools
import mirlib as M
from common import *
from comm import *

SPEC = {
    "explanation": (
        "The structural conditions without which a deadlock or spin schedule exists, decided on the resolved MIR of "
        "the one exchange loop (RawCommunicator::read_into / do_read / maybe_poll / posix::poll): (a) every blocking "
        "pipe read/write of the parent is dominated by the true edge of the readiness flag of *that* stream; (b) flag "
        "k, pollfd k and stream k agree (fds[k] = as_pollfd(stream k, for_read_k), flag k = fds[k].test(mask_k), "
        "for_read = (false,true,true) mapping to POLLOUT/POLLIN) and each mask contains the request bit and POLLHUP; "
        "on the shortcut path (no deadline) a flag is constant true only in the configuration where its own stream is "
        "the single one present — all 8 presence patterns x deadline present/absent are enumerated; (c) one write "
        "after POLLOUT is bounded by a constant <= PIPE_BUF; (d) a stream is retired at EOF and stdin is closed when "
        "the input is exhausted; (e) the loop's only non-error exits are 'limit reached' and 'no stream left'; "
        "(f) every communicate-style entry point (Popen::communicate/_bytes, Communicator::read/read_string, "
        "Exec/Pipeline::capture) funnels into this loop — no other pipe read/write is reachable from them."
        " Thorough tier, cfg(windows) sibling: pipe I/O happens only in the helper threads; the helper protocol terminates (a reader announces EOF exactly on read()==0 and stops, the stream bits are distinct single bits, the receive loop waits only while a bit is left and each EOF retires exactly its sender's bit)."
        " One I/O step per readiness report: no pipe read/write site (in read_into or any helper down to the system call) lies on a cycle that does not pass through maybe_poll."
    ),
    "not_decided": "liveness itself under all kernel schedules and pipe capacities; behaviour of poll(2); the Windows rendezvous protocol "
                   "beyond the clause checked in the thorough tier.",
    "trusted_base": ["rustc MIR", "POSIX: after POLLOUT a write of <= PIPE_BUF bytes does not block; poll reports POLLHUP at EOF",
                     "PIPE_BUF = 4096 on Linux", "mirlib dominance, provenance, finite-domain exploration, SCC"],
    "assumptions": [],
}

PIPE_BUF = 4096
ENTRY = ["popen::Popen::communicate", "popen::Popen::communicate_bytes", "communicate::Communicator::read", "communicate::Communicator::read_string",
         "builder::exec::Exec::capture", "builder::pipeline::Pipeline::capture"]


def eof_retires_stream(ctx, E, dr, Td, rule):
    """a stream is retired (*source_ref = None) exactly on the zero edge of the count its own read() returned — not on an error mapped
    to 0, not on a stale count: 'all streams gone' is what lets a read report all-empty data, so it must mean real end-of-file"""
    n_term = None
    for bb, t in E.reads:
        call = ("call", M.callee_str(t["f"]), tuple(Td.operand(a) for a in t["args"]), bb)
        n_term = call
    stores = [(bb, si, s) for bb in dr.live_blocks() for si, s in enumerate(dr.blocks[bb]["stmts"])
              if s["k"] == "assign" and s["p"]["l"] == 1 and [e["k"] for e in s["p"]["proj"]] == ["deref"]]
    is_n = lambda x: M.strip(x)[0] == "call" and n_term is not None and M.strip(x)[3] == n_term[3] and M.strip(x)[1] == n_term[1]
    # (`n == 0`, `!(n != 0)`, or the `0` arm of `match n`)
    zero_e = int_eq_edges(dr, Td, is_n, 0)
    ok = len(stores) == 1 and Td.rvalue(stores[0][2]["r"]) == ("agg", ("adt", "std::option::Option", "None"), ()) and dominated_by_edges(dr, stores[0][0], zero_e)
    ctx.ob(rule, "eof-retires-stream", ok, dr.loc(stores[0][0] if stores else 0), "on a 0-byte read (EOF) the stream must be retired (*source_ref = None); otherwise the loop polls a hung-up pipe forever")
    return stores, zero_e


def run(ctx):
    prog = ctx.prog
    E = Engine(prog)
    ri, dr, mp, T = E.ri, E.dr, E.mp, E.T
    ctx.ob("R01.0", "one-exchange-loop", E.nloops == 1 and E.mp_call is not None and E.ready is not None, ri.loc(0), "read_into has one loop driven by one maybe_poll(..)? call")
    if not (E.nloops == 1 and E.ready):
        return
    # ---- R01.1 readiness gating -------------------------------------------------------
    ctx.floor("R01.1", "pipe write sites in read_into", len(E.writes), 1)
    ctx.floor("R01.1", "do_read call sites", len(E.do_reads), 2)
    ctx.floor("R01.1", "pipe read sites in do_read", len(E.reads), 1)
    for bb, t in E.writes:
        a = M.noref(M.strip(T.operand(t["args"][0])))
        ctx.ob("R01.1", "write.on-stdin", a == ("field", E.selfp, "stdin"), ri.loc(bb), "the write goes to %s (must be self.stdin)" % M.term_str(a))
        ctx.ob("R01.1", "write.gated-by-in_ready", dominated_by_edges(ri, bb, E.ready_edges(0), start=E.mp_call[0]), ri.loc(bb), "a write to the child's stdin must be dominated by the true edge of readiness flag 0 (POLLOUT) of the same iteration")
    stream_of = {}
    for bb, t in E.do_reads:
        slot = T.addr(t["args"][0])
        src = None
        if slot and slot[1][0] == "local":
            v = M.noref(M.strip(T.local(slot[1][1])))
            if v[0] == "field" and v[1] == E.selfp:
                src = v[2]
        k = {"stdout": 1, "stderr": 2}.get(src)
        stream_of[bb] = src
        ok = k is not None and dominated_by_edges(ri, bb, E.ready_edges(k), start=E.mp_call[0])
        ctx.ob("R01.1", "do_read(%s).gated-by-own-flag" % src, ok, ri.loc(bb), "reading %s must be dominated by the true edge of its own readiness flag (component %s of maybe_poll's result)" % (src, k))
    ctx.ob("R01.1", "do_read.streams", sorted(stream_of.values(), key=str) == ["stderr", "stdout"], ri.loc(0), "the two do_read sites serve %s (must be stdout and stderr)" % sorted(stream_of.values(), key=str))
    Td = M.Terms(dr)
    for bb, t in E.reads:
        a = M.noref(M.strip(Td.operand(t["args"][0])))
        ctx.ob("R01.1", "read.on-source_ref", a == ("param", 1, dr.local_name(1)), dr.loc(bb), "do_read reads from %s (must be *source_ref)" % M.term_str(a))
    # the arguments of maybe_poll are the three streams in order
    a = [M.noref(M.strip(x)) for x in E.mp_term[2]]
    okm = a[0] == ("field", E.selfp, "stdin")
    l1 = [T.origin_local(x) for x in E.mp_call[1]["args"]]
    names = [ri.local_name(l) if l is not None else None for l in l1]
    okm = okm and M.noref(M.strip(T.local(l1[1]))) == ("field", E.selfp, "stdout") and M.noref(M.strip(T.local(l1[2]))) == ("field", E.selfp, "stderr") and a[3] == ("param", E.params.get("deadline"), "deadline")
    ctx.ob("R01.1", "maybe_poll(stdin,stdout_ref,stderr_ref,deadline)", okm, ri.loc(E.mp_call[0]), "maybe_poll receives %s" % names)

    # ---- R01.2 flag / pollfd / stream agreement ----------------------------------------------
    Tm = M.Terms(mp)
    pnames = [mp.local_name(i) for i in range(1, 4)]
    res = [(bb, si, s) for bb in mp.live_blocks() for si, s in enumerate(mp.blocks[bb]["stmts"]) if s["k"] == "assign" and s["p"]["l"] == 0 and s["r"].get("variant") == "Ok"]
    poll_results = []
    masks = {}
    for bb, si, s in res:
        v = Tm.operand(s["r"]["ops"][0])
        if v[0] == "agg" and v[1] == "tuple" and all(x[0] == "call" and x[1] == "posix::PollFd::<'_>::test" for x in v[2]):
            poll_results.append((bb, v))
    ctx.ob("R01.2", "poll-path.result", len(poll_results) == 1, mp.loc(0), "one Ok((test,test,test)) result on the poll path")
    want_read = {0: 0, 1: 1, 2: 1}
    if len(poll_results) == 1:
        bb, v = poll_results[0]
        for k, x in enumerate(v[2]):
            fd = M.noref(x[2][0])
            m = eval_const(x[2][1])
            masks[k] = m
            ok = fd[0] == "call" and fd[1] == "communicate::raw::as_pollfd" and fd[2][0] == ("param", k + 1, pnames[k]) and const_of(fd[2][1]) == want_read[k]
            ctx.ob("R01.2", "flag%d<-fds[%d]<-stream%d" % (k, k, k), ok, mp.loc(bb), "flag %d = test(%s) (must test the pollfd built from parameter %d with for_read=%s)" % (k, M.term_str(fd), k + 1, bool(want_read[k])))
            need = (POLLIN if want_read[k] else POLLOUT) | POLLHUP
            ctx.ob("R01.2", "mask%d>=request|POLLHUP" % k, m is not None and (m & need) == need, mp.loc(bb), "mask %d = %s (must contain %s and POLLHUP: a hang-up with no mask bit looks like a timeout / spins at EOF)" % (k, hex(m) if m is not None else None, "POLLIN" if want_read[k] else "POLLOUT"))
        # the fds handed to poll are the same array
        pc = mp.calls_to(lambda f: M.callee_str(f) == "posix::poll")
        okp = len(pc) == 1
        if okp:
            arr = M.noref(Tm.operand(pc[0][1]["args"][0]))
            while arr[0] == "cast":
                arr = arr[2]
            okp = arr[0] == "agg" and arr[1] == "array" and [M.noref(v[2][k][2][0]) for k in range(3)] == list(arr[2])
            oke = try_ok_edges(mp, Tm, lambda c: c[1] == "posix::poll")
            okp = okp and dominated_by_edges(mp, bb, oke)
        ctx.ob("R01.2", "tested-fds=polled-fds", okp, mp.loc(bb), "the three tests run on the array handed to posix::poll, after it succeeded")
    ap = prog.one("communicate::raw::as_pollfd")
    for fr, want in ((1, ("libc::POLLIN", "posix::POLLIN")), (0, ("libc::POLLOUT", "posix::POLLOUT"))):
        ex = M.Explore(ap, assume={("param", 2, ap.local_name(2)): fr})
        Tx = M.Terms(ap, blocks=ex.blocks)
        c = [(bb, t) for bb, t in ex.calls(lambda f: M.callee_str(f) == "posix::PollFd::<'_>::new")]
        ok = len(c) == 1
        if ok:
            a = [Tx.operand(x) for x in c[0][1]["args"]]
            ok = a[0] == ("param", 1, ap.local_name(1)) and a[1][0] == "const" and a[1][2] in want
        ctx.ob("R01.2", "as_pollfd[for_read=%d]" % fr, ok, ap.loc(0), "as_pollfd(f, %s) must request %s on f" % (bool(fr), want[0]))
    pn = prog.one("posix::PollFd::<'_>::new")
    Tn = M.Terms(pn)
    ag = aggregates_of(pn, "libc::pollfd")
    ok = len(ag) == 1
    if ok:
        r = ag[0][2]
        v = {n: Tn.operand(o) for n, o in zip(r["fields"], r["ops"])}
        filep = ("param", 1, pn.local_name(1))
        fd = v["fd"]
        form_a = fd[0] == "call" and fd[1] == "std::option::Option::<T>::unwrap_or" and const_of(fd[2][1]) == -1 \
            and fd[2][0][0] == "call" and fd[2][0][2][0] == filep and fd[2][0][2][1][0] == "fnitem" and "as_raw_fd" in fd[2][0][2][1][1]
        # or spelled out: match file { Some(f) => f.as_raw_fd(), None => -1 } (also map_or(-1, ..))
        kinds = set()
        for a_ in M.alts(fd):
            if const_of(a_) == -1:
                kinds.add("neg1")
            elif a_[0] == "call" and "as_raw_fd" in a_[1] and M.peel(a_[2][0]) == ("field", ("downcast", filep, "Some"), "0"):
                kinds.add("rawfd")
            else:
                kinds.add("?")
        form_c = fd[0] == "call" and fd[1] in ("std::option::Option::<T>::map_or",) and const_of(fd[2][1]) == -1 and fd[2][0] == filep and fd[2][2][0] == "fnitem" and "as_raw_fd" in fd[2][2][1]
        ok = v["events"] == ("param", 2, pn.local_name(2)) and const_of(v["revents"]) == 0 and (form_a or form_c or kinds == {"neg1", "rawfd"})
    ctx.ob("R01.2", "PollFd::new", ok, pn.loc(0), "PollFd::new(file, events) = pollfd{fd: file's fd or -1, events, revents: 0}")
    pt = prog.one("posix::PollFd::<'_>::test")
    r0 = M.noref(M.Terms(pt).local(0))
    ok = r0[0] == "bin" and r0[1] == "Ne" and const_of(r0[3]) == 0 and r0[2][0] == "bin" and r0[2][1] == "BitAnd" and {M.term_str(r0[2][2]), M.term_str(r0[2][3])} == {"self.0.revents", "mask"}
    ctx.ob("R01.2", "PollFd::test=(revents&mask)!=0", ok, pt.loc(0), "PollFd::test = %s" % M.term_str(r0))
    pp = prog.one("posix::poll")
    Tq = M.Terms(pp)
    lp = pp.calls_to(lambda f: M.callee_str(f) == "libc::poll")
    ok = len(lp) == 1
    if ok:
        a = [M.noref(Tq.operand(x)) for x in lp[0][1]["args"]]
        ok = M.strip(a[0], also=("core::slice::<impl [T]>::as_ptr",)) == ("param", 1, pp.local_name(1)) and M.strip(a[1], also=("core::slice::<impl [T]>::len",)) == ("param", 1, pp.local_name(1))
    ctx.ob("R01.2", "libc::poll(fds,len)", ok, pp.loc(0), "posix::poll hands the whole slice (pointer and its own length) to libc::poll")
    # shortcut paths: 8 presence patterns x deadline None/Some
    nrows = 0
    for dl in (0, 1):
        for pat in itertools.product((0, 1), repeat=3):
            nrows += 1
            assume = {("param", k + 1, pnames[k]): pat[k] for k in range(3)}
            assume[("param", 4, mp.local_name(4))] = dl
            ex = M.Explore(mp, assume=assume, tries="ok")
            Tx = M.Terms(mp, blocks=ex.blocks)
            consts = []
            pollbbs = [b for b, _ in ex.calls(lambda f: M.callee_str(f) == "posix::poll")]
            polled = bool(pollbbs)
            # results that can be returned without having gone through poll(): their flags, evaluated under this configuration
            nopoll = M.Explore(mp, assume=assume, tries="ok", stop=pollbbs).blocks - set(pollbbs)
            for b in nopoll:
                for s in mp.blocks[b]["stmts"]:
                    if s["k"] == "assign" and s["p"]["l"] == 0 and s["r"].get("variant") == "Ok":
                        v = M.noref(Tx.operand(s["r"]["ops"][0]))
                        if v[0] == "agg" and v[1] == "tuple":
                            consts.append(tuple(ex.eval(x) for x in v[2]))
                        else:
                            consts.append(("?", M.term_str(v)[:40]))
            key = "shortcut[deadline=%s,present=%s]" % ("Some" if dl else "None", "".join(map(str, pat)))
            if consts:
                ok = dl == 0 and sum(pat) == 1 and consts == [pat] and not polled
                detail = "returns the flags %s without polling; allowed only with no deadline and exactly one stream present, and only for that stream" % consts
            else:
                ok = polled
                detail = "goes through poll()"
            ctx.ob("R01.2", key, ok, mp.loc(0), detail)
    ctx.floor("R01.2", "maybe_poll configurations", nrows, 16)
    ctx.exhaustive = True

    # ---- R01.3 bounded write ------------------------------------------------------------------
    for bb, t in E.writes:
        _base, bound = chunk_of(T.operand(t["args"][1]))
        ctx.ob("R01.3", "write-chunk<=PIPE_BUF", bound is not None and bound <= PIPE_BUF, ri.loc(bb),
               "one write after POLLOUT is bounded by %s bytes (must be a constant <= PIPE_BUF = %d: a larger write can block although poll reported writability, and the parent then stops draining the child's output)" % (bound, PIPE_BUF))

    # ---- R01.4 retirement -----------------------------------------------------------------------------
    stores, zero_e = eof_retires_stream(ctx, E, dr, Td, "R01.4")
    # every path from the n == 0 edge to return passes the store
    if zero_e and stores:
        rets = dr.return_blocks()
        okp = all(dominated_by_blocks(dr, r, [stores[0][0]], start=zero_e[0][1]) for r in rets if r in dr.reachable(zero_e[0][1]))
        ctx.ob("R01.4", "eof-retires-on-every-path", okp, dr.loc(stores[0][0]), "no path from the EOF edge to return may skip the retirement")
    rel_, _other = stdin_releases(ri, T, E.selfp)
    takes = [(bb, t) for bb, kind, t in rel_]
    def done_atom(c):
        """+1: the input is exhausted (cursor == / >= length, or the rest of the input is empty); -1: its negation"""
        pos = ("field", E.selfp, "input_pos")
        ln = lambda x: x[0] == "call" and x[1] == "std::vec::Vec::<T, A>::len" and M.noref(x[2][0]) == ("field", E.selfp, "input_data")
        if c[0] == "bin" and c[1] in ("Eq", "Ne", "Ge", "Lt"):
            a, b = M.noref(c[2]), M.noref(c[3])
            if a == pos and ln(b):
                return 1 if c[1] in ("Eq", "Ge") else -1
            if b == pos and ln(a) and c[1] in ("Eq", "Ne"):
                return 1 if c[1] == "Eq" else -1
        if c[0] == "call" and c[1] in ("core::slice::<impl [T]>::is_empty",) and c[2]:
            x = M.noref(c[2][0])
            if x[0] == "call" and "index" in x[1].lower() and M.noref(x[2][0]) == ("field", E.selfp, "input_data") and x[2][1][0] == "agg" and x[2][1][1][1] == "std::ops::RangeFrom" \
                    and M.noref(x[2][1][2][0]) == pos:
                return 1
        return 0
    done_e, _ = cond_edges(ri, T, done_atom)
    # only tests made after the cursor update of the same iteration count
    _st = stores_to_field(ri, "input_pos", "communicate::raw::RawCommunicator")
    done_e = [e_ for e_ in done_e if _st and dominated_by_blocks(ri, e_[0], [x_[0] for x_ in _st], start=E.mp_call[0] if E.mp_call else 0)]
    ctx.ob("R01.4", "stdin-closed-when-input-exhausted", len(takes) == 1 and dominated_by_edges(ri, takes[0][0], done_e, start=E.mp_call[0]), ri.loc(takes[0][0] if takes else 0),
           "self.stdin must be taken (closed) exactly under `input_pos == input_data.len()`, so that filters see end-of-file")
    if takes and done_e:
        head = min(E.loop)
        # post-dominance inside the iteration: from the true edge every path back to the loop head passes the take
        region = ri.reachable(done_e[0][1], removed_blocks=[takes[0][0]], stop_blocks=[E.mp_call[0]])
        back = [b for b in region if b in E.loop and E.mp_call[0] in ri.succs(b)] + ([E.mp_call[0]] if E.mp_call[0] in region else [])
        ctx.ob("R01.4", "stdin-closed-on-every-path", not back, ri.loc(takes[0][0]), "once the input is exhausted every path to the next poll closes stdin first")
        # the result of take is dropped, not kept
        ctx.ob("R01.4", "taken-stdin-is-dropped", takes[0][1] is None or only_dropped(ri, takes[0][1]["dest"]["l"]), ri.loc(takes[0][0]), "the File taken out of self.stdin must be dropped right away")

    # ---- R01.9 one blocking I/O step per readiness report ------------------------------------------------------------------
    # poll() vouches for *one* read / one bounded write on a stream; a second read of the same stream without a new poll can block on an
    # empty pipe while the child is blocked writing to the other one.  So: no pipe I/O site may be repeated inside a cycle that does not
    # pass through maybe_poll — in read_into itself, and in every helper between it and the system call.
    io_fns = {}          # function path -> blocks that perform pipe I/O directly or through a helper
    for p_ in sorted(M.local_closure(prog, [ri.path])):
        f_ = prog.fns.get(p_)
        if f_ is None:
            continue
        direct = [bb for bb, t in f_.calls() if is_file_io(M.callee_str(t["f"]))]
        if direct:
            io_fns[p_] = set(direct)
    changed = True
    while changed:
        changed = False
        for p_ in sorted(M.local_closure(prog, [ri.path])):
            f_ = prog.fns.get(p_)
            if f_ is None:
                continue
            via = {bb for bb, t in f_.calls() if M.callee_names(t["f"]) & set(io_fns) and p_ not in M.callee_names(t["f"])}
            if via - io_fns.get(p_, set()):
                io_fns[p_] = io_fns.get(p_, set()) | via
                changed = True
    ctx.floor("R01.9", "functions performing pipe I/O under read_into", len(io_fns), 2)
    for p_, blocks in sorted(io_fns.items()):
        f_ = prog.fns[p_]
        removed = {E.mp_call[0]} if p_ == ri.path and E.mp_call else set()
        cyc = M.sccs(f_, removed=removed)
        rep = sorted(b for b in blocks if any(b in c for c in cyc))
        ctx.ob("R01.9", "one-io-step-per-poll@%s" % p_.split("::")[-1], not rep, f_.loc(rep[0] if rep else 0),
               "%s repeats a pipe read/write inside a loop that does not go back through maybe_poll (blocks %s): only the first such call is covered by "
               "poll()'s readiness report, the next one can block on one pipe while the child is blocked on another" % (p_, rep))

    # ---- R01.5 loop exits ---------------------------------------------------------------------------------
    exits = [(b, s) for b in sorted(E.loop) for s in ri.succs(b) if s not in E.loop and ri.blocks[s]["term"]["k"] != "unreachable"]
    lim_e = set(bool_edges(ri, T, lambda c: c[0] == "bin" and c[1] == "Ge" and E.len_sum(M.noref(c[2])) and M.noref(c[3]) == ("field", ("downcast", ("param", E.params.get("size_limit"), "size_limit"), "Some"), "0"), True))
    none_preds = []
    for nm, src in (("stdin", None), ("stdout", None), ("stderr", None)):
        pass
    def all_none_edge(b, s):
        # target dominated by the "is None" edges of all three streams (self.stdin, stdout_ref, stderr_ref), whether tested
        # through a tuple match, discriminants or is_none()
        def stream_of(t):
            t = M.noref(M.strip(t))
            if t[0] == "field" and t[1] == E.selfp and t[2] in ("stdin", "stdout", "stderr"):
                return t[2]
            return None
        names = set()
        for nm in ("stdin", "stdout", "stderr"):
            e = option_none_edges(ri, T, lambda t, nm=nm: stream_of(t) == nm)
            e = [x for x in e if x[0] in E.loop]
            if dominated_by_edges(ri, s, e, start=min(E.loop)):
                names.add(nm)
        return names == {"stdin", "stdout", "stderr"}
    try_l = M.try_branch_locals(ri)
    seen_kind = {}
    for (b, s) in exits:
        kind = None
        if (b, s) in lim_e:
            kind = "limit reached"
        elif all_none_edge(b, s):
            kind = "no stream left"
        else:
            r = M.switch_operand_def(ri, b)
            if r is not None and r["k"] == "discr" and not r["p"]["proj"] and r["p"]["l"] in try_l and M.switch_target(ri.blocks[b]["term"], 1) == s:
                kind = "error propagated"
            else:
                # an exit constructing Err(..)
                errs = [1 for bb2 in ri.reachable(s) for st in ri.blocks[bb2]["stmts"] if st["k"] == "assign" and st["p"]["l"] == 0 and st["r"].get("variant") == "Err"]
                oks = [1 for bb2 in ri.reachable(s) for st in ri.blocks[bb2]["stmts"] if st["k"] == "assign" and st["p"]["l"] == 0 and st["r"].get("variant") == "Ok"]
                if errs and not oks:
                    kind = "error returned"
        if kind is None:
            # decided by evaluation instead of by the shape of the guard: with no size limit and any one stream still present, this exit
            # cannot be taken (so it is taken only when the limit is reached or no stream is left), however the condition is spelled
            def stream_of2(t):
                t = M.noref(M.strip(t))
                if t[0] == "field" and M.peel(t[1]) == M.peel(E.selfp) and t[2] in ("stdin", "stdout", "stderr"):
                    return t[2]
                return None
            lim_p = ("param", E.params.get("size_limit"), "size_limit")
            blocked = 0
            for nm in ("stdin", "stdout", "stderr"):
                def af(t, nm=nm):
                    if stream_of2(t) == nm:
                        return 1
                    if M.noref(t) == lim_p:
                        return 0
                    return None
                ex_ = M.Explore(ri, start=min(E.loop), assume_fn=af, tries="ok")
                if (b, s) not in ex_.edges:
                    blocked += 1
            if blocked == 3:
                kind = "limit reached or no stream left (evaluated)"
        seen_kind[kind] = seen_kind.get(kind, 0) + 1
        ctx.ob("R01.5", "loop-exit:%s#%d" % (kind or "UNEXPLAINED", seen_kind[kind]), kind is not None, ri.loc(b), "loop exit edge bb%d->bb%d: %s (the only successful exits are 'limit reached' and 'no stream left')" % (b, s, kind or "neither a limit test, nor the all-None test, nor an error"))
    ctx.floor("R01.5", "loop exit edges", len(exits), 3)

    # ---- R01.6 single engine ------------------------------------------------------------------------------------
    fm = ForkModel(prog)
    allowed = {(ri.path, bb) for bb, _ in E.writes} | {(dr.path, bb) for bb, _ in E.reads}
    if fm.ok:
        # the launch-status channel: the parent's read in os_start and the child's report (in os_start or in a child-only helper)
        for bb, t in fm.fn.calls():
            if is_file_io(M.callee_str(t["f"])):
                allowed.add((fm.fn.path, bb))
        for p_ in fm.child_only_fns():
            for bb, t in prog.fns[p_].calls():
                if is_file_io(M.callee_str(t["f"])):
                    allowed.add((p_, bb))
    for ent in ENTRY:
        f = prog.fn(ent)
        if f is None:
            ctx.missing("R01.6", ent)
            continue
        cl = M.local_closure(prog, [ent])
        bad = []
        for p in sorted(cl):
            g = prog.fns[p]
            for bb, t in g.calls():
                if is_file_io(M.callee_str(t["f"])) and (p, bb) not in allowed:
                    bad.append("%s@%s" % (M.callee_str(t["f"]).split("::")[-1], p))
        ctx.ob("R01.6", "single-engine:%s" % ent.split("::", 1)[1], ri.path in cl and not bad, f.loc(0),
               "%s must exchange data only through the poll loop (other pipe I/O reachable: %s)" % (ent, bad))


def run_thorough(ctx):
    # the cfg(windows) sibling implementation, analysed on the windows-msvc build
    import winrules
    winrules.c01_threads_do_the_io(ctx)
    import wincomm
    wincomm.c01_protocol(ctx)
