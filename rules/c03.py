"""C03 — the size limit bounds each read; no data is lost or repeated across reads."""
import mirlib as M
from common import *
from comm import *

SPEC = {
    "explanation": (
        "Decided on the resolved MIR of do_read / read_into / Communicator: (a) with a limit S the buffer handed to the OS "
        "read is never longer than the remaining allowance S - total_read: every path from the `Some(S)` edge to the "
        "read either re-slices the buffer to [0 .. S - total_read] or takes the false edge of "
        "`S - total_read < buf.len()` — so a read cannot overshoot and nothing beyond the limit is consumed; (b) the "
        "allowance is computed from both vectors (total_read = outvec.len() + errvec.len() at both call sites and "
        "in the loop-top test, compared with >=); (c) the limit test precedes the OS read (the early return is on "
        "the true edge of `total_read >= S`, the read on its false edge), so nothing is consumed and then dropped; "
        "(d) every byte read is appended (C02); (e) the streams persist in the communicator across calls — no "
        "store to / take of RawCommunicator::{stdout,stderr} outside the constructor; (f) a successful return below "
        "the limit happens only through the all-streams-retired exit (C01), so all-empty with n >= 1 implies EOF "
        "everywhere; (g) the limit is re-read from the field on each call and limit_size stores its argument."
        " Thorough tier, windows: grow_result says stop exactly under total >= limit (before and after the append), parks the excess in `leftover`, and read_into obeys both answers."
        " A stream is retired only on the zero edge of its own read() (so all-empty data means real end-of-file)."
    ),
    "not_decided": "concatenation equality as a value property; kernel buffering.",
    "trusted_base": ["rustc MIR", "Read::read(buf) returns n <= buf.len()", "slice indexing [0..e] yields length e",
                     "mirlib dominance-by-removal, provenance"],
    "assumptions": [],
}


def run(ctx):
    prog = ctx.prog
    E = Engine(prog)
    ri, dr, T = E.ri, E.dr, E.T
    Td = M.Terms(dr)
    P = {dr.local_name(i): i for i in range(1, dr.arg_count + 1)}
    lim = ("param", P.get("size_limit"), "size_limit")
    S = ("field", ("downcast", lim, "Some"), "0")
    tot = ("param", P.get("total_read"), "total_read")
    if None in (P.get("size_limit"), P.get("total_read")) or len(E.reads) != 1:
        ctx.missing("R03.1", "do_read(size_limit, total_read) with one read site")
        return
    rb, rt = E.reads[0]
    some_e = variant_edges(dr, Td, lambda t: t == lim, 1, [0, 1], "std::option::Option<")
    # "a successful read returns all-empty data only when every captured stream has reached end-of-file": a stream leaves the
    # exchange (and stops counting as open) only on a genuine 0-byte read of its own
    import c01
    c01.eof_retires_stream(ctx, E, dr, Td, "R03.6")
    ctx.ob("R03.1", "limit-branch", len(some_e) >= 1, dr.loc(0), "do_read distinguishes size_limit = Some(S)")

    def is_remaining(t):
        t = M.noref(t)
        t = t[1] if t[0] == "field" and t[2] == "0" else t
        return t[0] == "bin" and t[1] in ("Sub", "SubWithOverflow") and t[2] == S and t[3] == tot

    # re-slice blocks: buf = &mut buf[0 .. S - total_read]  (or [.. S - total_read])
    reslice = []
    for bb, t in dr.calls():
        nm = M.callee_str(t["f"])
        if "index_mut" in nm.lower() or nm.endswith("::index"):
            rng = Td.operand(t["args"][1])
            if rng[0] == "agg" and rng[1][1] in ("std::ops::Range", "std::ops::RangeTo"):
                end = rng[2][-1]
                start_ok = rng[1][1] == "std::ops::RangeTo" or const_of(rng[2][0]) == 0
                if start_ok and is_remaining(end):
                    reslice.append(bb)
            # min form: [.. min(len, S - total)]
            if rng[0] == "agg" and rng[2] and rng[2][-1][0] == "call" and rng[2][-1][1] in ("std::cmp::min", "core::cmp::min") and any(is_remaining(x) for x in rng[2][-1][2]):
                reslice.append(bb)
    # `S - total_read < buf.len()` false edge: buffer already fits
    fits = bool_edges(dr, Td, lambda c: c[0] == "bin" and c[1] == "Lt" and is_remaining(c[2]) and c[3][0] == "call" and c[3][1] == "core::slice::<impl [T]>::len", False) + \
        bool_edges(dr, Td, lambda c: c[0] == "bin" and c[1] == "Ge" and is_remaining(c[2]) and c[3][0] == "call" and c[3][1] == "core::slice::<impl [T]>::len", True) + \
        bool_edges(dr, Td, lambda c: c[0] == "bin" and c[1] == "Gt" and c[2][0] == "call" and c[2][1] == "core::slice::<impl [T]>::len" and is_remaining(c[3]), False) + \
        bool_edges(dr, Td, lambda c: c[0] == "bin" and c[1] == "Le" and c[2][0] == "call" and c[2][1] == "core::slice::<impl [T]>::len" and is_remaining(c[3]), True)
    def bounded(t, depth=0):
        """t <= S - total_read, syntactically: the remaining allowance itself, a min() with it, or a join of such values"""
        t = M.noref(t)
        while t[0] == "cast":
            t = t[2]
        if depth > 8:
            return False
        if is_remaining(t):
            return True
        if t[0] == "call" and t[1] in ("std::cmp::min", "core::cmp::min", "std::cmp::Ord::min") :
            return any(bounded(x, depth + 1) for x in t[2])
        if t[0] == "phi":
            return all(bounded(a, depth + 1) for a in t[1])
        return False
    ok = bool(some_e)
    for e in some_e:
        reach = dr.reachable(e[1], removed_blocks=reslice, removed_edges=set(fits))
        if rb in reach:
            # second way to establish it: under the Some(S) edge the buffer handed to read() is storage[..end] with end <= S - total_read
            region = dr.reachable(e[1])
            Tr_ = M.Terms(dr, blocks=region)
            barg = Tr_.operand(dr.blocks[rb]["term"]["args"][1])
            x = M.noref(barg)
            while x[0] in ("cast", "deref", "ref") or (x[0] == "call" and x[1] in M.TRANSPARENT):
                x = x[2] if x[0] == "cast" else (x[1] if x[0] in ("deref", "ref") else x[2][0])
            okb = False
            # ... provided the value is (re)computed on *every* path from that edge: a definition before the edge would be
            # invisible to the region-restricted terms
            L_ = Td.origin_local(dr.blocks[rb]["term"]["args"][1])
            chain = []
            seen_ = set()
            while L_ is not None and L_ not in seen_:
                seen_.add(L_)
                ds_ = [d_ for d_ in dr.defs().get(L_, []) if d_[2].get("k") != "partial"]
                chain.append((L_, ds_))
                nxt = None
                if len(ds_) == 1 and ds_[0][2].get("k") in ("ref", "use", "cast"):
                    src_ = ds_[0][2].get("p") or (ds_[0][2].get("op") or {}).get("p")
                    if src_ and not [e_ for e_ in src_["proj"] if e_["k"] != "deref"]:
                        nxt = src_["l"]
                L_ = nxt
            root_defs = [d_[0] for d_ in chain[-1][1]] if chain else []
            all_in = bool(root_defs) and all(b_ in region for b_ in root_defs) and dominated_by_blocks(dr, rb, root_defs, start=e[1])
            if not all_in:
                x = ("unknown",)
            if x[0] == "call" and ("index_mut" in x[1].lower() or x[1].endswith("::index")) and len(x[2]) == 2:
                rng = x[2][1]
                if rng[0] == "agg" and rng[1][1] in ("std::ops::Range", "std::ops::RangeTo"):
                    start_ok = rng[1][1] == "std::ops::RangeTo" or const_of(rng[2][0]) == 0
                    okb = start_ok and bounded(rng[2][-1])
            if not okb:
                ok = False
    ctx.ob("R03.1", "read-buffer<=remaining-allowance", ok, dr.loc(rb),
           "with a limit S every path to the OS read must clip the buffer to S - total_read (re-slice at %s) or have established buf.len() <= S - total_read (edges %s): "
           "otherwise one read can return more than the limit allows / consume data that is then over the limit" % (reslice, fits))
    # the buffer passed to read() is the (possibly re-sliced) local, and the comparison is on that same local's length
    # ---- R03.3 the limit test precedes the OS read ------------------------------------------------------------
    ge_false = bool_edges(dr, Td, lambda c: c[0] == "bin" and c[1] == "Ge" and c[2] == tot and c[3] == S, False) + \
        bool_edges(dr, Td, lambda c: c[0] == "bin" and c[1] == "Lt" and c[2] == tot and c[3] == S, True)
    ok = bool(some_e) and all(rb not in dr.reachable(e[1], removed_edges=set(ge_false)) for e in some_e)
    ctx.ob("R03.3", "limit-test-before-read", ok, dr.loc(rb), "with a limit S the OS read must be dominated by the false edge of `total_read >= S` (test first, read second: nothing is consumed and then discarded)")
    ge_true = bool_edges(dr, Td, lambda c: c[0] == "bin" and c[1] == "Ge" and c[2] == tot and c[3] == S, True)
    if ge_true:
        r = dr.reachable(ge_true[0][1])
        calls = [M.callee_str(t["f"]) for b, t in dr.calls(r) if is_file_io(M.callee_str(t["f"]))]
        oks = [v for (b, si, v, rr) in result_variants(dr, M.Explore(dr)) if b in r]
        ctx.ob("R03.3", "at-limit=>return-Ok-untouched", not calls and "Ok" in oks, dr.loc(ge_true[0][0]), "at the limit do_read returns Ok(()) without touching the stream")

    # ---- R03.2 the allowance counts both vectors ---------------------------------------------------------------
    for bb, t in E.do_reads:
        a = [T.operand(x) for x in t["args"]]
        ti = P["total_read"] - 1
        li = P["size_limit"] - 1
        nm = {1: "stdout", 2: "stderr"}
        slot = T.addr(t["args"][0])
        tag = ri.local_name(slot[1][1]) if slot else str(bb)
        ctx.ob("R03.2", "total_read=len(out)+len(err)@%s" % tag, E.len_sum(M.noref(a[ti])), ri.loc(bb), "total_read argument = %s (must be outvec.len() + errvec.len())" % M.term_str(a[ti])[:100])
        ctx.ob("R03.2", "size_limit-passed@%s" % tag, a[li] == ("param", E.params["size_limit"], "size_limit"), ri.loc(bb), "size_limit argument = %s" % M.term_str(a[li]))
    # freshness: the lengths feeding total_read must be read after every append of the same iteration
    head = min(E.loop) if E.loop else 0
    mutators = [bb for bb, t in E.do_reads] + [bb for bb, t in ri.calls(E.loop) if M.callee_str(t["f"]).split("::")[-1] in ("extend_from_slice", "push", "append", "extend", "truncate", "clear")
                                                and M.noref(T.operand(t["args"][0])) in (("param", E.params.get("outvec"), "outvec"), ("param", E.params.get("errvec"), "errvec"))]
    for bb, t in E.do_reads:
        tot_t = T.operand(t["args"][P["total_read"] - 1])
        lens = []
        M.contains(tot_t, lambda u: (u[0] == "call" and u[1] == "std::vec::Vec::<T, A>::len" and lens.append(u[3])) or False)
        stale = []
        for L in lens:
            for O in mutators:
                if O == bb:
                    continue
                if O in ri.reachable(L, stop_blocks=[bb, head]) - {L} and bb in ri.reachable(O, stop_blocks=[head]):
                    stale.append((L, O))
        slot = T.addr(t["args"][0])
        tag = ri.local_name(slot[1][1]) if slot else str(bb)
        ctx.ob("R03.2", "total_read-is-fresh@%s" % tag, bool(lens) and not stale, ri.loc(bb),
               "the byte count handed to do_read must be taken after every append of the same iteration; here the lengths are read at bb%s but another read "
               "(bb%s) appends in between, so this read is clipped against a stale count and one call can return up to twice the limit" % (lens, [o for _, o in stale]))
    # the limit test `outvec.len() + errvec.len() >= limit` (limit = the payload of size_limit), wherever its result travels before it is
    # acted upon (tested at once, kept in a named bool, the answer of an is_some_and closure): with the test answering true and a limit
    # configured, the iteration must leave the loop without reaching the poll
    lim_p = ("param", E.params["size_limit"], "size_limit") if "size_limit" in E.params else None
    lim_pay = ("field", ("downcast", lim_p, "Some"), "0")
    def is_lim_test(c):
        c = M.noref(c)
        if c[0] != "bin":
            return False
        if c[1] == "Ge":
            return E.len_sum(M.noref(c[2])) and M.noref(c[3]) == lim_pay
        if c[1] == "Le":
            return E.len_sum(M.noref(c[3])) and M.noref(c[2]) == lim_pay
        return False
    top = []
    for bb_ in sorted(E.loop):
        for s_ in ri.blocks[bb_]["stmts"]:
            if s_["k"] == "assign" and s_["r"]["k"] == "bin" and is_lim_test(T.rvalue(s_["r"])):
                top.append((bb_, None))
    ok = len(top) == 1 and lim_p is not None
    if ok:
        ex_t = M.Explore(ri, start=min(E.loop), assume_fn=lambda t_: 1 if (t_ and (is_lim_test(t_) or M.noref(t_) == lim_p)) else None, tries="ok")
        ok = bool(E.mp_call) and E.mp_call[0] not in ex_t.blocks and top[0][0] in ex_t.blocks
    ctx.ob("R03.2", "loop-top-test", ok, ri.loc(top[0][0] if top else 0), "the loop is left when outvec.len() + errvec.len() >= limit (both vectors, >=)")
    if ok and E.mp_call:
        # the test precedes the poll of the same iteration: the poll is unreachable from the loop head once the test block is removed
        ctx.ob("R03.2", "loop-top-test-before-poll", dominated_by_blocks(ri, E.mp_call[0], [top[0][0]], start=min(E.loop)) or ("size_limit" in E.params and
               all(E.mp_call[0] not in ri.reachable(e_[1], removed_blocks=[top[0][0]], stop_blocks=[E.mp_call[0]])
                   for e_ in variant_edges(ri, T, lambda t: t == ("param", E.params["size_limit"], "size_limit"), 1, [0, 1], "std::option::Option<"))),
               ri.loc(top[0][0]), "with a limit, the limit test sits between the loop head and the poll of the same iteration")

    # ---- R03.4 streams persist -----------------------------------------------------------------------------------
    RC = "communicate::raw::RawCommunicator"
    n = 0
    for p, fn in sorted(prog.fns.items()):
        for fld in ("stdout", "stderr"):
            for bb, si, s in stores_to_field(fn, fld, RC):
                n += 1
                ctx.ob("R03.4", "store:%s@%s" % (fld, p), False, fn.loc(bb, si if si != "term" else None), "RawCommunicator::%s is overwritten outside the constructor: a later read() loses the stream" % fld)
            for bb, si in mut_borrows_of_field(fn, fld, RC):
                ctx.ob("R03.4", "mut-borrow:%s@%s" % (fld, p), False, fn.loc(bb, si), "RawCommunicator::%s is mutably borrowed (take()/replace would drop the stream between reads)" % fld)
    ag = [(fn, bb) for p, fn in prog.fns.items() for bb, si, r in aggregates_of(fn, RC)]
    ctx.ob("R03.4", "constructed-only-in-new", [f.path for f, _ in ag] == [RC + "::new"], "", "RawCommunicator is constructed in %s" % [f.path for f, _ in ag])
    # read_into only borrows them immutably
    for nm, loc in (("stdout", None), ("stderr", None)):
        pass
    # ---- R03.5 the limit is re-read each call ------------------------------------------------------------------------
    cr = prog.one("communicate::Communicator::read")
    Tc = M.Terms(cr)
    rc = cr.calls_to(lambda f: M.callee_str(f) == "communicate::raw::RawCommunicator::read")
    ok = len(rc) == 1 and M.noref(Tc.operand(rc[0][1]["args"][2])) == ("field", ("param", 1, cr.local_name(1)), "size_limit") and M.noref(Tc.operand(rc[0][1]["args"][0])) == ("field", ("param", 1, cr.local_name(1)), "inner")
    ctx.ob("R03.5", "read.passes-self.size_limit", ok, cr.loc(0), "Communicator::read passes self.size_limit (a field load on every call) to self.inner")
    ls = prog.one("communicate::Communicator::limit_size")
    rf = builder_result_fields(ls, "communicate::Communicator")
    ok = rf is not None and set(rf[0]) == {"size_limit"} and rf[0]["size_limit"] == ("agg", ("adt", "std::option::Option", "Some"), (("param", 2, ls.local_name(2)),))
    others = [p for p, fn in prog.fns.items() if p != ls.path and (stores_to_field(fn, "size_limit", "communicate::Communicator") or
              any("size_limit" in (builder_result_fields(fn, "communicate::Communicator") or ({}, None))[0] for _ in [0] if aggregates_of(fn, "communicate::Communicator") and not fn.path.endswith("Communicator::new")))]
    ctx.ob("R03.5", "limit_size.stores-Some(arg)", ok and not others, ls.loc(0), "limit_size stores Some(size); other writers of the field: %s" % others)
    rr = prog.one("communicate::raw::RawCommunicator::read")
    Tr = M.Terms(rr)
    c = rr.calls_to(lambda f: M.callee_str(f) == RI)
    ok = len(c) == 1 and Tr.operand(c[0][1]["args"][E.params["size_limit"] - 1]) == ("param", 3, rr.local_name(3))
    ctx.ob("R03.5", "RawCommunicator::read.passes-limit", ok, rr.loc(0), "the limit reaches read_into unchanged")


def run_thorough(ctx):
    # the cfg(windows) sibling implementation, analysed on the windows-msvc build
    import winrules
    winrules.c03_leftover(ctx)
    import wincomm
    wincomm.c03_grow(ctx)
