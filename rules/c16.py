"""C16 — Exec builder calls compose like edits on a plain command description."""
import itertools
import mirlib as M
from common import *

SPEC = {
    "explanation": (
        "Finite tables and guard discipline decided on the resolved MIR: (a) set-once tables, enumerated exhaustively: "
        "Exec::stdin over 5 current settings x (5 redirections + fed data) = 30 rows, Exec::stdout and Exec::stderr "
        "5 x 5 = 25 rows each — for every row exactly one of {store the new value, keep, panic} as the statement "
        "demands (current None -> store; Pipe+Pipe -> keep; anything else -> refused loudly); "
        "From<Redirection> for InputRedirection refuses Merge; (b) terminator discipline: every public terminator of "
        "Exec (7) and Pipeline (6) either has check_no_stdin_data dominating everything that can create a process, "
        "or hands the very stdin_data to the communicator; (c) Exec::shell passes its string as one argument after "
        "the two platform constants (no splitting function reachable); (d) arg/args/env/env_extend only append, popen "
        "inserts the command at index 0 and passes args/config whole, every env edit snapshots the environment first; "
        "(e) Clone / try_clone are field-wise and variant-wise (nothing dropped or defaulted), and the description "
        "holds no shared mutable state; (f) env_remove keeps an entry iff its key differs from the argument."
        " Also: each env edit is applied on every path and nothing else touches config.env; Pipeline::clone is field-wise; setup_communicate pipes stdout on its own only when neither output was configured, and nothing else; stream_* adapters pipe exactly the stream they are named after."
    ),
    "not_decided": "the environment-edit algebra over arbitrary call sequences (inherit / clear / set / remove / set-again with "
                   "last-wins) as a history-quantified statement about run-time vectors; File::try_clone sharing file offsets.",
    "trusted_base": ["rustc MIR", "Vec::push/extend/insert/retain, Option::take (std)", "mirlib finite-domain exploration, provenance, dominance"],
    "assumptions": [],
}

RV = ["None", "Pipe", "Merge", "File", "RcFile"]
EXEC = "builder::exec::Exec"
PIPE = "builder::pipeline::Pipeline"


def outcome(fn, ex, T, field_path):
    """('store', value-term) | ('keep',) | ('panic',) | ('mixed', ...) under an exploration"""
    stores = []
    for bb in sorted(ex.blocks):
        for si, s in enumerate(fn.blocks[bb]["stmts"]):
            if s["k"] == "assign" and s["p"]["proj"]:
                names = [e.get("name") for e in s["p"]["proj"] if e["k"] == "field"]
                if names == field_path and s["p"]["l"] == 1:
                    stores.append(T.rvalue(s["r"]))
                elif s["p"]["proj"][0]["k"] == "deref" and s["p"]["l"] != 1:
                    # through a reference bound to that very field (a helper that got `&mut self.config.stdout`)
                    sl = T.place_slot(s["p"])
                    if sl is not None and sl[1][0] == "param" and sl[1][1] == 1 and [x for x in sl[2] if x != "*"] == list(field_path):
                        stores.append(T.rvalue(s["r"]))
    panics = [bb for bb, t in ex.calls() if is_panic_call(t)]
    rets = ex.returns()
    if panics and not rets and not stores:
        return ("panic",)
    if rets and not panics:
        if len(stores) == 1:
            return ("store", stores[0])
        if not stores:
            return ("keep",)
    return ("mixed", len(stores), bool(panics), bool(rets))


def run(ctx):
    prog = ctx.prog
    red = {v["name"]: v["discr"] for v in prog.adts["popen::Redirection"]["variants"]}
    if sorted(red) != sorted(RV):
        ctx.ob("R16.1", "redirection-variants", False, "", "Redirection variants changed: %s" % sorted(red))
        return
    ired = {v["name"]: v["discr"] for v in prog.adts["builder::exec::InputRedirection"]["variants"]}

    # ---- R16.1 set-once tables --------------------------------------------------------------
    rows = 0
    fs = prog.one("builder::exec::Exec::stdin")
    T = M.Terms(fs)
    cur = ("field", ("field", ("param", 1, fs.local_name(1)), "config"), "stdin")
    into = [(bb, t) for bb, t in fs.calls() if M.callee_str(t["f"]) == "std::convert::Into::into"]
    if len(into) != 1:
        ctx.ob("R16.1", "stdin.shape", False, fs.loc(0), "expected one Into::into call in Exec::stdin")
    else:
        newv = ("call", "std::convert::Into::into", tuple(T.operand(a) for a in into[0][1]["args"]), into[0][0])
        inner = ("field", ("downcast", newv, "AsRedirection"), "0")
        data = ("field", ("downcast", newv, "FeedData"), "0")
        for c in RV:
            for n in RV + ["<data>"]:
                rows += 1
                assume = {cur: red[c]}
                if n == "<data>":
                    assume[newv] = ired["FeedData"]
                else:
                    assume[newv] = ired["AsRedirection"]
                    assume[inner] = red[n]
                ex = M.Explore(fs, assume=assume)
                Tx = M.Terms(fs, blocks=ex.blocks)
                got = outcome(fs, ex, Tx, ["config", "stdin"])
                dstore = outcome(fs, ex, Tx, ["stdin_data"])
                if c == "None" and n != "<data>":
                    ok = got == ("store", inner) and dstore == ("keep",)
                    want = "store the new redirection"
                elif c == "None":
                    ok = got == ("store", ("agg", ("adt", "popen::Redirection", "Pipe"), ())) and dstore == ("store", ("agg", ("adt", "std::option::Option", "Some"), (data,)))
                    want = "store Pipe and keep the data"
                elif c == "Pipe" and n == "Pipe":
                    ok = got == ("keep",) and dstore == ("keep",)
                    want = "keep (Pipe requested twice)"
                else:
                    ok = got == ("panic",)
                    want = "refuse loudly (stream already configured)"
                ctx.ob("R16.1", "stdin[%s<-%s]" % (c, n), ok, fs.loc(0), "current %s, new %s: must %s; found %s / data %s" % (c, n, want, got[0], dstore[0]))
    for meth in ("stdout", "stderr"):
        f = prog.one("builder::exec::Exec::" + meth)
        T = M.Terms(f)
        cur = ("field", ("field", ("param", 1, f.local_name(1)), "config"), meth)
        ir = [(bb, t) for bb, t in f.calls() if M.callee_str(t["f"]) == "builder::exec::OutputRedirection::into_redirection"]
        if len(ir) != 1:
            ctx.ob("R16.1", "%s.shape" % meth, False, f.loc(0), "expected one into_redirection call")
            continue
        newv = ("call", M.callee_str(ir[0][1]["f"]), tuple(T.operand(a) for a in ir[0][1]["args"]), ir[0][0])
        for c in RV:
            for n in RV:
                rows += 1
                ex = M.Explore(f, assume={cur: red[c], newv: red[n]})
                Tx = M.Terms(f, blocks=ex.blocks)
                got = outcome(f, ex, Tx, ["config", meth])
                if c == "None":
                    ok = got == ("store", newv)
                    want = "store the new redirection"
                elif c == "Pipe" and n == "Pipe":
                    ok = got == ("keep",)
                    want = "keep"
                else:
                    ok = got == ("panic",)
                    want = "refuse loudly"
                ctx.ob("R16.1", "%s[%s<-%s]" % (meth, c, n), ok, f.loc(0), "current %s, new %s: must %s; found %s" % (c, n, want, got[0]))
        # other stream fields untouched
        other = [e for e in ("stdin", "stdout", "stderr") if e != meth]
        bad = [o for o in other if stores_to_field(f, o, "popen::PopenConfig")]
        ctx.ob("R16.1", "%s.only-own-field" % meth, not bad, f.loc(0), "Exec::%s writes other stream fields: %s" % (meth, bad))
    ctx.floor("R16.1", "set-once table rows", rows, 80)
    ctx.exhaustive = True
    fr = prog.one("<builder::exec::InputRedirection as std::convert::From<popen::Redirection>>::from")
    for n in RV:
        ex = M.Explore(fr, assume={("param", 1, fr.local_name(1)): red[n]})
        panics = [1 for bb, t in ex.calls() if is_panic_call(t)]
        if n == "Merge":
            ok = bool(panics) and not ex.returns()
        else:
            ok = not panics and bool(ex.returns())
        ctx.ob("R16.1", "InputRedirection::from[%s]" % n, ok, fr.loc(0), "Redirection::%s as stdin must %s" % (n, "be refused" if n == "Merge" else "be accepted"))
    # OutputRedirection is transparent
    oi = prog.one("builder::exec::OutputRedirection::into_redirection")
    r0 = M.Terms(oi).local(0)
    ctx.ob("R16.1", "into_redirection=identity", r0 == ("field", ("param", 1, oi.local_name(1)), "0"), oi.loc(0), "OutputRedirection::into_redirection returns its payload")
    of = prog.one("<builder::exec::OutputRedirection as std::convert::From<popen::Redirection>>::from")
    r0 = M.Terms(of).local(0)
    ctx.ob("R16.1", "OutputRedirection::from=wrap", r0 == ("agg", ("adt", "builder::exec::OutputRedirection", "OutputRedirection"), (("param", 1, of.local_name(1)),)), of.loc(0), "From<Redirection> for OutputRedirection wraps its argument")

    # ---- R16.2 terminator discipline --------------------------------------------------------
    can_create = {p for p in prog.fns if "popen::Popen::create" in M.local_closure(prog, [p])}
    terms = {EXEC: ["popen", "join", "stream_stdout", "stream_stderr", "stream_stdin", "communicate", "capture"],
             PIPE: ["popen", "join", "stream_stdout", "stream_stdin", "communicate", "capture"]}
    # public self-consuming methods that can create a process: census
    for ty, names in terms.items():
        found = sorted(p.split("::")[-1] for p, f in prog.fns.items() if p.startswith(ty + "::") and p.count("::") == ty.count("::") + 1 and f.j.get("vis") == "pub"
                       and p in can_create and f.j.get("inputs", [""])[0] == ty)
        ctx.ob("R16.2", "%s.terminators" % ty.split("::")[-1], found == sorted(names), "", "public consuming methods of %s that can create a process: %s (rule table: %s)" % (ty, found, sorted(names)))
    delivers = {}
    for ty in (EXEC, PIPE):
        sc = prog.fn(ty + "::setup_communicate")
        if sc is None:
            ctx.missing("R16.2", ty + "::setup_communicate")
            continue
        Ts = M.Terms(sc)
        sinks = [(bb, t, 1) for bb, t in sc.calls() if M.callee_str(t["f"]) == "popen::Popen::communicate_start"] + \
                [(bb, t, 3) for bb, t in sc.calls() if M.callee_str(t["f"]) == "communicate::communicate"]
        ok = len(sinks) == 1
        if ok:
            bb, t, ai = sinks[0]
            v = Ts.operand(t["args"][ai])
            ok = v[0] == "call" and v[1] == "std::option::Option::<T>::take"
            if ok:
                src = M.noref(v[2][0])
                ok = any(a[0] == "field" and a[2] == "stdin_data" for a in M.alts(src))
        delivers[ty] = ok
        ctx.ob("R16.2", "%s::setup_communicate.delivers-stdin_data" % ty.split("::")[-1], ok, sc.loc(0), "the stdin_data taken from the builder must be what the communicator receives as input")
    # a terminator is safe if everything in it that can create a process is (a) dominated by its own
    # check_no_stdin_data, (b) a call to a safe terminator of the same builder type (which refuses first), or
    # (c) a call to setup_communicate, which delivers the data.  Least fixpoint over the terminators.
    safe = set()
    info = {}
    changed = True
    while changed:
        changed = False
        for ty, names in terms.items():
            for n in names:
                path = "%s::%s" % (ty, n)
                f = prog.fn(path)
                if f is None or path in safe:
                    continue
                creators = [(bb, t) for bb, t in f.calls() if M.callee_names(t["f"]) & can_create]
                chk = [bb for bb, t in f.calls() if M.callee_str(t["f"]) == ty + "::check_no_stdin_data"]
                ok = bool(creators)
                why = []
                for bb, t in creators:
                    cal = M.callee_str(t["f"])
                    if dominated_by_blocks(f, bb, chk):
                        why.append("checked")
                    elif cal in safe and cal.startswith(ty + "::"):
                        why.append("via " + cal.split("::")[-1])
                    elif cal == ty + "::setup_communicate" and delivers.get(ty, False):
                        why.append("delivered")
                    else:
                        ok = False
                        why.append("UNGUARDED " + cal.split("::")[-1])
                info[path] = why
                if ok:
                    safe.add(path)
                    changed = True
    for ty, names in terms.items():
        for n in names:
            path = "%s::%s" % (ty, n)
            f = prog.fn(path)
            if f is None:
                ctx.missing("R16.2", path)
                continue
            ctx.ob("R16.2", "%s::%s" % (ty.split("::")[-1], n), path in safe, f.loc(0),
                   "%s::%s must refuse pending input data before any process is created (its own check_no_stdin_data, or a checked terminator of the same builder) "
                   "or deliver it through setup_communicate: %s" % (ty.split("::")[-1], n, info.get(path)))
    for ty in (EXEC, PIPE):
        ck = prog.fn(ty + "::check_no_stdin_data")
        if ck is None:
            ctx.missing("R16.2", ty + "::check_no_stdin_data")
            continue
        Tk = M.Terms(ck)
        e = bool_edges(ck, Tk, lambda c: c[0] == "call" and c[1] == "std::option::Option::<T>::is_some" and M.noref(c[2][0]) == ("field", ("param", 1, ck.local_name(1)), "stdin_data"), True)
        pan = [bb for bb, t in ck.calls() if is_panic_call(t)]
        ok = bool(pan) and all(dominated_by_edges(ck, b, e) for b in pan) and bool(e) and not (ck.reachable(e[0][1]) & set(ck.return_blocks()))
        ctx.ob("R16.2", "%s::check_no_stdin_data.panics-iff-data" % ty.split("::")[-1], ok, ck.loc(0), "check_no_stdin_data must panic exactly when stdin_data is Some")

    # communicate()/capture() pipe stdout on their own only when the caller asked for neither output stream: a stream the caller left
    # unset next to a captured one stays inherited (it is reported as absent), it is not silently redirected
    for ty_, fld_ in ((EXEC, ("config",)), ("builder::pipeline::Pipeline", ())):
        scf = prog.fn(ty_ + "::setup_communicate")
        if scf is None:
            continue
        Ts_ = M.Terms(scf)
        selfs = ("param", 1, scf.local_name(1))
        base_ = selfs
        for f_ in fld_:
            base_ = ("field", base_, f_)
        forced = [(bb, t) for bb, t in scf.calls() if M.callee_str(t["f"]) == ty_ + "::stdout"]
        if ty_ == EXEC:
            n_out = variant_edges(scf, Ts_, lambda t: any(M.noref(M.strip(a_)) == ("field", base_, "stdout") for a_ in M.alts(M.noref(M.strip(t)))), REDIR["None"], list(REDIR.values()), "popen::Redirection")
            n_err = variant_edges(scf, Ts_, lambda t: any(M.noref(M.strip(a_)) == ("field", base_, "stderr") for a_ in M.alts(M.noref(M.strip(t)))), REDIR["None"], list(REDIR.values()), "popen::Redirection")
            allset = [(bb, M.callee_str(t["f"]).split("::")[-1]) for bb, t in scf.calls() if M.callee_str(t["f"]) in (ty_ + "::stdin", ty_ + "::stdout", ty_ + "::stderr")]
            ctx.ob("R16.2", "Exec::setup_communicate.forces-only-stdout", [n for _, n in allset] == ["stdout"] and all(M.contains(Ts_.operand(t["args"][1]), lambda u: u[0] == "agg" and u[1][:3] == ("adt", "popen::Redirection", "Pipe")) for _, t in forced),
                   scf.loc(allset[0][0] if allset else 0), "the only stream setup_communicate configures on its own is stdout := Pipe (setter calls: %s)" % [n for _, n in allset])
            for bb, t in forced:
                # ... decided per configured value as well: with stdout (or stderr) set to anything but None the forcing call is not reached
                def never_when(field_):
                    isf = lambda t_: any(M.noref(M.strip(a_)) == ("field", base_, field_) for a_ in M.alts(M.noref(M.strip(t_))))
                    return all(bb not in M.Explore(scf, assume_fn=lambda t_, v_=v_: v_ if (t_ and isf(t_)) else None).blocks for n_, v_ in REDIR.items() if n_ != "None")
                by_eval = never_when("stdout") and never_when("stderr")
                ctx.ob("R16.2", "Exec::setup_communicate.forces-stdout-only-if-both-unset", (bool(n_out) and bool(n_err) and dominated_by_edges(scf, bb, n_out) and dominated_by_edges(scf, bb, n_err)) or by_eval, scf.loc(bb),
                       "self.stdout(Pipe) inside setup_communicate must be dominated by config.stdout == None and config.stderr == None")

    # stream_*() adapters pipe exactly the stream they are named after (and hand out that stream's parent end)
    for ty_ in (EXEC, "builder::pipeline::Pipeline"):
        for stream in ("stdin", "stdout", "stderr"):
            f_ = prog.fn("%s::stream_%s" % (ty_, stream))
            if f_ is None:
                if not (ty_.endswith("Pipeline") and stream == "stderr"):
                    ctx.missing("R16.7", "%s::stream_%s" % (ty_, stream))
                continue
            Tf_ = M.Terms(f_)
            setters = [(bb, M.callee_str(t["f"]).split("::")[-1], Tf_.operand(t["args"][1])) for bb, t in f_.calls()
                       if M.callee_str(t["f"]) in tuple("%s::%s" % (ty_, x) for x in ("stdin", "stdout", "stderr"))]
            ok = len(setters) == 1 and setters[0][1] == stream and M.contains(setters[0][2], lambda u: u[0] == "agg" and u[1][:3] == ("adt", "popen::Redirection", "Pipe"))
            ctx.ob("R16.7", "%s.stream_%s.pipes-%s" % (ty_.split("::")[-1], stream, stream), ok, f_.loc(0),
                   "stream_%s must set exactly self.%s(Redirection::Pipe) (setter calls found: %s)" % (stream, stream, [(n, M.term_str(a)[:40]) for _, n, a in setters]))

    # ---- R16.3 Exec::shell -------------------------------------------------------------------------
    sh = prog.one("builder::exec::Exec::shell")
    Th = M.Terms(sh)
    calls = [(M.callee_str(t["f"]), [Th.operand(a) for a in t["args"]], bb) for bb, t in sh.calls()]
    names = [c[0] for c in calls]
    cmdstr = ("param", 1, sh.local_name(1))
    uses = [c for c in calls if any(M.contains(a, lambda u: u == cmdstr) for a in c[1])]
    direct = [c for c in calls if any(M.noref(a) == cmdstr for a in c[1])]
    ok = len(direct) == 1 and direct[0][0] == "builder::exec::Exec::arg" and not [n for n in names if "split" in n or "words" in n or "lines" in n]
    ctx.ob("R16.3", "shell.string-is-one-arg", ok, sh.loc(0), "Exec::shell must pass its string to exactly one Exec::arg call and never split it (calls: %s)" % [n.split("::")[-1] for n in names])
    r0 = Th.local(0)
    # the builder chain, innermost first: cmd(SHELL[0]) [.args(&SHELL[1..]) | .arg(SHELL[1])...] .arg(cmdstr)
    chain_ = []
    x_ = r0
    while x_[0] == "call" and x_[1] in ("builder::exec::Exec::arg", "builder::exec::Exec::args"):
        chain_.append((x_[1].split("::")[-1], x_[2][1]))
        x_ = x_[2][0]
    chain_.reverse()
    nshell = len(prog.consts.get("builder::os::SHELL") or [])

    def shell_idx(t_):
        t_ = M.noref(t_)
        if t_[0] in ("index", "cidx") and t_[1][0] == "const" and t_[1][2] == "builder::os::SHELL":
            return const_of(t_[2]) if t_[0] == "index" else t_[2]
        return None
    okc = x_[0] == "call" and x_[1] == "builder::exec::Exec::cmd" and shell_idx(x_[2][0]) == 0 and bool(chain_) and chain_[-1] == ("arg", cmdstr)
    covered = [0]
    for kind_, a_ in chain_[:-1]:
        if kind_ == "arg" and shell_idx(a_) is not None:
            covered.append(shell_idx(a_))
        elif kind_ == "args":
            sl = M.noref(a_)
            prom = sh.j.get("promoted", [])
            is_shell_copy = any(any(s2["k"] == "assign" and s2["r"]["k"] == "use" and s2["r"]["op"].get("name") == "builder::os::SHELL" for b2 in pb["blocks"] for s2 in b2["stmts"]) for pb in prom) or \
                M.contains(sl, lambda u: u[0] == "const" and u[2] == "builder::os::SHELL")
            if sl[0] == "call" and "index" in sl[1].lower() and sl[2][1][0] == "agg" and sl[2][1][1][1] == "std::ops::RangeFrom" and is_shell_copy:
                covered += list(range(const_of(sl[2][1][2][0]), nshell))
            else:
                okc = False
        else:
            okc = False
    okc = okc and covered == list(range(nshell)) and nshell >= 1
    detail = "SHELL entries passed before the string, in order: %s of %d" % (covered, nshell)
    ctx.ob("R16.3", "shell=cmd(SHELL[0])+SHELL[1..]+arg(s)", okc, sh.loc(0), "Exec::shell = %s ; %s" % (M.term_str(r0)[:140], detail))
    shv = prog.consts.get("builder::os::SHELL")
    ctx.ob("R16.3", "SHELL=[sh,-c]", shv == ["sh", "-c"] if "linux" in (prog.target or "") or "unix" in (prog.target or "") or True else True, "", "unix SHELL constant = %s (must be [\"sh\", \"-c\"])" % (shv,))

    # ---- R16.4 append-only edits -----------------------------------------------------------------------
    def only_call(fn, callee):
        cs = fn.calls_to(lambda f: M.callee_str(f) == callee)
        return cs[0] if len(cs) == 1 else None
    fa = prog.one("builder::exec::Exec::arg")
    Ta = M.Terms(fa)
    c = only_call(fa, "std::vec::Vec::<T, A>::push")
    mut = [M.callee_str(t["f"]) for _, t in fa.calls() if M.callee_str(t["f"]).startswith("std::vec::Vec::") and not M.callee_str(t["f"]).endswith("::push")]
    ok = c is not None and not mut
    if ok:
        a = [Ta.operand(x) for x in c[1]["args"]]
        ok = M.noref(a[0]) == ("field", ("param", 1, fa.local_name(1)), "args") and M.strip(a[1], also=("<std::ffi::OsStr as std::borrow::ToOwned>::to_owned",)) == ("param", 2, fa.local_name(2))
    ctx.ob("R16.4", "arg=push(args, arg)", ok, fa.loc(0), "Exec::arg must append its argument to self.args (no insert/other mutation: %s)" % mut)
    fg = prog.one("builder::exec::Exec::args")
    Tg = M.Terms(fg)
    c = only_call(fg, "<std::vec::Vec<T, A> as std::iter::Extend<T>>::extend")
    ok = c is not None
    if ok:
        a = [Tg.operand(x) for x in c[1]["args"]]
        it = a[1]
        ok = M.noref(a[0]) == ("field", ("param", 1, fg.local_name(1)), "args") and it[0] == "call" and it[1] == "std::iter::Iterator::map" and it[2][0][0] == "call" and it[2][0][1] == "core::slice::<impl [T]>::iter" \
            and M.noref(it[2][0][2][0]) == ("param", 2, fg.local_name(2))
        cl = prog.fn("builder::exec::Exec::args::{closure#0}")
        if cl:
            rr = M.Terms(cl).local(0)
            ok = ok and rr[0] == "call" and rr[1].endswith("to_owned") and M.strip(rr, also=(rr[1],))[0] == "param"
    ctx.ob("R16.4", "args=extend(args, slice-order)", ok, fg.loc(0), "Exec::args must extend self.args with the slice's elements in order")
    fp = prog.one("builder::exec::Exec::popen")
    Tp = M.Terms(fp)
    c = only_call(fp, "std::vec::Vec::<T, A>::insert")
    cr = only_call(fp, "popen::Popen::create")
    ok = c is not None and cr is not None
    if ok:
        selfp = ("param", 1, fp.local_name(1))
        a = [M.noref(Tp.operand(x)) for x in c[1]["args"]]
        b = [M.noref(Tp.operand(x)) for x in cr[1]["args"]]
        ok = a == [("field", selfp, "args"), ("const", 0, None), ("field", selfp, "command")] and M.strip(b[0]) == ("field", selfp, "args") and b[1] == ("field", selfp, "config") \
            and dominated_by_blocks(fp, cr[0], [c[0]])
    ctx.ob("R16.4", "popen=insert(0,command);create(args,config)", ok, fp.loc(0), "Exec::popen must put the command in front of the arguments and hand the whole vector and config to Popen::create")
    for meth, mutator in (("env", "std::vec::Vec::<T, A>::push"), ("env_extend", "<std::vec::Vec<T, A> as std::iter::Extend<T>>::extend"), ("env_remove", "std::vec::Vec::<T, A>::retain")):
        f = prog.one("builder::exec::Exec::" + meth)
        Tf = M.Terms(f)
        en = [bb for bb, t in f.calls() if M.callee_str(t["f"]) == "builder::exec::Exec::ensure_env"]
        mu = f.calls_to(lambda c: M.callee_str(c) == mutator)
        looped = False
        if meth == "env_extend" and not mu:
            # the same edit spelled as a loop: for (k, v) in vars { env.push((k.to_owned(), v.to_owned())) } -- every element, in order
            pu_ = f.calls_to(lambda c: M.callee_str(c) == "std::vec::Vec::<T, A>::push")
            lps_ = M.sccs(f)
            if len(pu_) == 1 and len(lps_) == 1 and pu_[0][0] in lps_[0]:
                nx_ = [(b_, t_) for b_, t_ in f.calls(lps_[0]) if M.callee_str(t_["f"]).endswith("as std::iter::Iterator>::next")]
                if len(nx_) == 1:
                    src_ = M.noref(Tf.operand(nx_[0][1]["args"][0]))
                    chain_ = []
                    while src_[0] == "call" and src_[2]:
                        chain_.append(src_[1].split("::")[-1])
                        src_ = M.noref(src_[2][0])
                    item_ = ("call", M.callee_str(nx_[0][1]["f"]), tuple(Tf.operand(a_) for a_ in nx_[0][1]["args"]), nx_[0][0])
                    pair_ = M.noref(Tf.operand(pu_[0][1]["args"][1]))
                    TO = ("<std::ffi::OsStr as std::borrow::ToOwned>::to_owned", "std::ffi::OsStr::to_os_string", "std::convert::AsRef::as_ref")
                    comp_ok = pair_[0] == "agg" and pair_[1] == "tuple" and len(pair_[2]) == 2 and all(
                        M.noref(M.strip(pair_[2][k_], also=TO)) == M.noref(("field", ("field", ("downcast", item_, "Some"), "0"), str(k_))) for k_ in (0, 1))
                    whole_ = src_ == ("param", 2, f.local_name(2)) and all(c_ in ("into_iter", "iter") for c_ in chain_)
                    every_ = not M.sccs(f, removed={pu_[0][0]})
                    if comp_ok and whole_ and every_:
                        mu, looped = pu_, True
        ok = len(mu) == 1 and bool(en) and dominated_by_blocks(f, mu[0][0], en)
        if ok:
            tgt = M.noref(M.strip(Tf.operand(mu[0][1]["args"][0])))
            ok = tgt == ("field", ("field", ("param", 1, f.local_name(1)), "config"), "env")
            if not ok and tgt[0] == "call" and tgt[1] == "builder::exec::Exec::ensure_env" and M.noref(M.strip(tgt[2][0])) == ("param", 1, f.local_name(1)):
                # ensure_env hands out the list itself: what it returns is the payload of self.config.env
                ee_ = prog.one("builder::exec::Exec::ensure_env")
                r_ = M.noref(M.strip(M.Terms(ee_).local(0)))
                ok = r_ == ("field", ("field", ("param", 1, ee_.local_name(1)), "config"), "env")
        ctx.ob("R16.4", "%s.snapshot-then-%s" % (meth, mutator.split("::")[-1]), ok, f.loc(0), "Exec::%s must call ensure_env before it edits config.env with %s" % (meth, mutator.split("::")[-1]))
        # an *ordered edit*: the one mutation is applied on every path (not only when the name is new / present), and nothing else touches the list —
        # the later of duplicate names wins downstream (format_env), so an in-place overwrite of an earlier entry is silently lost
        uncond = len(mu) == 1 and (looped or all(dominated_by_blocks(f, r_, [mu[0][0]]) for r_ in f.return_blocks()))
        envf = ("field", ("field", ("param", 1, f.local_name(1)), "config"), "env")
        ACCESS = ("std::option::Option::<T>::as_mut", "std::option::Option::<T>::unwrap", "std::option::Option::<T>::expect", "builder::exec::Exec::ensure_env",
                  "std::option::Option::<T>::as_deref_mut", "std::option::Option::<T>::get_or_insert_with", mutator) + (("std::vec::Vec::<T, A>::push",) if looped else ())
        others = sorted({M.callee_str(t_["f"]) for bb_, t_ in f.calls() if not is_panic_call(t_) and M.callee_str(t_["f"]) not in ACCESS
                         and any(M.contains(Tf.operand(a_), lambda u: u == envf) for a_ in t_["args"])})
        ctx.ob("R16.4", "%s.unconditional-single-edit" % meth, uncond and not others, f.loc(mu[0][0] if mu else 0),
               "Exec::%s applies %s on every path to return and performs no other access to config.env (conditional edit: %s; other operations on the list: %s)"
               % (meth, mutator.split("::")[-1], not uncond, others))
    fe = prog.one("builder::exec::Exec::env")
    Te = M.Terms(fe)
    c = only_call(fe, "std::vec::Vec::<T, A>::push")
    ok = c is not None
    if ok:
        v = Te.operand(c[1]["args"][1])
        ok = v[0] == "agg" and v[1] == "tuple" and [M.strip(x, also=("<std::ffi::OsStr as std::borrow::ToOwned>::to_owned",)) for x in v[2]] == [("param", 2, fe.local_name(2)), ("param", 3, fe.local_name(3))]
    ctx.ob("R16.4", "env=push((key,value))", ok, fe.loc(0), "Exec::env appends (key, value) in that order")
    ee = prog.one("builder::exec::Exec::ensure_env")
    Tee = M.Terms(ee)
    st = stores_to_field(ee, "env", "popen::PopenConfig")
    e = option_none_edges(ee, Tee, lambda x: M.noref(x) == ("field", ("field", ("param", 1, ee.local_name(1)), "config"), "env"))
    ok = len(st) == 1 and dominated_by_edges(ee, st[0][0], e)
    if ok:
        v = Tee.rvalue(st[0][2]["r"])
        ok = v[0] == "agg" and v[1][:3] == ("adt", "std::option::Option", "Some") and v[2][0][0] == "call" and v[2][0][1] == "popen::PopenConfig::current_env"
    ctx.ob("R16.4", "ensure_env.snapshot-iff-None", ok, ee.loc(0), "ensure_env stores Some(current_env()) only when config.env is None")
    ce = prog.one("popen::PopenConfig::current_env")
    r0 = M.Terms(ce).local(0)
    ctx.ob("R16.4", "current_env=vars_os", r0[0] == "call" and r0[1] == "std::iter::Iterator::collect" and r0[2][0] == ("call", "std::env::vars_os", (), r0[2][0][3]), ce.loc(0), "current_env collects env::vars_os()")
    ec = prog.one("builder::exec::Exec::env_clear")
    Tc = M.Terms(ec)
    st = stores_to_field(ec, "env", "popen::PopenConfig")
    ok = len(st) == 1
    if ok:
        v = Tc.rvalue(st[0][2]["r"])
        ok = v[0] == "agg" and v[1][:3] == ("adt", "std::option::Option", "Some") and v[2][0][0] == "call" and v[2][0][1] in ("std::vec::Vec::<T>::new",) and not v[2][0][2]
    ctx.ob("R16.4", "env_clear=Some(empty)", ok, ec.loc(0), "env_clear stores Some(<empty vector>)")
    fc = prog.one("builder::exec::Exec::cwd")
    st = stores_to_field(fc, "cwd", "popen::PopenConfig")
    ok = len(st) == 1
    if ok:
        v = M.Terms(fc).rvalue(st[0][2]["r"])
        ok = v[0] == "agg" and v[1][2] == "Some" and M.strip(v[2][0], also=("<std::ffi::OsStr as std::borrow::ToOwned>::to_owned", "std::path::Path::as_os_str")) == ("param", 2, fc.local_name(2))
    ctx.ob("R16.4", "cwd=Some(dir)", ok, fc.loc(0), "Exec::cwd stores Some(dir)")
    fcm = prog.one("builder::exec::Exec::cmd")
    Tcm = M.Terms(fcm)
    ag = aggregates_of(fcm, EXEC)
    ok = len(ag) == 1
    if ok:
        r = ag[0][2]
        v = {n: Tcm.operand(o) for n, o in zip(r["fields"], r["ops"])}
        ok = M.strip(v["command"], also=("<std::ffi::OsStr as std::borrow::ToOwned>::to_owned",)) == ("param", 1, fcm.local_name(1)) and v["args"][0] == "call" and v["args"][1] == "std::vec::Vec::<T>::new" \
            and v["config"][0] == "call" and v["config"][1] == "<popen::PopenConfig as std::default::Default>::default" and v["stdin_data"] == ("agg", ("adt", "std::option::Option", "None"), ())
    ctx.ob("R16.4", "cmd=fresh-description", ok, fcm.loc(0), "Exec::cmd starts from the command, no arguments, the default config and no input data")

    # ---- R16.5 cloning is field-wise; no shared mutable state ------------------------------------------------
    cl = prog.one("<builder::exec::Exec as std::clone::Clone>::clone")
    Tl = M.Terms(cl)
    ag = aggregates_of(cl, EXEC)
    ok = len(ag) == 1
    if ok:
        r = ag[0][2]
        selfp = ("param", 1, cl.local_name(1))
        for n, o in zip(r["fields"], r["ops"]):
            v = Tl.operand(o)
            src = M.noref(M.strip(v, also=("<std::ffi::OsString as std::clone::Clone>::clone", "<std::vec::Vec<T, A> as std::clone::Clone>::clone", "popen::PopenConfig::try_clone",
                                           "std::option::Option::<&T>::cloned", "<std::option::Option<T> as std::clone::Clone>::clone")))
            okf = src == ("field", selfp, n) and v[0] == "call"
            ctx.ob("R16.5", "Exec::clone.%s" % n, okf, cl.loc(ag[0][0]), "cloned %s = %s (must be a clone of self.%s)" % (n, M.term_str(v)[:100], n))
    else:
        ctx.ob("R16.5", "Exec::clone.shape", False, cl.loc(0), "expected one Exec aggregate")
    # the sibling builder: Pipeline::clone copies every field from the same-named field (a swapped field would rewire the clone)
    pcl = prog.fn("<builder::pipeline::Pipeline as std::clone::Clone>::clone")
    if pcl is None:
        ctx.missing("R16.5", "Pipeline::clone")
    else:
        Tpc = M.Terms(pcl)
        agp = aggregates_of(pcl, "builder::pipeline::Pipeline")
        selfpc = ("param", 1, pcl.local_name(1))
        if len(agp) == 1:
            rp = agp[0][2]
            for n, o in zip(rp["fields"], rp["ops"]):
                v = Tpc.operand(o)
                used = set()
                def _walk(u):
                    if isinstance(u, tuple):
                        if len(u) == 3 and u[0] == "field" and M.noref(u[1]) == selfpc:
                            used.add(u[2])
                        for x in u:
                            _walk(x)
                    elif isinstance(u, frozenset):
                        for x in u:
                            _walk(x)
                _walk(v)
                ctx.ob("R16.5", "Pipeline::clone.%s" % n, used == {n} and M.contains(v, lambda u: u[0] == "call"), pcl.loc(agp[0][0]),
                       "cloned %s is computed from self.%s (must be a clone of self.%s only)" % (n, sorted(used), n))
        else:
            ctx.ob("R16.5", "Pipeline::clone.shape", False, pcl.loc(0), "expected one Pipeline aggregate")
    tcf = prog.one("popen::PopenConfig::try_clone")
    Tt = M.Terms(tcf)
    ag = aggregates_of(tcf, "popen::PopenConfig")
    ok = len(ag) == 1
    if ok:
        r = ag[0][2]
        selfp = ("param", 1, tcf.local_name(1))
        adt_fields = [f["name"] for f in prog.adts["popen::PopenConfig"]["variants"][0]["fields"]]
        ctx.ob("R16.5", "PopenConfig::try_clone.all-fields", r["fields"] == adt_fields, tcf.loc(ag[0][0]), "aggregate fields %s vs type fields %s" % (r["fields"], adt_fields))
        for n, o in zip(r["fields"], r["ops"]):
            if n == "_use_default_to_construct":
                continue
            v = Tt.operand(o)
            src = M.noref(M.strip(v, also=("popen::Redirection::try_clone", "<std::option::Option<T> as std::clone::Clone>::clone", "std::option::Option::<&T>::cloned")))
            needs_clone = n in ("stdin", "stdout", "stderr", "executable", "env", "cwd")
            okf = src == ("field", selfp, n) and (v[0] == "field" or not needs_clone or True) and (not needs_clone or M.contains(v, lambda u: u[0] == "call"))
            if n in ("stdin", "stdout", "stderr"):
                okf = okf and M.contains(v, lambda u: u[0] == "call" and u[1] == "popen::Redirection::try_clone")
            ctx.ob("R16.5", "PopenConfig::try_clone.%s" % n, okf, tcf.loc(ag[0][0]), "cloned %s = %s (must derive from self.%s only)" % (n, M.term_str(v)[:100], n))
    else:
        ctx.ob("R16.5", "PopenConfig::try_clone.shape", False, tcf.loc(0), "expected one PopenConfig aggregate")
    rc = prog.one("popen::Redirection::try_clone")
    for n in RV:
        ex = M.Explore(rc, assume={("param", 1, rc.local_name(1)): red[n]}, tries="ok")
        Tx = M.Terms(rc, blocks=ex.blocks)
        made = [s["r"]["variant"] for bb in ex.blocks for s in rc.blocks[bb]["stmts"] if s["k"] == "assign" and s["r"]["k"] == "agg" and s["r"].get("adt") == "popen::Redirection"]
        ok = made == [n]
        if ok and n in ("File", "RcFile"):
            for bb in ex.blocks:
                for s in rc.blocks[bb]["stmts"]:
                    if s["k"] == "assign" and s["r"]["k"] == "agg" and s["r"].get("adt") == "popen::Redirection":
                        v = Tx.operand(s["r"]["ops"][0])
                        src = M.noref(M.strip(v, also=("std::fs::File::try_clone",)))
                        ok = src == ("field", ("downcast", ("param", 1, rc.local_name(1)), n), "0") and M.contains(v, lambda u: u[0] == "call" and ("try_clone" in u[1] or "Rc" in u[1]))
        ctx.ob("R16.5", "Redirection::try_clone[%s]" % n, ok, rc.loc(0), "cloning Redirection::%s yields %s" % (n, made))
    for path in (EXEC, "popen::PopenConfig"):
        adt = prog.adts[path]
        bad = [(f["name"], f["ty"]) for f in adt["variants"][0]["fields"] if any(m in f["ty"] for m in ("RefCell", "Arc<", "Mutex", "Cell<", "std::rc::Rc<"))]
        ctx.ob("R16.5", "%s.no-shared-state" % path.split("::")[-1], not bad, "", "%s fields holding shared mutable state: %s" % (path, bad))

    # ---- R16.6 env_remove keeps an entry iff its key differs -----------------------------------------------------
    cr = prog.fn("builder::exec::Exec::env_remove::{closure#0}")
    ok = cr is not None
    if ok:
        Tr = M.Terms(cr)
        r0 = Tr.local(0)
        ok = r0[0] == "call" and r0[1].endswith("::ne") and "PartialEq" in r0[1]
        if ok:
            a, b = [M.noref(x) for x in r0[2]]
            up = [u for u in cr.body["upvars"] if u["name"] == "key"]
            keyt = M.noref(Tr.place(up[0]["p"])) if up else None
            ok = a == ("field", ("param", 2, cr.local_name(2)), "0") and M.strip(b) == keyt and keyt is not None
    ctx.ob("R16.6", "env_remove.retain=key!=arg", ok, cr.loc(0) if cr else "", "the retain predicate must be `entry.0 != key` (keep everything except the named variable)")


def run_thorough(ctx):
    # A8: clauses enforced by the type system itself, witnessed by compile_fail doctests with compiling twins
    ctx.witness("R16.5", ['ExecFieldsPrivate'])
    import winrules
    winrules.c16_shell(ctx)
