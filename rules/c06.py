"""C06 — the child gets exactly the requested argv / program / environment / cwd / identity."""
import mirlib as M
from common import *

SPEC = {
    "explanation": (
        "Routing and ordering facts decided on the resolved MIR: which prepared vector reaches which parameter of "
        "execve/execv (argv array <- CVec(argv whole), envp <- CVec(format_env(config.env)), program <- buffer "
        "assembled from `executable.unwrap_or(argv[0])`); every C string handed to exec is produced by CString::new "
        "(NUL-checking) and its failure returns before fork; execv is used exactly when no environment was requested; "
        "working directory / uid / gid / process-group changes are made in the child, before the exec closure runs, "
        "each under its own option and with that option's payload, and the group id is set while the process is "
        "still privileged (no path from setuid to setgid)."
        " Also: PopenConfig::default() requests no executable/env/cwd/uid/gid/pgid; the chdir/setuid/setgid/setpgid wrappers call libc with their argument on every path. Thorough tier, windows: format_env_block appends name, '=', value, NUL per kept pair and one final NUL, with the same reverse/filter/reverse last-wins idiom over ASCII-uppercased names."
        " Every name and value of the configured environment passes the NUL-checking constructor in a loop before format_env removes shadowed duplicates (reported D17). Thorough tier, windows: the environment is scanned for NUL before CreateProcess and an empty environment still yields two NULs (reported D18, D19)."
        " A configured name containing '=' (past its first byte) is refused before fork / CreateProcess: NAME=VALUE is how an entry is spelled, so such a name would arrive as a different variable (R06.10, reported D21)."
    ),
    "not_decided": "format_env's last-wins de-duplication and KEY=VALUE joining as an algorithm over run-time data; byte-exact "
                   "survival of arbitrary OsStr through the kernel; an `executable` containing NUL (the statement's NUL clause names "
                   "arguments, names and values).",
    "trusted_base": ["rustc MIR", "CString::new rejects interior NUL", "POSIX execve/execv, setuid/setgid/setpgid/chdir",
                     "mirlib provenance terms, dominance-by-removal"],
    "assumptions": [],
}

DE = "<popen::Popen as popen::os::PopenOsImpl>::do_exec"


def run(ctx):
    prog = ctx.prog
    config_defaults(ctx, prog, 'R06.8', ['executable', 'env', 'cwd', 'setuid', 'setgid', 'setpgid'])
    fm = ForkModel(prog)
    if not fm.ok:
        ctx.ob("R06.0", "fork-model", False, "", "no unique fork site")
        return
    os_start, T = fm.fn, fm.T
    le = prog.one("posix::PrepExec::libc_exec")
    TL = M.Terms(le)
    selfp = ("param", 1, le.local_name(1))

    # ---- R06.1 routing of the prepared vectors -----------------------------
    def as_c_vec_of(t, field):
        return t[0] == "call" and t[1] == "posix::CVec::as_c_vec" and M.noref(t[2][0]) == ("field", selfp, field)

    ex = le.calls_to(lambda f: M.callee_str(f) in ("libc::execve", "libc::execv", "libc::execvp", "libc::execvpe", "libc::fexecve"))
    ctx.floor("R06.1", "exec call sites in libc_exec", len(ex), 2)
    AS_PTR = ("core::slice::<impl [T]>::as_ptr",)
    for bb, t in ex:
        a = [TL.operand(x) for x in t["args"]]
        nm = M.callee_str(t["f"])
        ctx.ob("R06.1", "%s.path<-exe" % nm, M.strip(a[0], also=AS_PTR) == ("param", 2, le.local_name(2)) and M.contains(a[0], lambda u: u[0] == "call" and u[1] in AS_PTR), le.loc(bb),
               "%s program path = %s (must be the assembled buffer `exe`)" % (nm, M.term_str(a[0])))
        ctx.ob("R06.1", "%s.argv<-argvec" % nm, as_c_vec_of(a[1], "argvec"), le.loc(bb), "%s argv = %s (must be self.argvec)" % (nm, M.term_str(a[1])))
        if nm == "libc::execve":
            okenv = a[2][0] == "call" and a[2][1] == "posix::CVec::as_c_vec" and M.noref(M.strip(a[2][2][0])) == ("field", selfp, "envvec")
            ctx.ob("R06.1", "execve.envp<-envvec", okenv, le.loc(bb), "execve envp = %s (must be self.envvec)" % M.term_str(a[2]))
    # R06.3 execv iff no environment
    is_env = lambda t: M.noref(M.strip(t)) == ("field", selfp, "envvec")
    some_e = variant_edges(le, TL, is_env, 1, [0, 1], "std::option::Option<")
    none_e = variant_edges(le, TL, is_env, 0, [0, 1], "std::option::Option<")
    for bb, t in ex:
        nm = M.callee_str(t["f"])
        if nm == "libc::execve":
            ctx.ob("R06.3", "execve-iff-env", dominated_by_edges(le, bb, some_e), le.loc(bb), "execve must be used only when an environment was prepared")
        else:
            ctx.ob("R06.3", "%s-iff-no-env" % nm.split("::")[-1], nm == "libc::execv" and dominated_by_edges(le, bb, none_e), le.loc(bb), "%s must be execv, used only when no environment was requested (inherit environ)" % nm)
    # PrepExec::new stores its parameters field-wise
    pn = prog.one("posix::PrepExec::new")
    TN = M.Terms(pn)
    aggs = aggregates_of(pn, "posix::PrepExec")
    ctx.floor("R06.1", "PrepExec constructions", len(aggs), 1)
    for bb, si, r in aggs:
        for fname, pi in (("cmd", 1), ("argvec", 2), ("envvec", 3), ("search_path", 4)):
            v = TN.operand(r["ops"][r["fields"].index(fname)])
            ctx.ob("R06.1", "PrepExec.%s" % fname, v == ("param", pi, pn.local_name(pi)), pn.loc(bb, si), "PrepExec.%s = %s (must be parameter %d)" % (fname, M.term_str(v), pi))
    # prep_exec: cmd/args/env flow into PrepExec::new in that order
    pe = prog.one("posix::prep_exec")
    TP = M.Terms(pe)
    nc = pe.calls_to(lambda f: M.callee_str(f) == pn.path)
    if len(nc) == 1:
        a = [TP.operand(x) for x in nc[0][1]["args"]]
        c0 = M.strip(a[0], also=("<std::ffi::OsStr as std::borrow::ToOwned>::to_owned",))
        ctx.ob("R06.1", "prep_exec.cmd", c0 == ("param", 1, pe.local_name(1)), pe.loc(nc[0][0]), "PrepExec cmd = %s (must be prep_exec's cmd)" % M.term_str(a[0]))
        c1 = M.strip(a[1])
        ctx.ob("R06.1", "prep_exec.argvec", c1[0] == "call" and c1[1] == "posix::CVec::new" and M.strip(c1[2][0]) == ("param", 2, pe.local_name(2)), pe.loc(nc[0][0]),
               "PrepExec argvec = %s (must be CVec::new(args)?)" % M.term_str(a[1]))
        envs = M.alts(a[2])
        some = [e for e in envs if e[0] == "agg" and e[1][:3] == ("adt", "std::option::Option", "Some")]
        none = [e for e in envs if e == ("agg", ("adt", "std::option::Option", "None"), ())]
        oke = len(some) == 1 and len(none) == 1 and len(envs) == 2
        if oke:
            x = M.strip(some[0][2][0])
            oke = x[0] == "call" and x[1] == "posix::CVec::new" and M.strip(x[2][0]) == ("param", 3, pe.local_name(3))
        if not oke:
            # env.map(CVec::new).transpose()? — the same value: Some(CVec::new(env)?) for Some(env), None for None
            x = M.strip(a[2])
            oke = x[0] == "call" and x[1].endswith("::transpose") and x[2][0][0] == "call" and x[2][0][1] == "std::option::Option::<T>::map" \
                and M.noref(x[2][0][2][0]) == ("param", 3, pe.local_name(3)) and x[2][0][2][1] == ("fnitem", "posix::CVec::new")
            if not oke and x[0] == "call" and x[1].endswith("::transpose"):
                inner = M.alts(x[2][0])
                envp = ("param", 3, pe.local_name(3))
                def some_cvec(e):
                    if not (e[0] == "agg" and e[1][:3] == ("adt", "std::option::Option", "Some")):
                        return False
                    c_ = M.noref(e[2][0])
                    return c_[0] == "call" and c_[1] == "posix::CVec::new" and M.noref(c_[2][0]) == ("field", ("downcast", envp, "Some"), "0")
                oke = len(inner) == 2 and any(e == ("agg", ("adt", "std::option::Option", "None"), ()) for e in inner) and any(some_cvec(e) for e in inner)
        ctx.ob("R06.1", "prep_exec.envvec", oke, pe.loc(nc[0][0]), "PrepExec envvec = %s (must be Some(CVec::new(env)?) / None mirroring the env option)" % M.term_str(a[2]))
    else:
        ctx.ob("R06.1", "prep_exec.shape", False, pe.loc(0), "expected one PrepExec::new call")
    # os_start: what is handed to prep_exec
    pc = [(fn, bb, t) for fn, bb, t in callers_of(prog, "posix::prep_exec")]
    for fn, bb, t in pc:
        Tf = M.Terms(fn)
        a = [Tf.operand(x) for x in t["args"]]
        cmd = a[0]
        # the named executable if there is one, else argv[0]: the two alternatives of the program term
        exe_f = ("field", ("param", 3, fn.local_name(3)), "executable")
        kinds_ = set()
        for alt_ in M.alts(cmd):
            x_ = M.noref(alt_)
            if x_[0] == "field" and x_[2] == "0" and x_[1][0] == "downcast" and x_[1][2] == "Some" and M.noref(M.strip(x_[1][1])) == exe_f:
                kinds_.add("exe")
                continue
            idx = alt_
            while idx[0] in ("ref", "deref"):
                idx = idx[1]
            d = M.strip(alt_, also=("<std::vec::Vec<T, A> as std::ops::Index<I>>::index",))
            if d == ("param", 2, fn.local_name(2)) and idx[0] == "call" and "index" in idx[1].lower() and const_of(idx[2][1]) == 0:
                kinds_.add("argv0")
            else:
                kinds_.add("?")
        okc = kinds_ == {"exe", "argv0"}
        if okc:
            # argv[0] is used only when no executable is named
            named = M.Explore(fn, assume_fn=lambda t_: 1 if (t_ and M.noref(M.strip(t_)) == exe_f) else None)
            okc = bb in named.blocks and set(M.alts(M.Terms(fn, blocks=named.blocks).operand(t["args"][0]))) <= {alt_ for alt_ in M.alts(cmd) if M.noref(alt_)[0] == "field"}
        ctx.ob("R06.1", "program=executable.unwrap_or(argv[0])", okc, fn.loc(bb), "program = %s" % M.term_str(cmd))
        whole = M.strip(a[1]) == ("param", 2, fn.local_name(2)) and not M.contains(a[1], lambda u: u[0] == "call" and ("index" in u[1].lower() or "split" in u[1] or "skip" in u[1]))
        ctx.ob("R06.1", "argv-passed-whole", whole, fn.loc(bb), "argv given to prep_exec = %s (must be the whole vector)" % M.term_str(a[1]))
        # Some(env) => Some(format_env(env)), None => None
        env_f = ("field", ("param", 3, fn.local_name(3)), "env")
        envt = a[2]
        while envt[0] in ("ref", "deref") or (envt[0] == "call" and envt[1].endswith("::as_deref") and envt[2]):
            envt = envt[1] if envt[0] in ("ref", "deref") else envt[2][0]
        ob_ = option_body(prog, fn, Tf, envt, lambda x: M.noref(M.strip(x)) == env_f)
        oke = ob_ is not None and ob_.none_ok and ob_.payload is not None and len(ob_.results) == 1
        if oke:
            v_ = M.noref(ob_.results[0][1])
            oke = v_[0] == "call" and v_[1] == "popen::os::format_env" and M.noref(M.strip(v_[2][0])) == M.noref(M.strip(ob_.payload))
        ctx.ob("R06.1", "env=config.env.map(format_env)", oke, fn.loc(bb), "env given to prep_exec = %s" % M.term_str(a[2]))
        # R06.2 NUL failures return before fork
        ok_e = try_ok_edges(fn, Tf, lambda c: c[1] == "posix::prep_exec")
        ctx.ob("R06.2", "prep_exec-ok-dominates-fork", fn.path == os_start.path and dominated_by_edges(fn, fm.fork_bb, ok_e), fn.loc(bb), "fork must be dominated by the success edge of prep_exec(..)? (NUL rejection precedes process creation)")
    ctx.floor("R06.1", "prep_exec call sites", len(pc), 1)

    # format_env: whatever its de-duplication strategy, each emitted string is `key` + "=" + `value` of one input pair
    fe = prog.one("popen::os::format_env")
    joins = 0
    for cp in [fe.path] + sorted(M.local_callees(prog, fe)):
        cf = prog.fns.get(cp)
        if cf is None:
            continue
        Tj = M.Terms(cf)
        pushes = [(b2, t2) for b2, t2 in cf.calls() if M.callee_str(t2["f"]).startswith("std::ffi::OsString::push")]
        if not pushes:
            continue
        joins += 1
        order = []
        for b2, t2 in sorted(pushes, key=lambda x: x[0]):
            v = M.noref(M.strip(Tj.operand(t2["args"][1])))
            order.append(v)
        pushes = sorted(pushes, key=lambda x: (dominated_by_blocks(cf, x[0], [y[0] for y in pushes if y[0] != x[0]]), x[0]))
        order = [M.noref(M.strip(Tj.operand(t2["args"][1]))) for b2, t2 in pushes]
        okj = len(order) == 2 and order[0][0] == "const" and order[0][1] == "=" and dominated_by_blocks(cf, pushes[1][0], [pushes[0][0]]) and not dominated_by_blocks(cf, pushes[0][0], [pushes[1][0]])
        if okj:
            # receiver is a clone of the key (.0 of the pair), the appended value is .1 of the same pair
            recv = M.noref(Tj.operand(pushes[0][1]["args"][0]))
            val = order[1]
            kroot = recv
            while kroot[0] == "call" and kroot[2]:
                kroot = M.noref(kroot[2][0])
            okj = (kroot[0] == "field" and kroot[2] == "0" and val[0] == "field" and val[2] == "1" and kroot[1] == val[1]) or \
                  (kroot[0] == "param" and val[0] == "param" and kroot[1] != val[1])
        ctx.ob("R06.1", "format_env.key=value", okj, cf.loc(0), "each environment string is built as <key> \"=\" <value> from one (key, value) pair")
    ctx.floor("R06.1", "format_env joining sites", joins, 1)

    dedup_idiom(ctx, prog, fe, "R06.6", "format_env")

    # ---- R06.2 (pre-check) every entry of the environment list is NUL-checked, also one that a later duplicate replaces -------------
    # format_env drops every entry that has a later entry of the same name; the NUL check of CVec::new runs on what is left, so a value
    # containing NUL would be accepted or rejected depending on its position among its duplicates unless the list is checked first
    os_start_ = fm.fn
    Tos = fm.T
    fe_calls = [bb for bb, t in os_start_.calls() if M.callee_str(t["f"]) == fe.path or any(Tos.operand(a) == ("fnitem", fe.path) for a in t["args"])]
    envf = lambda u: u[0] == "field" and u[2] == "env" and M.contains(u, lambda w: w[0] == "param")
    loops_ = M.sccs(os_start_)
    comps = {}
    for bb, t in os_start_.calls():
        if M.callee_str(t["f"]) == "posix::os_to_cstring" and bb in fm.pre_region:
            a = Tos.operand(t["args"][0])
            if M.contains(a, envf):
                x = a
                VIEW = ("<std::ffi::OsString as std::ops::Deref>::deref", "<std::ffi::OsString as std::convert::AsRef<std::ffi::OsStr>>::as_ref", "std::ffi::OsString::as_os_str")
                while x[0] in ("deref", "ref") or (x[0] == "call" and x[1] in VIEW and x[2]):
                    x = x[1] if x[0] in ("deref", "ref") else x[2][0]
                if x[0] == "field" and x[2] in ("0", "1") and any(bb in l for l in loops_) and try_err_edges(os_start_, Tos, lambda c, bb=bb: c[3] == bb):
                    comps.setdefault(x[2], []).append(bb)
    okn = set(comps) == {"0", "1"} and bool(fe_calls)
    if okn:
        lp = next(l for l in loops_ if comps["0"][0] in l)
        # format_env is reached only through the checking loop, or with no environment configured at all (the None edge of config.env)
        none_e = variant_edges(os_start_, Tos, lambda t_: M.contains(t_, envf), 0, [0, 1], "std::option::Option<")
        reach_ = os_start_.reachable(0, removed_blocks=[min(lp)], removed_edges=set(none_e))
        okn = all(b in lp for v in comps.values() for b in v) and not any(fb in reach_ for fb in fe_calls) and not any(fb in lp for fb in fe_calls)
    ctx.ob("R06.2", "env-entries-nul-checked-before-dedup", okn, os_start_.loc(fe_calls[0] if fe_calls else 0),
           "before format_env removes shadowed duplicates, a loop over the configured environment must pass every name and every value through the "
           "NUL-checking constructor (os_to_cstring(..)?): otherwise `[(K, \"a\\0b\"), (K, \"fine\")]` is accepted while `[(K, \"a\\0b\")]` is refused "
           "(components checked: %s)" % sorted(comps))

    # ---- R06.10 a name containing '=' is refused, not delivered as another variable --------------------------------------------------
    env_names_checked_for_equals(ctx, prog, os_start_, Tos, fe_calls, "R06.10", "env-name-with-equals-rejected-before-fork",
                                 "format_env spells every entry NAME=VALUE, and the child splits at the first '=': a configured name containing '=' "
                                 "(`(\"A=B\", \"C\")`) reaches the child as the variable A with value \"B=C\" — a variable nobody listed, while the listed one "
                                 "does not exist.  Such a name cannot be delivered, so the launch must refuse it before fork (like a name containing NUL)")

    # ---- R06.2 C strings only from the NUL-checking constructor -------------
    bad_ctors = ("from_vec_unchecked", "from_raw", "from_bytes_with_nul_unchecked", "from_vec_with_nul_unchecked", "from_ptr")
    for p, fn in sorted(prog.fns.items()):
        for bb, t in fn.calls():
            nm = M.callee_str(t["f"])
            if ("CString" in nm or "CStr" in nm) and nm.split("::")[-1] in bad_ctors:
                ctx.ob("R06.2", "unchecked-cstring@%s" % p, False, fn.loc(bb), "unchecked C string constructor %s" % nm)
    oc = prog.one("posix::os_to_cstring")
    To = M.Terms(oc)
    r0 = To.local(0)
    # every Ok it returns carries the Ok payload of CString::new(bytes of s) -- the NUL-checking constructor -- and nothing else is Ok
    def from_new(x):
        x = M.strip(x)
        return x[0] == "call" and x[1] == "std::ffi::CString::new" and M.noref(M.strip(x[2][0])) == ("param", 1, oc.local_name(1))
    oks = [a_ for a_ in M.alts(r0) if a_[0] == "agg" and a_[1][:3] == ("adt", "std::result::Result", "Ok")]
    rest = [a_ for a_ in M.alts(r0) if a_ not in oks]
    okc = bool(oks) and all(from_new(a_[2][0]) for a_ in oks) and \
        all((a_[0] == "agg" and a_[1][:3] == ("adt", "std::result::Result", "Err")) or (a_[0] == "call" and "from_residual" in a_[1]) or
            (a_[0] == "call" and a_[1] == "std::result::Result::<T, E>::map_err" and from_new(a_[2][0])) for a_ in rest)
    ctx.ob("R06.2", "os_to_cstring=CString::new(s)", okc, oc.loc(0), "os_to_cstring returns %s" % M.term_str(r0))
    cv = prog.one("posix::CVec::new")
    c0 = prog.fn("posix::CVec::new::{closure#0}")
    c1 = prog.fn("posix::CVec::new::{closure#1}")
    if c0 and c1:
        T0 = M.Terms(c0)
        r = T0.local(0)
        ctx.ob("R06.2", "CVec.strings<-os_to_cstring", r[0] == "call" and r[1] == "posix::os_to_cstring" and M.strip(r[2][0])[0] == "param", c0.loc(0), "each string = %s" % M.term_str(r))
        T1 = M.Terms(c1)
        r = T1.local(0)
        inner = r
        while inner[0] == "cast":
            inner = inner[2]
        okp = inner[0] == "call" and inner[1] == "core::slice::<impl [T]>::as_ptr" and M.strip(inner[2][0])[0] == "call" and M.strip(inner[2][0])[1] == "std::ffi::CString::as_bytes_with_nul"
        ctx.ob("R06.2", "CVec.ptrs<-strings", okp, c1.loc(0), "each pointer = %s (must point into the NUL-terminated CString)" % M.term_str(r))
    else:
        ctx.missing("R06.2", "CVec::new closures")
    Tc = M.Terms(cv)
    chain = cv.calls_to(lambda f: M.callee_str(f) == "std::iter::Iterator::chain")
    okn = len(chain) == 1
    if okn:
        a = [Tc.operand(x) for x in chain[0][1]["args"]]
        okn = a[1][0] == "call" and a[1][1] == "std::iter::once" and a[1][2][0][0] == "call" and a[1][2][0][1] == "std::ptr::null"
        okn = okn and a[0][0] == "call" and a[0][1] == "std::iter::Iterator::map" and not M.contains(a[0], lambda u: u[0] == "call" and u[1].split("::")[-1] in ("rev", "skip", "take", "filter", "step_by"))
    if not okn:
        # alternative idiom: collect the pointers, then push the terminator
        pu = cv.calls_to(lambda f: M.callee_str(f) == "std::vec::Vec::<T, A>::push")
        co = [(b_, t_) for b_, t_ in cv.calls() if M.callee_str(t_["f"]) == "std::iter::Iterator::collect" and "*const" in t_["dest"]["ty"]]
        if len(pu) == 1 and len(co) == 1:
            v_ = Tc.operand(pu[0][1]["args"][1])
            it_ = Tc.operand(co[0][1]["args"][0])
            okn = v_[0] == "call" and v_[1] == "std::ptr::null" and Tc.addr(pu[0][1]["args"][0]) is not None and dominated_by_blocks(cv, pu[0][0], [co[0][0]]) \
                and it_[0] == "call" and it_[1] == "std::iter::Iterator::map" and not M.contains(it_, lambda u: u[0] == "call" and u[1].split("::")[-1] in ("rev", "skip", "take", "filter", "step_by")) \
                and all(dominated_by_blocks(cv, b_, [pu[0][0]]) for b_, si_, r_ in aggregates_of(cv, "posix::CVec"))
    ctx.ob("R06.2", "CVec.null-terminated-in-order", okn, cv.loc(0), "ptrs = the strings' pointers in order, followed by one NULL (chain(once(null)) or push(null) after collecting), no reordering adaptor")
    aggs = aggregates_of(cv, "posix::CVec")
    for bb, si, r in aggs:
        s_ = Tc.operand(r["ops"][r["fields"].index("strings")])
        p_ = Tc.operand(r["ops"][r["fields"].index("ptrs")])
        same = M.contains(p_, lambda u: u == M.strip(s_) or u == s_)
        ctx.ob("R06.2", "CVec.ptrs-of-own-strings", same, cv.loc(bb, si), "ptrs are derived from the strings stored in the same CVec")
    err_e = try_err_edges(cv, Tc, lambda c: c[1] == "std::iter::Iterator::collect")
    okr = bool(err_e) and all(not any(M.callee_str(t["f"]) == "std::iter::Iterator::chain" for b2, t in cv.calls(cv.reachable(e[1]))) for e in err_e)
    ctx.ob("R06.2", "CVec.err-returns", okr, cv.loc(0), "a failed string conversion must return Err without building the pointer vector")

    # ---- R06.4 / R06.5 identity and cwd in the child, ordered, each under its own option ----
    de = prog.one("PopenOsImpl>::do_exec")
    TD = M.Terms(de)
    pidx = {de.local_name(i): i for i in range(1, de.arg_count + 1)}
    inv = [bb for bb, t in de.calls() if M.callee_str(t["f"]) in ("std::ops::FnOnce::call_once",) and M.strip(TD.operand(t["args"][0])) == ("param", 1, de.local_name(1))]
    ctx.floor("R06.4", "exec invocations in do_exec", len(inv), 1)

    def site(callee):
        return de.calls_to(lambda f: M.callee_str(f) == callee)

    su, sg, sp = site("posix::setuid"), site("posix::setgid"), site("posix::setpgid")
    cd = site("std::env::set_current_dir") + site("posix::chdir")
    for name, sites, opt in (("setuid", su, "setuid"), ("setgid", sg, "setgid")):
        ctx.ob("R06.4", "%s.site" % name, len(sites) == 1, de.loc(0), "exactly one posix::%s call in do_exec (found %d)" % (name, len(sites)))
        for bb, t in sites:
            a = TD.operand(t["args"][0])
            want = ("field", ("downcast", ("param", pidx.get(opt, -1), opt), "Some"), "0")
            e = variant_edges(de, TD, lambda x: x == ("param", pidx.get(opt, -1), opt), 1, [0, 1], "std::option::Option<")
            ctx.ob("R06.4", "%s.own-option" % name, a == want and dominated_by_edges(de, bb, e), de.loc(bb), "posix::%s(%s) must receive the payload of its own option under its Some edge" % (name, M.term_str(a)))
            for ib in inv:
                ctx.ob("R06.4", "%s.before-exec" % name, ib in de.reachable(bb) and bb not in de.reachable(ib), de.loc(bb), "%s must precede the exec invocation" % name)
    for bb, t in sp:
        a = [const_of(TD.operand(x)) for x in t["args"]]
        e = bool_edges(de, TD, lambda x: x == ("param", pidx.get("setpgid", -1), "setpgid"), True)
        ctx.ob("R06.4", "setpgid(0,0).own-flag", a == [0, 0] and dominated_by_edges(de, bb, e), de.loc(bb), "setpgid%s must be (0, 0) under the setpgid flag" % (tuple(a),))
        for ib in inv:
            ctx.ob("R06.4", "setpgid.before-exec", ib in de.reachable(bb) and bb not in de.reachable(ib), de.loc(bb), "setpgid must precede the exec invocation")
    ctx.ob("R06.4", "setpgid.site", len(sp) == 1, de.loc(0), "exactly one posix::setpgid call in do_exec (found %d)" % len(sp))
    if len(su) == 1 and len(sg) == 1:
        ub, gb = su[0][0], sg[0][0]
        ctx.ob("R06.4", "gid-before-uid", gb not in de.reachable(ub), de.loc(ub),
               "setgid is reachable after setuid: once the user id is dropped the group change is refused (EPERM) — the group must be set while still privileged")
    for bb, t in cd:
        a = TD.operand(t["args"][0])
        want = ("field", ("downcast", ("param", pidx.get("cwd", -1), "cwd"), "Some"), "0")
        e = variant_edges(de, TD, lambda x: x == ("param", pidx.get("cwd", -1), "cwd"), 1, [0, 1], "std::option::Option<")
        ctx.ob("R06.5", "chdir.own-option", M.noref(a) == want and dominated_by_edges(de, bb, e), de.loc(bb), "chdir(%s) must receive the cwd option's payload under its Some edge" % M.term_str(a))
        for ib in inv:
            ctx.ob("R06.5", "chdir.before-exec", ib in de.reachable(bb) and bb not in de.reachable(ib), de.loc(bb), "the directory change must precede exec (relative program paths are relative to it)")
    ctx.ob("R06.5", "chdir.site", len(cd) == 1, de.loc(0), "exactly one working-directory change in do_exec (found %d)" % len(cd))
    # os_start routes each option to do_exec's matching parameter
    for fn, bb, t in callers_of(prog, de.path):
        a = [fm.T.operand(x) for x in t["args"]]
        cfg = ("param", 3, fn.local_name(3))
        table = {"cwd": (2, "cwd"), "setuid": (3, "setuid"), "setgid": (4, "setgid"), "setpgid": (5, "setpgid")}
        for pname, (ai, field) in table.items():
            if pidx.get(pname) != ai + 1:
                ctx.ob("R06.4", "do_exec.param:%s" % pname, False, de.loc(0), "do_exec parameter order changed; routing table must be re-confirmed")
                continue
            # only-from query: the value derives from config.<field> and from no other field of the configuration
            used = set()
            M.contains(M.noref(a[ai]), lambda u: (u[0] == "field" and u[1] == cfg and used.add(u[2])) or False)
            ctx.ob("R06.4", "route:config.%s" % field, used == {field}, fn.loc(bb), "do_exec.%s <- %s (must derive from config.%s only; config fields used: %s)" % (pname, M.term_str(a[ai])[:120], field, sorted(used)))
    # wrappers pass their arguments straight to libc
    for w, n in (("posix::setuid", 1), ("posix::setgid", 1), ("posix::setpgid", 2)):
        f = prog.one(w)
        Tw = M.Terms(f)
        lc = f.calls_to(lambda c: M.callee_str(c) == "libc::" + w.split("::")[-1])
        ok = len(lc) == 1 and [M.strip(Tw.operand(x)) for x in lc[0][1]["args"]] == [("param", i + 1, f.local_name(i + 1)) for i in range(n)] \
            and all(dominated_by_blocks(f, r, [lc[0][0]]) for r in f.return_blocks())
        ctx.ob("R06.4", "%s->libc" % w, ok, f.loc(0), "%s must pass its argument(s) unchanged to libc" % w)
    ch = prog.fn("posix::chdir")
    if ch is not None:
        Tch = M.Terms(ch)
        lc = ch.calls_to(lambda c: M.callee_str(c) == "libc::chdir")
        ok = len(lc) == 1 and M.noref(M.strip(Tch.operand(lc[0][1]["args"][0]), also=("std::ffi::CStr::as_ptr", "core::ffi::CStr::as_ptr"))) == ("param", 1, ch.local_name(1)) \
            and all(dominated_by_blocks(ch, r, [lc[0][0]]) for r in ch.return_blocks())
        ctx.ob("R06.4", "posix::chdir->libc", ok, ch.loc(0), "posix::chdir must call libc::chdir on its argument on every path")
    elif not site("std::env::set_current_dir"):
        ctx.missing("R06.4", "posix::chdir")
    # the builder stores uid/gid in the matching config field
    for meth, field in (("ExecExt>::setuid", "setuid"), ("ExecExt>::setgid", "setgid")):
        f = prog.one(meth)
        st = stores_to_field(f, field, "popen::PopenConfig")
        other = stores_to_field(f, "setgid" if field == "setuid" else "setuid", "popen::PopenConfig")
        Tb = M.Terms(f)
        ok = len(st) == 1 and not other
        if ok:
            v = Tb.rvalue(st[0][2]["r"])
            ok = v[0] == "agg" and v[1][:3] == ("adt", "std::option::Option", "Some") and v[2][0] == ("param", 2, f.local_name(2))
        ctx.ob("R06.4", "builder.%s" % field, ok, f.loc(0), "Exec::%s must store Some(arg) into config.%s only" % (field, field))


def env_names_checked_for_equals(ctx, prog, fn, T, sinks, rule, key, why):
    """Every configured environment name is examined for '=' (U+003D) before the environment is assembled (the calls in `sinks`), and
    a hit ends the launch with Err.  `NAME=rest` is how the child's environment is spelled, so a name containing '=' is read by the child
    as a different variable: ("A=B", "C") arrives as A = "B=C".  Recognised by what it does, not how it is written: a test inside a loop
    over config.env whose subject is component 0 of the item and which mentions the unit 61 (directly, or in the closure it applies),
    one outcome of which leads only to Err returns."""
    import json
    envf = lambda u: u[0] == "field" and u[2] == "env" and M.contains(u, lambda w: w[0] == "param")
    is_name = lambda t_: M.contains(t_, lambda u: u[0] == "field" and u[2] == "0" and M.contains(u, envf))
    is_value = lambda t_: M.contains(t_, lambda u: u[0] == "field" and u[2] == "1" and M.contains(u, envf))

    def mentions_eq(t_):
        if M.contains(t_, lambda u: u[0] == "const" and u[1] == 61):
            return True
        hit = []
        def clo(u):
            if u[0] == "agg" and u[1][0] == "closure" and u[1][1] in prog.fns:
                if '"int": 61' in json.dumps(prog.fns[u[1][1]].j["body"]):
                    # the predicate must accept exactly the unit '=' (`u == 61`): `u != 61` mentions it too and rejects nearly every name
                    import c20
                    lits, other = c20.eq_literals(prog.fns[u[1][1]])
                    if lits == {61} and not other:
                        hit.append(u[1][1])
            return False
        M.contains(t_, clo)
        return bool(hit)
    loops_ = M.sccs(fn)
    gates = []
    for bb in sorted(fn.live_blocks()):
        t = fn.blocks[bb]["term"]
        if t["k"] != "switch" or not any(bb in l for l in loops_):
            continue
        sw = M.switch_term(fn, T, bb)
        if not (is_name(sw) and not is_value(sw) and mentions_eq(sw)):
            continue
        for tgt in set(fn.succs(bb)):
            Et_ = M.Explore(fn, start=tgt)
            rv = [v for (b2, si2, v, r2) in result_variants(fn, Et_)]
            if rv and all(v in ("Err", "from_residual") for v in rv) and not (Et_.blocks & set(sinks)):
                gates.append(bb)
    # the test is made for every entry: no way round the loop avoids it (constant conditions evaluated)
    E_ = M.Explore(fn)
    # (the only way past it is a test of the name's own length: a name too short to hold an '=' past its first unit needs no search)
    def length_test(bb_):
        t_ = fn.blocks[bb_]["term"]
        if t_["k"] != "switch":
            return False
        sw_ = M.noref(M.switch_term(fn, T, bb_))
        is_len = lambda u: (u[0] == "un" and u[1] == "PtrMetadata") or (u[0] == "call" and u[1].endswith("::len")) or (u[0] == "call" and u[1].endswith("::is_empty"))
        if not (is_name(sw_) and not is_value(sw_)):
            return False
        if sw_[0] == "bin" and sw_[1] in ("Ge", "Gt", "Le", "Lt", "Eq", "Ne"):
            a_, b_ = M.noref(sw_[2]), M.noref(sw_[3])
            return (is_len(a_) and const_of(b_) is not None) or (is_len(b_) and const_of(a_) is not None)
        return is_len(sw_) or (sw_[0] == "un" and sw_[1] == "Not" and is_len(M.noref(sw_[2])))
    len_tests = {b_ for b_ in fn.live_blocks() if any(b_ in l for l in loops_) and length_test(b_)}
    gates = [g for g in gates if g in E_.blocks and not any(min(l) in c for l in loops_ if g in l for c in M.sccs(fn, blocks=E_.blocks, edges=E_.edges, removed={g} | len_tests))]
    ok = bool(gates) and bool(sinks)
    if ok:
        lp = [l for l in loops_ if any(g in l for g in gates)]
        none_e = variant_edges(fn, T, lambda t_: M.contains(t_, envf), 0, [0, 1], "std::option::Option<")
        # the environment is assembled only behind that loop, or with no environment configured at all
        ok = not (set(sinks) & fn.reachable(0, removed_blocks=[min(lp[0])], removed_edges=set(none_e)))
    ctx.ob(rule, key, ok, fn.loc(sinks[0] if sinks else 0), why)


def dedup_idiom(ctx, prog, fe, rule, name, key_pred=None):
    """contradiction rule on the de-duplication idiom: filtering with `seen.insert(key)` keeps the FIRST occurrence in
    iteration order; "the later of duplicate names wins, in the original order" then requires the iteration to be
    reversed before the filter and the result reversed back.  (If the function does not use this idiom at all, the
    de-duplication is not decided here — a note, not an alarm.)  key_pred: optional check of the inserted key term."""
    Tfe = M.Terms(fe)
    filt = fe.calls_to(lambda f: M.callee_str(f) == "std::iter::Iterator::filter")
    first_wins = None
    key_term = None
    for bb_, t_ in filt:
        pred_ = Tfe.operand(t_["args"][1])
        if pred_[0] == "agg" and pred_[1][0] == "closure" and pred_[1][1] in prog.fns:
            pc_ = prog.fns[pred_[1][1]]
            r0_ = M.Terms(pc_).local(0)
            if r0_[0] == "call" and "HashSet::<T, S" in r0_[1] and r0_[1].endswith("::insert") and "0" in M.term_str(r0_[2][1]):
                first_wins = (bb_, t_)
                key_term = r0_[2][1]
    if first_wins is None:
        ctx.note("%s does not use the filter(seen.insert(key)) idiom: duplicate handling is not decided statically" % name)
        return None
    src_ = Tfe.operand(first_wins[1]["args"][0])
    rev_before = src_[0] == "call" and src_[1] == "std::iter::Iterator::rev"
    revs = fe.calls_to(lambda f: M.callee_str(f).endswith("core::slice::<impl [T]>::reverse"))
    col = fe.calls_to(lambda f: M.callee_str(f) == "std::iter::Iterator::collect")
    rev_after = len(revs) == 1 and len(col) == 1 and dominated_by_blocks(fe, revs[0][0], [col[0][0]]) and all(dominated_by_blocks(fe, r_, [revs[0][0]]) for r_ in fe.return_blocks())
    if not revs and len(col) == 1:
        # or the vector is read backwards where it is consumed: every iteration over the collected vector goes through .rev()
        is_col = lambda u: u[0] == "call" and u[1] == "std::iter::Iterator::collect" and len(u) > 3 and u[3] == col[0][0]
        walks = [(b_, t_) for b_, t_ in fe.calls() if (M.callee_str(t_["f"]).endswith("into_iter") or M.callee_str(t_["f"]).endswith("::iter"))
                 and is_col(M.noref(M.strip(Tfe.operand(t_["args"][0]), also=("<std::vec::Vec<T, A> as std::ops::Deref>::deref",))))]
        back = [(b_, t_) for b_, t_ in fe.calls_to(lambda f: M.callee_str(f) == "std::iter::Iterator::rev")
                if any(M.noref(Tfe.operand(t_["args"][0])) == M.noref(("call", M.callee_str(w_["f"]), tuple(Tfe.operand(a_) for a_ in w_["args"]), wb_)) for wb_, w_ in walks)]
        rev_after = len(walks) == 1 and len(back) == 1
    ctx.ob(rule, "%s.dedup-keeps-last" % name, rev_before, fe.loc(first_wins[0]),
           "filter(seen.insert(key)) keeps the first occurrence in iteration order; for the LATER duplicate to win the iteration must be reversed first (.rev() before .filter())")
    ctx.ob(rule, "%s.original-order-restored" % name, rev_before and rev_after, fe.loc(first_wins[0]),
           "after de-duplicating in reverse the vector must be reversed back on every path, or the environment is handed over in reverse order")
    if key_pred is not None:
        ctx.ob(rule, "%s.dedup-key" % name, key_pred(key_term), fe.loc(first_wins[0]), "the de-duplication key is %s" % M.term_str(key_term)[:120])
    return key_term


def run_thorough(ctx):
    # the cfg(windows) sibling of format_env, analysed on the windows-msvc build
    import winrules
    winrules.c06_env_block(ctx)
