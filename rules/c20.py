"""C20 — Windows command-line assembly round-trips through Microsoft's parsing rules."""
import mirlib as M
from common import *

SPEC = {
    "explanation": (
        "The cfg(windows) half of the crate is type-checked for x86_64-pc-windows-msvc and analysed as resolved MIR (it "
        "is not even compiled by the Linux test run). Decided: the constants and guards of the ArgvQuote algorithm — "
        "(a) NUL rejection precedes quoting and returns Err; (b) an argument is emitted bare only if non-empty and "
        "free of the characters accepted by the trigger predicate, whose complete literal set (enumerated from the "
        "closure's comparison chain) contains space, tab and the double quote; (c) inside quotes the three emission "
        "loops, classified by their guards (i == len, arg[i] == '\"', otherwise), run 2n, 2n+1 and n times over the "
        "same backslash counter n and emit '\\\\'; the 2n+1 and the plain case then push arg[i] itself; the counter "
        "counts exactly the consecutive backslashes; (d) an opening and a closing quote bracket the loop on every "
        "path; (e) arguments are taken in order, separated by exactly one space, none before the first."
        " (f) scan discipline: the cursor starts at 0, every arg[i] is read in bounds for the current i, every cycle advances i or is a counted emission loop (for-loop or repeat().take(K)), a unit is copied once per visit; the trigger literal set is computed path-exactly."
    ),
    "not_decided": "agreement with CommandLineToArgvW as a parser for all argument vectors (value-level round trip); argv[0]'s special parsing.",
    "trusted_base": ["rustc MIR for the windows-msvc target (std built from rust-src)", "the MSVCRT / CommandLineToArgvW quoting rules (2n / 2n+1 / n backslashes)",
                     "mirlib dominance, symbolic terms, finite-domain exploration"],
    "assumptions": [],
    "technique": "static analysis of the cfg(windows) code as resolved MIR (cross-target type check): guard classification, trip-count terms, literal-set extraction",
}

ENC = "<std::ffi::OsStr as std::os::windows::ffi::OsStrExt>::encode_wide"


def eq_literals(fn, param=None):
    """literal set for which a `|c| c == K1 || c == K2 ..` closure (or a plain `fn(c) -> bool`) returns true"""
    T = M.Terms(fn)
    if param is None:
        param = 2 if (fn.j.get("is_closure") or "{closure" in fn.path) else 1
    c = ("param", param, fn.local_name(param))
    lits = set()
    other = []

    def cmp_lit(t):
        if t[0] == "bin" and t[1] == "Eq":
            a, b = M.noref(t[2]), M.noref(t[3])
            if a == c and const_of(b) is not None:
                return const_of(b)
            if b == c and const_of(a) is not None:
                return const_of(a)
        return None

    consts = {c_["path"]: c_.get("value") for c_ in fn.prog.doc.get("consts", [])}

    def member_set(v):
        """`TABLE.contains(&c)` over a constant table of units: the table's elements"""
        v = M.noref(v)
        if v[0] == "call" and v[1].endswith("slice::<impl [T]>::contains") and len(v[2]) == 2 and M.noref(v[2][1]) == c:
            tab = v[2][0]
            while tab[0] in ("cast", "ref", "deref"):
                tab = tab[2] if tab[0] == "cast" else tab[1]
            if tab[0] == "const" and isinstance(consts.get(tab[1]), list) and all(isinstance(x, int) for x in consts[tab[1]]):
                return set(consts[tab[1]])
        return None

    def walk(bb, pos, neg, seen):
        """pos: the literal the unit is known to equal on this path (or None); neg: literals it is known to differ from"""
        if bb in seen:
            return
        seen = seen | {bb}
        b = fn.blocks[bb]
        tc_ = b["term"]
        if tc_["k"] == "call" and tc_["dest"]["l"] == 0 and not tc_["dest"]["proj"]:
            ms = member_set(("call", M.callee_str(tc_["f"]), tuple(T.operand(a_) for a_ in tc_["args"]), bb))
            if ms is None:
                other.append("result of " + M.callee_str(tc_["f"]))
            else:
                for k in ms:
                    if (pos is None and k not in neg) or pos == k:
                        lits.add(k)
        for s in b["stmts"]:
            if s["k"] == "assign" and s["p"]["l"] == 0 and not s["p"]["proj"]:
                v = T.rvalue(s["r"])
                k = cmp_lit(v)
                if const_of(v) == 1:
                    if pos is not None:
                        lits.add(pos)
                    else:
                        other.append("true for every unit except %s" % sorted(neg))
                elif k is not None:
                    if (pos is None and k not in neg) or pos == k:
                        lits.add(k)
                elif const_of(v) == 0:
                    pass
                else:
                    other.append(M.term_str(v))
        t = b["term"]
        if t["k"] == "switch":
            sw = M.switch_term(fn, T, bb)
            k = cmp_lit(sw)
            if k is not None:
                if (pos is None and k not in neg) or pos == k:
                    walk(M.switch_target(t, 1), k, neg, seen)
                if pos != k:
                    walk(M.switch_target(t, 0), pos, neg | {k}, seen)
                return
            if M.noref(sw) == c:
                # `match c { K1 | K2 => .., _ => .. }`
                vals = [v_ for v_, _ in t["targets"]]
                for v_, tgt in t["targets"]:
                    if (pos is None and v_ not in neg) or pos == v_:
                        walk(tgt, v_, neg, seen)
                if pos is None or pos not in vals:
                    walk(t["otherwise"], pos, neg | set(vals), seen)
                return
            other.append("branch on " + M.term_str(sw))
        for s in fn.succs(bb):
            walk(s, pos, neg, seen)
    walk(0, None, frozenset(), frozenset())
    return lits, other


def run(ctx):
    prog = ctx.program("win")
    ctx.ob("R20.0", "windows-target", "windows" in (prog.target or ""), "", "analysed target: %s" % prog.target)
    ac = prog.one("popen::os::assemble_cmdline")
    aq = prog.one("popen::os::append_quoted")
    T = M.Terms(ac)
    # ---- R20.1 NUL rejection precedes quoting ---------------------------------------------------
    qc = ac.calls_to(lambda f: M.callee_str(f) == aq.path)
    anyc = ac.calls_to(lambda f: M.callee_str(f) == "std::iter::Iterator::any")
    ok = len(qc) == 1 and len(anyc) == 1
    loops = M.sccs(ac)
    item = None
    enumerated, idx_item = False, None
    if ok and len(loops) == 1:
        nx = [(bb, t) for bb, t in ac.calls(loops[0]) if M.callee_str(t["f"]).endswith("as std::iter::Iterator>::next")]
        if len(nx) == 1:
            item = M.noref(("field", ("downcast", ("call", M.callee_str(nx[0][1]["f"]), tuple(T.operand(a) for a in nx[0][1]["args"]), nx[0][0]), "Some"), "0"))
            it = M.noref(T.operand(nx[0][1]["args"][0]))
            # argv.into_iter(), possibly numbered with enumerate() (which keeps the order); the argument is then component 1 of the item
            chain, x_ = [], it
            while x_[0] == "call" and x_[2]:
                chain.append(x_[1].split("::")[-1])
                x_ = M.noref(x_[2][0])
            enumerated = chain.count("enumerate") == 1
            if enumerated:
                idx_item, item = M.noref(("field", item, "0")), M.noref(("field", item, "1"))
            ctx.ob("R20.4", "args-in-order", x_ == ("param", 1, ac.local_name(1)) and ("into_iter" in chain or "iter" in chain) and all(c_ in ("into_iter", "enumerate", "iter", "deref", "as_slice") for c_ in chain) and chain.count("enumerate") <= 1,
                   ac.loc(nx[0][0]), "arguments are consumed with argv.into_iter() (no reordering adaptor; found %s)" % chain)
    if ok:
        a = [T.operand(x) for x in anyc[0][1]["args"]]
        src = M.noref(M.strip(a[0], also=(ENC,)))
        clo = a[1][1][1] if a[1][0] == "agg" and a[1][1][0] == "closure" else None
        lits, other = eq_literals(prog.fns[clo]) if clo else (set(), ["no closure"])
        ctx.ob("R20.1", "nul-predicate", lits == {0} and not other, ac.loc(anyc[0][0]), "the rejection predicate accepts %s %s (must be exactly NUL)" % (sorted(lits), other))
        item_call = item[1][1] if item is not None and not enumerated else None
        ctx.ob("R20.1", "nul-test-over-arg", item is not None and src in (item, item_call) and M.contains(a[0], lambda u: u[0] == "call" and u[1] == ENC), ac.loc(anyc[0][0]), "the NUL test runs over the UTF-16 units of the argument being appended")
        f_e = bool_edges(ac, T, lambda c: c[0] == "call" and c[1] == "std::iter::Iterator::any", False)
        t_e = bool_edges(ac, T, lambda c: c[0] == "call" and c[1] == "std::iter::Iterator::any", True)
        ctx.ob("R20.1", "quote-only-after-nul-check", dominated_by_edges(ac, qc[0][0], f_e, start=min(loops[0]) if loops else 0), ac.loc(qc[0][0]), "append_quoted must be dominated by the false edge of the NUL test")
        okerr = bool(t_e)
        for e in t_e:
            r = ac.reachable(e[1])
            vs = [v for (bb, si, v, rr) in result_variants(ac, M.Explore(ac, start=e[1]))]
            okerr = okerr and vs == ["Err"] and not (r & (loops[0] if loops else set()))
        ctx.ob("R20.1", "nul=>Err", okerr, ac.loc(anyc[0][0]), "an argument containing NUL makes assemble_cmdline return Err at once")
        a2 = [M.noref(M.strip(T.operand(x))) for x in qc[0][1]["args"]]
        ctx.ob("R20.1", "append_quoted(arg, cmdline)", a2[0] in (item, item_call) and T.addr(qc[0][1]["args"][1]) is not None and T.addr(qc[0][1]["args"][1])[1][0] == "local", ac.loc(qc[0][0]), "the same argument is quoted into the command-line buffer")
    else:
        ctx.ob("R20.1", "shape", False, ac.loc(0), "expected one any() test and one append_quoted call")
    # ---- R20.4 (part) separators ------------------------------------------------------------------
    firsts = [i for i, l in enumerate(ac.locals) if l["ty"] == "bool" and l.get("name")]
    ok = len(firsts) == 1
    if enumerated and not firsts and qc and loops:
        # the position is asked of the enumeration index: no separator for index 0, exactly one ' ' before every later argument
        head = min(loops[0])
        sp = [(bb, t) for bb, t in ac.calls(loops[0]) if M.callee_str(t["f"]) == "std::vec::Vec::<T, A>::push"]
        is_idx = lambda t: M.noref(t) == idx_item
        later = int_eq_edges_ne(ac, T, is_idx, 0) + int_gt_edges(ac, T, is_idx, 0)
        first = int_eq_edges(ac, T, is_idx, 0) + [(b_, s_) for (b_, t_) in int_gt_edges(ac, T, is_idx, 0) for s_ in ac.succs(b_) if s_ != t_]
        ok = len(sp) == 1 and const_of(T.operand(sp[0][1]["args"][1])) == 0x20 and T.addr(sp[0][1]["args"][0]) == T.addr(qc[0][1]["args"][1]) \
            and bool(later) and bool(first) and dominated_by_edges(ac, sp[0][0], later, start=nx[0][0]) \
            and all(qc[0][0] not in ac.reachable(e_[1], removed_blocks={sp[0][0]}, stop_blocks=[nx[0][0]]) for e_ in later) \
            and sp[0][0] in ac.reachable(nx[0][0], stop_blocks=[qc[0][0]])
        ctx.ob("R20.4", "one-space-between-args", ok, ac.loc(sp[0][0] if sp else 0), "first argument (index 0): no separator; every later argument: exactly one ' ' before it is quoted (space pushes in the loop: %d)" % len(sp))
    elif ok:
        fl = firsts[0]
        init = [T.rvalue(r) for (bb, si, r) in ac.defs().get(fl, []) if bb not in (loops[0] if loops else set())]
        res = {}
        for v in (1, 0):
            ex = M.Explore(ac, tracked=[fl], start=min(loops[0]) if loops else 0, init={fl: v}, stop=[qc[0][0]] if qc else [])
            pushes = [const_of(M.Terms(ac).operand(t["args"][1])) for bb, t in ex.calls(lambda f: M.callee_str(f) == "std::vec::Vec::<T, A>::push")]
            after = {dict(s).get(fl) for s in ex.state_at.get(qc[0][0], [])} if qc else set()
            res[v] = (pushes, after)
        ok = [const_of(x) for x in init] == [1] and res[1] == ([], {0}) and res[0] == ([0x20], {0})
        ctx.ob("R20.4", "one-space-between-args", ok, ac.loc(0), "is_first starts true; first argument: no separator and is_first := false; later arguments: exactly one ' ' (observed %s)" % res)
    else:
        ctx.ob("R20.4", "one-space-between-args", False, ac.loc(0), "expected one boolean first-argument flag")
    for (bb, si, v, r) in result_variants(ac, M.Explore(ac)):
        if v == "Ok":
            pay = T.operand(r["ops"][0])
            okp = pay[0] == "call" and pay[1].endswith("OsStringExt>::from_wide") and T.addr(qc[0][1]["args"][1]) is not None
            ctx.ob("R20.4", "result=from_wide(buffer)", okp, ac.loc(bb, si), "Ok(OsString::from_wide(&cmdline))")

    # ---- R20.2 bare only if non-empty and free of trigger characters -----------------------------------
    Tq = M.Terms(aq)
    argp = ("param", 1, aq.local_name(1))
    bufp = ("param", 2, aq.local_name(2))
    ext_all = aq.calls_to(lambda f: M.callee_str(f) == "<std::vec::Vec<T, A> as std::iter::Extend<T>>::extend")
    # an extend(cmdline, repeat('\\').take(K)) is an emission site of K backslashes (same as a `for _ in 0..K { push('\\') }` loop), not the bare form
    def _repeat_take(bb_, t_):
        a_ = [M.noref(Tq.operand(x)) for x in t_["args"]]
        src = a_[1]
        if src[0] == "call" and src[1] == "std::iter::Iterator::take" and src[2][0][0] == "call" and src[2][0][1] == "std::iter::repeat":
            return (a_[0], src[2][0][2][0], t_["args"][1])
        return None
    ext_emit = [(bb_, t_, _repeat_take(bb_, t_)) for bb_, t_ in ext_all if _repeat_take(bb_, t_)]
    ext = [(bb_, t_) for bb_, t_ in ext_all if not _repeat_take(bb_, t_)]
    ok = len(ext) == 1
    if ok:
        eb, et = ext[0]
        a = [M.noref(Tq.operand(x)) for x in et["args"]]
        okb = a[0] == bufp and a[1][0] == "call" and a[1][1] == ENC and a[1][2][0] == argp
        ne = bool_edges(aq, Tq, lambda c: c[0] == "call" and c[1] == "std::ffi::OsStr::is_empty" and M.noref(c[2][0]) == argp, False)
        anyc = aq.calls_to(lambda f: M.callee_str(f) == "std::iter::Iterator::any")
        lits, other = (set(), ["no any()"])
        f_e = []
        if len(anyc) == 1:
            aa = [Tq.operand(x) for x in anyc[0][1]["args"]]
            clo = aa[1][1][1] if aa[1][0] == "agg" and aa[1][1][0] == "closure" else (aa[1][1] if aa[1][0] == "fnitem" and aa[1][1] in prog.fns else None)
            if clo and M.noref(M.strip(aa[0], also=(ENC,))) == argp:
                lits, other = eq_literals(prog.fns[clo])
            f_e = bool_edges(aq, Tq, lambda c: c[0] == "call" and c[1] == "std::iter::Iterator::any", False)
        ctx.ob("R20.2", "bare=extend(cmdline, arg)", okb, aq.loc(eb), "the bare form appends the argument's UTF-16 units unchanged")
        def unreachable_under(pred, value):
            E = M.Explore(aq, assume_fn=lambda t: value if (t and pred(M.noref(t))) else None)
            return eb not in E.blocks
        has_empty = bool(aq.calls_to(lambda f: M.callee_str(f) == "std::ffi::OsStr::is_empty"))
        ne_ok = dominated_by_edges(aq, eb, ne) or (has_empty and unreachable_under(lambda c: c[0] == "call" and c[1] == "std::ffi::OsStr::is_empty" and M.noref(c[2][0]) == argp, 1))
        any_ok = dominated_by_edges(aq, eb, f_e) or (len(anyc) == 1 and unreachable_under(lambda c: c[0] == "call" and c[1] == "std::iter::Iterator::any", 1))
        ctx.ob("R20.2", "bare-only-if-nonempty", ne_ok, aq.loc(eb), "an empty argument must be quoted (\"\"), otherwise it disappears from the command line")
        ctx.ob("R20.2", "bare-only-if-no-trigger-char", any_ok and not other, aq.loc(eb), "the bare form is used only when no unit satisfies the trigger predicate %s" % other)
        for ch, nm in ((0x20, "space"), (0x09, "tab"), (0x22, "double quote")):
            ctx.ob("R20.2", "trigger-set-has-%s" % nm.replace(" ", "-"), ch in lits, aq.loc(anyc[0][0] if anyc else 0), "the quoting trigger set %s must contain %s (U+%04X)" % (sorted(lits), nm, ch))
        # bare branch returns without any quote
        r = aq.reachable(et["t"]) if et["t"] is not None else set()
        q = [b for b, t in aq.calls(r) if M.callee_str(t["f"]) == "std::vec::Vec::<T, A>::push"]
        ctx.ob("R20.2", "bare-returns-directly", not q, aq.loc(eb), "after the bare form nothing else is appended")
    else:
        ctx.ob("R20.2", "bare-branch.site", False, aq.loc(0), "expected one extend() (bare form) in append_quoted")

    # ---- R20.3 backslash arithmetic -------------------------------------------------------------------------
    S = M.SymTerms(aq)
    # the three variables of the scan, found by their role and not by their name: the collected units (a Vec<u16> built by collect() from
    # the argument's encode_wide()), the cursor (the variable the units are indexed with), the run counter (the variable the emission counts
    # are computed from)
    own = lambda i, l: i > aq.arg_count and l.get("name") and not l.get("inl")
    vlocs = []
    for i, l in enumerate(aq.locals):
        if own(i, l) and "Vec<u16" in l["ty"].replace(" ", ""):
            ds = [r for (_, _, r) in aq.defs().get(i, []) if r["k"] != "partial"]
            if len(ds) == 1 and ds[0]["k"] == "call" and M.callee_str(ds[0]["t"]["f"]) == "std::iter::Iterator::collect" and \
                    M.contains(Tq.local(i), lambda u: u[0] == "call" and u[1] == ENC and M.noref(u[2][0]) == argp):
                vlocs.append(i)
    ilocs, nlocs = set(), set()
    if len(vlocs) == 1:
        for bb_, t_ in aq.calls():
            if "index" in M.callee_str(t_["f"]).lower() and len(t_["args"]) == 2 and M.noref(S.operand(t_["args"][0])) == ("var", vlocs[0], aq.locals[vlocs[0]]["name"]):
                ix = M.noref(S.operand(t_["args"][1]))
                ilocs.add(ix[1] if ix[0] == "var" else None)
    cnt_terms = []
    for bb_ in sorted(aq.live_blocks()):
        for s_ in aq.blocks[bb_]["stmts"]:
            if s_["k"] == "assign" and s_["r"]["k"] == "agg" and s_["r"].get("adt") == "std::ops::Range":
                cnt_terms.append(S.operand(s_["r"]["ops"][1]))
    for bb_, t_, _ in ext_emit:
        tk_ = M.noref(S.operand(t_["args"][1]))
        if tk_[0] == "call" and len(tk_[2]) == 2:
            cnt_terms.append(tk_[2][1])
    for ct_ in cnt_terms:
        for lf in M.leaves(ct_):
            if lf[0] == "var" and own(lf[1], aq.locals[lf[1]]):
                nlocs.add(lf[1])
    ilocs, nlocs = sorted(ilocs, key=lambda x: -1 if x is None else x), sorted(nlocs)
    if len(nlocs) != 1 or len(ilocs) != 1 or ilocs[0] is None or len(vlocs) != 1:
        ctx.missing("R20.3", "the scan's variables (run counter / cursor / collected units)", "%s %s %s" % (nlocs, ilocs, vlocs))
        return
    n, i_, v_ = (("var", l_, aq.locals[l_]["name"]) for l_ in (nlocs[0], ilocs[0], vlocs[0]))

    def lin(t):
        t = M.noref(t)
        if t[0] == "field" and t[2] == "0" and t[1][0] == "bin":
            t = t[1]
        c = const_of(t)
        if c is not None:
            return (0, c)
        if t == n:
            return (1, 0)
        if t[0] == "bin" and t[1] in ("Mul", "MulWithOverflow"):
            a, b = lin(t[2]), lin(t[3])
            if a and b:
                if a[0] == 0:
                    return (b[0] * a[1], b[1] * a[1])
                if b[0] == 0:
                    return (a[0] * b[1], a[1] * b[1])
        if t[0] == "bin" and t[1] in ("Add", "AddWithOverflow"):
            a, b = lin(t[2]), lin(t[3])
            if a and b:
                return (a[0] + b[0], a[1] + b[1])
        if t[0] == "bin" and t[1] == "Shl":
            a, b = lin(t[2]), lin(t[3])
            if a and b and b[0] == 0:
                return (a[0] << b[1], a[1] << b[1])
        return None

    def is_get_i(t):
        """arg.get(i): the checked read of the unit under the cursor"""
        t = M.noref(t)
        if not (t[0] == "call" and t[1].endswith("<impl [T]>::get") and len(t[2]) == 2 and M.noref(t[2][1]) == i_):
            return False
        b = M.noref(t[2][0])
        while b[0] == "call" and ("deref" in b[1].lower() or "as_slice" in b[1]) and b[2]:
            b = M.noref(b[2][0])
        return b == v_

    def elem_at_i(t):
        t = M.noref(t)
        if t[0] == "field" and t[2] == "0" and t[1][0] == "downcast" and t[1][2] == "Some" and is_get_i(t[1][1]):
            return True
        return t[0] == "call" and "index" in t[1].lower() and M.noref(t[2][0]) == v_ and M.noref(t[2][1]) == i_

    is_len = lambda t: M.noref(t)[0] == "call" and M.noref(t)[1] == "std::vec::Vec::<T, A>::len" and M.noref(M.noref(t)[2][0]) == v_
    end_t = bool_edges(aq, S, lambda c: c[0] == "bin" and c[1] == "Eq" and ((M.noref(c[2]) == i_ and is_len(c[3])) or (M.noref(c[3]) == i_ and is_len(c[2]))), True)
    end_f = bool_edges(aq, S, lambda c: c[0] == "bin" and c[1] == "Eq" and ((M.noref(c[2]) == i_ and is_len(c[3])) or (M.noref(c[3]) == i_ and is_len(c[2]))), False)
    # (`match arg.get(i) { None => .., Some(&c) => .. }` asks the same question as `i == arg.len()`)
    end_t = end_t + variant_edges(aq, S, is_get_i, 0, [0, 1], "std::option::Option<")
    end_f = end_f + variant_edges(aq, S, is_get_i, 1, [0, 1], "std::option::Option<")
    q_t = bool_edges(aq, S, lambda c: c[0] == "bin" and c[1] == "Eq" and elem_at_i(c[2]) and const_of(c[3]) == 0x22, True)
    q_f = bool_edges(aq, S, lambda c: c[0] == "bin" and c[1] == "Eq" and elem_at_i(c[2]) and const_of(c[3]) == 0x22, False)
    ranges = []
    for bb in sorted(aq.live_blocks()):
        for si, s in enumerate(aq.blocks[bb]["stmts"]):
            if s["k"] == "assign" and s["r"]["k"] == "agg" and s["r"].get("adt") == "std::ops::Range":
                lo, hi = [S.operand(o) for o in s["r"]["ops"]]
                ranges.append((bb, const_of(lo), lin(hi), S.operand(s["r"]["ops"][1])))
    # the repeat/take form: (bb, lo=0, trip count, raw, direct=(buffer, unit))
    ranges = [r_ + (None,) for r_ in ranges]
    for bb_, t_, (buf_, unit_, _) in ext_emit:
        S_take = M.noref(S.operand(t_["args"][1]))
        cnt = S_take[2][1] if S_take[0] == "call" and len(S_take[2]) == 2 else ("unknown",)
        ranges.append((bb_, 0, lin(cnt), cnt, (buf_, unit_)))
    ctx.floor("R20.3", "emission sites (counted loops / repeat().take())", len(ranges), 3)
    want = {"end": (2, 0), "quote": (2, 1), "other": (1, 0)}
    seen = {}
    all_loops = M.sccs(aq)
    for bb, lo, hi, raw, direct in ranges:
        if dominated_by_edges(aq, bb, end_t):
            cls = "end"
        elif dominated_by_edges(aq, bb, q_t) and dominated_by_edges(aq, bb, end_f):
            cls = "quote"
        elif dominated_by_edges(aq, bb, q_f) and dominated_by_edges(aq, bb, end_f):
            cls = "other"
        else:
            cls = "unclassified@bb%d" % bb
        seen[cls] = seen.get(cls, 0) + 1
        okr = lo == 0 and cls in want and hi == want[cls]
        names = {"end": "at the end of the argument (before the closing quote)", "quote": "before an embedded double quote", "other": "before any other character"}
        ctx.ob("R20.3", "backslashes[%s]" % cls, okr, aq.loc(bb),
               "%s a run of n backslashes must be emitted %s times; the loop runs over 0..%s = %s*n+%s" % (
                   names.get(cls, cls), {"end": "2n", "quote": "2n+1", "other": "n"}.get(cls, "?"), M.term_str(raw)[:60], hi[0] if hi else "?", hi[1] if hi else "?"))
        if direct is not None:
            okb = direct[0] == bufp and const_of(direct[1]) == 0x5C
            ctx.ob("R20.3", "emits-backslash[%s]" % cls, okb, aq.loc(bb), "the repeated unit appended to the command line is '\\\\'")
            continue
        # the loop body pushes '\\': body = blocks between the Some edge of this Range's `next` and the next `next`
        drv = None
        first_reach = aq.reachable(bb)
        for b2 in sorted(first_reach):
            t2 = aq.blocks[b2]["term"]
            if t2["k"] == "call" and "Range" in M.callee_str(t2["f"]) and M.callee_str(t2["f"]).endswith("::next"):
                # the first driver reached from the construction without crossing another Range construction
                others = [r_[0] for r_ in ranges if r_[0] != bb and r_[4] is None]
                if b2 in aq.reachable(bb, removed_blocks=others):
                    if drv is None or b2 in aq.reachable(bb, stop_blocks=[drv]) and drv not in aq.reachable(bb, stop_blocks=[b2]):
                        drv = b2
        okb = False
        if drv is not None:
            sw = aq.blocks[drv]["term"]["t"]
            some_t = M.switch_target(aq.blocks[sw]["term"], 1) if sw is not None and aq.blocks[sw]["term"]["k"] == "switch" else None
            if some_t is not None:
                body = aq.reachable(some_t, stop_blocks=[drv]) - {drv}
                pushes = [b2 for b2 in body if aq.blocks[b2]["term"]["k"] == "call" and M.callee_str(aq.blocks[b2]["term"]["f"]) == "std::vec::Vec::<T, A>::push"]
                okb = drv in aq.reachable(some_t) and len(pushes) == 1 and const_of(S.operand(aq.blocks[pushes[0]]["term"]["args"][1])) == 0x5C \
                    and M.noref(S.operand(aq.blocks[pushes[0]]["term"]["args"][0])) == bufp and len(body) <= 6
        ctx.ob("R20.3", "emits-backslash[%s]" % cls, okb, aq.loc(bb), "each iteration of that loop pushes one '\\\\' to the command line")
    ctx.ob("R20.3", "three-cases", seen == {"end": 1, "quote": 1, "other": 1}, aq.loc(0), "emission loops by guard: %s (need exactly one for end-of-argument, one before '\"', one otherwise)" % seen)
    # after the quote case and the plain case the character itself is pushed
    cp = [(bb, t) for bb, t in aq.calls() if M.callee_str(t["f"]) == "std::vec::Vec::<T, A>::push" and elem_at_i(S.operand(t["args"][1]))]
    cls_of = lambda bb: "quote" if dominated_by_edges(aq, bb, q_t) else ("other" if dominated_by_edges(aq, bb, q_f) else "?")
    ctx.ob("R20.3", "char-pushed-after-backslashes", sorted(cls_of(bb) for bb, _ in cp) == ["other", "quote"] and not any(dominated_by_edges(aq, bb, end_t) for bb, _ in cp), aq.loc(cp[0][0] if cp else 0),
           "arg[i] itself is pushed in the '\"' case and in the plain case (found in %s)" % sorted(cls_of(bb) for bb, _ in cp))
    # the counter counts consecutive backslashes: n += 1 and i += 1 under arg[i] == '\\', reset to 0 per outer iteration
    bs_t = bool_edges(aq, S, lambda c: c[0] == "bin" and c[1] == "Eq" and elem_at_i(c[2]) and const_of(c[3]) == 0x5C, True)
    incs = []
    resets = []
    for (bb, si, r) in aq.defs().get(nlocs[0], []):
        if r["k"] == "partial":
            continue
        t = S.rvalue(r) if r["k"] != "call" else None
        # the raw rvalue mentions the counter itself
        raw = r
        if r["k"] == "use" and r["op"]["k"] == "const":
            resets.append((bb, r["op"].get("int")))
        else:
            tt = M.noref(S.rvalue(r)) if r["k"] != "call" else None
            src = None
            if r["k"] == "use" and r["op"]["k"] in ("copy", "move"):
                p = r["op"]["p"]
                d = [x for x in aq.defs().get(p["l"], []) if x[2]["k"] == "bin"]
                if d and d[0][2]["op"] in ("AddWithOverflow", "Add"):
                    a_, b_ = d[0][2]["a"], d[0][2]["b"]
                    if a_["k"] in ("copy", "move") and a_["p"]["l"] == nlocs[0] and b_["k"] == "const" and b_.get("int") == 1:
                        src = "n+1"
            incs.append((bb, src))
    okc = [r[1] for r in resets] == [0] and len(incs) == 1 and incs[0][1] == "n+1" and dominated_by_edges(aq, incs[0][0], bs_t)
    ctx.ob("R20.3", "counter=consecutive-backslashes", okc, aq.loc(incs[0][0] if incs else 0), "num_backslashes is reset to 0 for every run and incremented exactly under `arg[i] == '\\\\'` (resets %s, increments %s)" % (resets, incs))

    # ---- R20.5 scan discipline: the cursor visits every unit exactly once, in order, in bounds ---------------------------------
    i_resets, i_incs, i_other = [], [], []
    for (bb, si, r) in aq.defs().get(ilocs[0], []):
        if r["k"] == "partial":
            continue
        if r["k"] == "use" and r["op"]["k"] == "const":
            i_resets.append((bb, r["op"].get("int")))
            continue
        src = None
        if r["k"] == "use" and r["op"]["k"] in ("copy", "move"):
            d = [x for x in aq.defs().get(r["op"]["p"]["l"], []) if x[2]["k"] == "bin"]
            if d and d[0][2]["op"] in ("AddWithOverflow", "Add"):
                a_, b_ = d[0][2]["a"], d[0][2]["b"]
                if a_["k"] in ("copy", "move") and a_["p"]["l"] == ilocs[0] and b_["k"] == "const" and b_.get("int") == 1:
                    src = "i+1"
        (i_incs if src else i_other).append(bb)
    i_incs_pre = list(i_incs)
    lt_t = bool_edges(aq, S, lambda c: c[0] == "bin" and ((c[1] == "Lt" and M.noref(c[2]) == i_ and is_len(c[3])) or (c[1] == "Gt" and M.noref(c[3]) == i_ and is_len(c[2]))), True)
    in_bounds = lt_t + end_f
    idx_sites = [(bb, t) for bb, t in aq.calls() if "index" in M.callee_str(t["f"]).lower() and len(t["args"]) == 2
                 and M.noref(S.operand(t["args"][0])) == v_]
    get_sites = [(bb, t) for bb, t in aq.calls() if is_get_i(("call", M.callee_str(t["f"]), tuple(S.operand(a_) for a_ in t["args"]), bb))]
    ctx.floor("R20.5", "reads of the unit under the cursor (arg[i] / arg.get(i))", len(idx_sites) + len(get_sites), 3 if not get_sites else 2)
    for bb, t in idx_sites:
        at_i = M.noref(S.operand(t["args"][1])) == i_
        # the bound must have been established for the *current* value of i: also on every path that starts after an increment of i
        fresh = all(bb not in aq.reachable(aq.blocks[x]["term"].get("t", x) if aq.blocks[x]["term"]["k"] == "call" else x) or
                    all(dominated_by_edges(aq, bb, in_bounds, start=s_) for s_ in aq.succs(x)) for x in i_incs_pre)
        ctx.ob("R20.5", "index-is-cursor-in-bounds", at_i and dominated_by_edges(aq, bb, in_bounds) and fresh, aq.loc(bb),
               "every arg[..] access reads arg[i] under `i < arg.len()` (or after `i == arg.len()` was excluded): an access at i == len panics for arguments ending in a backslash run")
    in_loop = set().union(*all_loops) if all_loops else set()
    ctx.ob("R20.5", "cursor-starts-at-0", [v for _, v in i_resets] == [0] and all(b not in in_loop for b, _ in i_resets) and not i_other, aq.loc(i_resets[0][0] if i_resets else 0),
           "the cursor i is initialised to 0 once, outside every loop, and otherwise only ever incremented by one (initialisations %s, other updates in blocks %s)" % (i_resets, i_other))
    # every cycle of the function either advances the cursor or is one of the counted emission loops
    rng_drv = [bb for bb, t in aq.calls() if "Range" in M.callee_str(t["f"]) and M.callee_str(t["f"]).endswith("::next")]
    stuck = M.sccs(aq, removed=set(i_incs) | set(rng_drv))
    ctx.ob("R20.5", "every-iteration-advances-cursor", bool(i_incs) and not stuck, aq.loc(min(min(c) for c in stuck) if stuck else 0),
           "every loop iteration over the argument advances i by one (a cycle that neither increments i nor is a counted emission loop re-reads the same unit forever or skips it): remaining cycles %s" % [sorted(c)[:6] for c in stuck])
    # a unit that is copied is copied once per visit: between two cursor advances at most one push(arg[i])
    cpb = {bb for bb, _ in cp}
    twice = [b for b in cpb if any(b2 in aq.reachable(aq.blocks[b]["term"]["t"], stop_blocks=i_incs) for b2 in cpb)] if cp else []
    ctx.ob("R20.5", "unit-copied-once-per-visit", not twice, aq.loc(twice[0] if twice else 0), "after push(arg[i]) the cursor advances before any further push(arg[i])")

    # ---- R20.4 quotes bracket the loop -------------------------------------------------------------------------
    qp = [(bb, t) for bb, t in aq.calls() if M.callee_str(t["f"]) == "std::vec::Vec::<T, A>::push" and const_of(S.operand(t["args"][1])) == 0x22 and M.noref(S.operand(t["args"][0])) == bufp]
    outer = max(all_loops, key=len) if all_loops else set()
    ok = len(qp) == 2
    if ok:
        first, last = sorted(qp, key=lambda x: x[0])
        if first[0] in aq.reachable(last[0]):
            first, last = last, first
        ok = dominated_by_blocks(aq, min(outer), [first[0]]) and first[0] not in outer and last[0] not in outer
        # closing quote on every path from the opening quote to return
        rets = [r for r in aq.return_blocks() if r in aq.reachable(first[0])]
        ok = ok and all(dominated_by_blocks(aq, r, [last[0]], start=first[0]) for r in rets) and last[0] in aq.reachable(first[0])
    ctx.ob("R20.4", "quotes-bracket-the-argument", ok, aq.loc(qp[0][0] if qp else 0), "an opening '\"' precedes the emission loop and a closing '\"' is pushed on every path to return (quote pushes found: %d)" % len(qp))
