"""C18 — children start with a clean signal state regardless of the parent."""
import mirlib as M
from common import *

SPEC = {
    "explanation": (
        "Static decision on the resolved MIR: (1) who-may-call census — libc::fork is called only by posix::fork, "
        "which is called only by os_start; no vfork/posix_spawn/clone/std::process spawn exists in the crate, so "
        "every child (single commands and every pipeline stage) passes through the one child region; (2) the exec* "
        "externs are called only from PrepExec::libc_exec <- PrepExec::exec <- the closure returned by prep_exec, "
        "whose only consumer is do_exec inside the child region; (3) in do_exec the invocation of that closure is "
        "dominated by the success edge of `reset_sigpipe()?`; (4) reset_sigpipe installs an *empty* set "
        "(sigemptyset on the very object handed to pthread_sigmask, no sigaddset/sigfillset anywhere) with "
        "SIG_SETMASK, sets SIGPIPE to SIG_DFL, returns Ok only after all three calls succeeded and Err otherwise."
    ),
    "not_decided": "kernel semantics of execve w.r.t. masks and dispositions (POSIX).",
    "trusted_base": ["rustc MIR", "POSIX sigemptyset/pthread_sigmask/signal/execve", "mirlib dominance, provenance, call census"],
    "assumptions": [],
}

EXEC_EXTERNS = ["execv", "execve", "execvp", "execvpe", "execl", "execlp", "execle", "fexecve", "execveat"]


def run(ctx):
    prog = ctx.prog
    fm = ForkModel(prog)
    # ---- R18.1 single spawn path ----------------------------------------
    ctx.floor("R18.1", "process-creating extern call sites", len(fm.libc_fork), 1)
    for fn, bb, t in fm.libc_fork:
        nm = M.callee_str(t["f"])
        ctx.ob("R18.1", "extern:%s@%s" % (nm, fn.path), nm == "libc::fork" and fn.path == "posix::fork", fn.loc(bb),
               "%s called in %s (only libc::fork inside posix::fork)" % (nm, fn.path))
    ctx.floor("R18.1", "posix::fork call sites", len(fm.wrapper_calls), 1)
    for fn, bb, t in fm.wrapper_calls:
        ctx.ob("R18.1", "posix::fork@%s" % fn.path, fn.path.endswith("::os_start"), fn.loc(bb), "posix::fork called from %s (only os_start)" % fn.path)
    for p, fn in sorted(prog.fns.items()):
        for bb, t in fn.calls():
            nm = M.callee_str(t["f"])
            if nm.startswith("std::process::Command") or nm.startswith("std::process::Child"):
                ctx.ob("R18.1", "std::process@%s" % p, False, fn.loc(bb), "second spawn path through %s" % nm)
    if not fm.ok:
        ctx.ob("R18.1", "fork-model", False, "", "cannot locate a unique fork site with child/parent edges")
        return
    os_start = fm.fn
    create_callers = callers_of(prog, os_start.path)
    ctx.ob("R18.1", "os_start<-create", [f.path for f, _, _ in create_callers] == ["popen::Popen::create"], os_start.loc(0),
           "os_start callers: %s" % [f.path for f, _, _ in create_callers])
    pc = callers_of(prog, "popen::Popen::create")
    ctx.ob("R18.1", "create<-Exec::popen", [f.path for f, _, _ in pc] == ["builder::exec::Exec::popen"], "", "Popen::create callers inside the crate: %s" % [f.path for f, _, _ in pc])
    # every process-creating public API of the builder funnels into Exec::popen
    for api in ("builder::exec::Exec::join", "builder::exec::Exec::capture", "builder::exec::Exec::communicate", "builder::exec::Exec::stream_stdout",
                "builder::exec::Exec::stream_stderr", "builder::exec::Exec::stream_stdin", "builder::pipeline::Pipeline::popen", "builder::pipeline::Pipeline::join",
                "builder::pipeline::Pipeline::capture", "builder::pipeline::Pipeline::communicate", "builder::pipeline::Pipeline::stream_stdout", "builder::pipeline::Pipeline::stream_stdin"):
        if api not in prog.fns:
            ctx.missing("R18.1", api)
            continue
        reach = M.local_closure(prog, [api])
        ctx.ob("R18.1", "api:%s->os_start" % api.split("builder::")[-1], os_start.path in reach and "posix::fork" in reach, prog.fns[api].loc(0), "%s must create processes through os_start" % api)

    # ---- R18.2 reset dominates exec, across the call chain ---------------
    ex_sites = extern_calls(prog, EXEC_EXTERNS)
    ctx.floor("R18.2", "exec* extern call sites", len(ex_sites), 2)
    for fn, bb, t in ex_sites:
        ctx.ob("R18.2", "extern:%s@%s" % (M.callee_str(t["f"]), fn.path), fn.path == "posix::PrepExec::libc_exec", fn.loc(bb), "exec* called in %s (only PrepExec::libc_exec)" % fn.path)
    chain = [("posix::PrepExec::libc_exec", ["posix::PrepExec::exec"]), ("posix::PrepExec::exec", ["posix::prep_exec::{closure#2}"])]
    exec_closure = None
    for callee, want in chain:
        cs = sorted({f.path for f, _, _ in callers_of(prog, callee)})
        if callee == "posix::PrepExec::exec":
            ok = len(cs) == 1 and cs[0].startswith("posix::prep_exec::{closure")
            exec_closure = cs[0] if ok else None
        else:
            ok = cs == want
        ctx.ob("R18.2", "callers:%s" % callee, ok, prog.fns[callee].loc(0) if callee in prog.fns else "", "callers of %s: %s" % (callee, cs))
    rc = returned_closures(prog, "posix::prep_exec")
    ctx.ob("R18.2", "prep_exec-returns-exec-closure", exec_closure is not None and rc == {exec_closure}, prog.one("posix::prep_exec").loc(0),
           "prep_exec returns closures %s; the one calling PrepExec::exec is %s" % (sorted(rc), exec_closure))
    pcs = callers_of(prog, "posix::prep_exec")
    ctx.ob("R18.2", "prep_exec<-os_start", [f.path for f, _, _ in pcs] == [os_start.path], os_start.loc(0), "prep_exec callers: %s" % [f.path for f, _, _ in pcs])
    # the closure value flows only into do_exec's first argument, inside the child region
    T = fm.T
    de_calls = callers_of(prog, "<popen::Popen as popen::os::PopenOsImpl>::do_exec")
    ctx.floor("R18.2", "do_exec call sites", len(de_calls), 1)
    for fn, bb, t in de_calls:
        inchild = fn.path == os_start.path and bb in fm.child_region and bb not in fm.parent_region
        ctx.ob("R18.2", "do_exec-in-child", inchild, fn.loc(bb), "do_exec must be called only in the fork-child region of os_start")
        a0 = M.strip(T.operand(t["args"][0])) if fn.path == os_start.path else None
        ctx.ob("R18.2", "do_exec.just_exec<-prep_exec", a0 is not None and a0[0] == "call" and a0[1] == "posix::prep_exec", fn.loc(bb), "do_exec's closure argument = %s" % (M.term_str(a0) if a0 else None))
    # uses of the closure local in os_start other than the move into do_exec / drop
    de = prog.one("PopenOsImpl>::do_exec")
    TD = M.Terms(de)
    inv = [(bb, t) for bb, t in de.calls() if M.callee_str(t["f"]) in ("std::ops::FnOnce::call_once", "std::ops::FnMut::call_mut", "std::ops::Fn::call")
           and M.strip(TD.operand(t["args"][0])) == ("param", 1, de.local_name(1))]
    ctx.floor("R18.2", "invocations of just_exec in do_exec", len(inv), 1)
    ok_edges = try_ok_edges(de, TD, lambda c: c[1] == "posix::reset_sigpipe")
    for bb, t in inv:
        ctx.ob("R18.2", "exec-after-reset", dominated_by_edges(de, bb, ok_edges), de.loc(bb),
               "the exec closure must be invoked only after `posix::reset_sigpipe()?` succeeded on every path")
    # nothing else in the child region can exec
    for p in sorted(fm.child_closure()):
        f = prog.fns[p]
        for bb, t in f.calls():
            if M.callee_str(t["f"]).split("::")[-1] in EXEC_EXTERNS and p != "posix::PrepExec::libc_exec":
                ctx.ob("R18.2", "other-exec@%s" % p, False, f.loc(bb), "exec reachable in the child outside libc_exec")
    rs_calls = callers_of(prog, "posix::reset_sigpipe")
    ctx.ob("R18.2", "reset_sigpipe<-do_exec", [f.path for f, _, _ in rs_calls] == [de.path], de.loc(0), "reset_sigpipe callers: %s" % [f.path for f, _, _ in rs_calls])

    # ---- R18.3 reset_sigpipe internals -----------------------------------
    rs = prog.one("posix::reset_sigpipe")
    T = M.Terms(rs)
    forbidden = extern_calls(prog, ["sigaddset", "sigfillset", "sigdelset", "sigprocmask", "sigaction", "sigsuspend"])
    for fn, bb, t in forbidden:
        nm = M.callee_str(t["f"])
        if nm.endswith("sigaddset") or nm.endswith("sigfillset"):
            ctx.ob("R18.3", "nonempty-set:%s@%s" % (nm, fn.path), False, fn.loc(bb), "%s would make the installed mask non-empty" % nm)
    mask = rs.calls_to(lambda f: M.callee_str(f) in ("libc::pthread_sigmask", "libc::sigprocmask"))
    empt = rs.calls_to(lambda f: M.callee_str(f) == "libc::sigemptyset")
    sig = rs.calls_to(lambda f: M.callee_str(f) in ("libc::signal",))
    ctx.ob("R18.3", "shape", len(mask) == 1 and len(empt) == 1 and len(sig) == 1, rs.loc(0), "expected one sigemptyset, one pthread_sigmask, one signal call (found %d/%d/%d)" % (len(empt), len(mask), len(sig)))
    if len(mask) == 1 and len(empt) == 1 and len(sig) == 1:
        mb, mt = mask[0]
        a = [T.operand(x) for x in mt["args"]]
        how_ok = a[0][0] == "const" and a[0][2] == "libc::SIG_SETMASK" and a[0][1] == 2
        ctx.ob("R18.3", "mask.how", how_ok, rs.loc(mb), "pthread_sigmask how = %s (must be SIG_SETMASK)" % M.term_str(a[0]))
        # arg1 = &assume_init(set) with set the MaybeUninit initialised through sigemptyset(set.as_mut_ptr())
        eb, et = empt[0]
        ea = M.strip(T.operand(et["args"][0]), also=("std::mem::MaybeUninit::<T>::as_mut_ptr",))
        sa = M.strip(a[1], also=("std::mem::MaybeUninit::<T>::assume_init",))
        same = ea == sa and ea[0] == "call" and ea[1] == "std::mem::MaybeUninit::<T>::uninit"
        ctx.ob("R18.3", "mask.set-is-the-emptied-set", same, rs.loc(mb), "set passed to pthread_sigmask = %s; set emptied = %s" % (M.term_str(sa), M.term_str(ea)))
        e_ok = try_ok_edges(rs, T, lambda c: c[1] == "posix::check_err" and M.contains(c, lambda u: u[0] == "call" and u[1] == "libc::sigemptyset"))
        ctx.ob("R18.3", "mask.after-emptyset-ok", dominated_by_edges(rs, mb, e_ok), rs.loc(mb), "pthread_sigmask must follow a successful sigemptyset")
        sb, stt = sig[0]
        sa_ = [T.operand(x) for x in stt["args"]]
        ctx.ob("R18.3", "signal.sigpipe", sa_[0][0] == "const" and sa_[0][2] == "libc::SIGPIPE" and sa_[0][1] == 13, rs.loc(sb), "signal number = %s (must be SIGPIPE)" % M.term_str(sa_[0]))
        ctx.ob("R18.3", "signal.default", sa_[1][0] == "const" and sa_[1][2] == "libc::SIG_DFL" and sa_[1][1] == 0, rs.loc(sb), "handler = %s (must be SIG_DFL)" % M.term_str(sa_[1]))
        m_ok = try_ok_edges(rs, T, lambda c: c[1] == "posix::check_err" and M.contains(c, lambda u: u[0] == "call" and u[1] in ("libc::pthread_sigmask", "libc::sigprocmask")))
        # Ok return dominated by all three
        okb = [bb for bb in rs.live_blocks() for s in rs.blocks[bb]["stmts"] if s["k"] == "assign" and s["p"]["l"] == 0 and not s["p"]["proj"] and s["r"].get("variant") == "Ok"]
        for bb in okb:
            d = dominated_by_edges(rs, bb, e_ok) and dominated_by_edges(rs, bb, m_ok) and dominated_by_blocks(rs, bb, [sb])
            ctx.ob("R18.3", "ok-after-all-three", d, rs.loc(bb), "Ok(()) must be returned only after sigemptyset, pthread_sigmask and signal all succeeded")
            # the SIG_ERR outcome of signal() must not reach Ok
            sigerr = (1 << prog.doc["pointer_bits"]) - 1
            is_sig = lambda t: sigerr if (t and t[0] == "call" and t[1] == "libc::signal") else None
            E = M.Explore(rs, assume_fn=is_sig)
            err_edge_ok = bb not in E.blocks and sb in E.blocks
            ctx.ob("R18.3", "signal.error-checked", err_edge_ok, rs.loc(sb), "SIG_ERR from signal() must lead to Err, not Ok")
        ctx.ob("R18.3", "ok-return-exists", bool(okb), rs.loc(0), "reset_sigpipe has an Ok return")


def run_thorough(ctx):
    # whole-program who-may-call: process creation and exec only through the crate's wrappers
    deep_census(ctx, "R18.1", ["fork", "vfork", "clone", "clone3", "posix_spawn", "posix_spawnp", "_Fork"], {"fork": ["posix::fork"]})
    deep_census(ctx, "R18.2", EXEC_EXTERNS, {"execv": ["posix::PrepExec::libc_exec"], "execve": ["posix::PrepExec::libc_exec"]})
    deep_census(ctx, "R18.3", ["sigaddset", "sigfillset", "sigprocmask", "sigaction", "pthread_sigmask", "signal", "sigemptyset"],
                {"pthread_sigmask": ["posix::reset_sigpipe"], "signal": ["posix::reset_sigpipe"], "sigemptyset": ["posix::reset_sigpipe"]})
