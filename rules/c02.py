"""C02 — communicate moves bytes exactly: output verbatim, input once, then EOF."""
import mirlib as M
from common import *
from comm import *

SPEC = {
    "explanation": (
        "Routing and accounting decided by provenance on the resolved MIR: (a) what do_read appends is exactly the "
        "prefix buf[..n] of the buffer just filled, n being that read's result, on the n != 0 edge; (b) stdout's "
        "file feeds only outvec -> result.0 -> CaptureData.stdout, stderr's only errvec -> result.1 -> .stderr, "
        "through every layer (do_read call sites, RawCommunicator::read, Communicator::read Ok and "
        "CommunicateError.capture, Exec/Pipeline::capture, communicate_start, communicate, the constructors, "
        "Pipeline::setup_communicate); (c) a result component is Some iff the corresponding stream is held; (d) the "
        "input cursor advances by exactly what write() accepted and the next chunk starts at the cursor; (e) stdin "
        "is closed when, and only when, the cursor reaches the end; (f) the text variants are the lossy decoding of "
        "the very same byte result, component-wise."
        " Also: the advanced input cursor is stored before every return (error returns included). Thorough tier, windows: routing by StreamIdent, transmit = chunk[..nread], read() yields Some(vec) iff that stream was requested."
    ),
    "not_decided": "that the kernel delivers bytes in order; short-read / short-write behaviour beyond the accounting clauses; UTF-8 decoding (std).",
    "trusted_base": ["rustc MIR", "Read::read returns n <= buf.len() and fills buf[..n]; Write::write returns how many bytes of the slice it took",
                     "Vec::extend_from_slice appends in order", "mirlib provenance terms / slot addressing / dominance"],
    "assumptions": [],
}


def run(ctx):
    prog = ctx.prog
    E = Engine(prog)
    ri, dr, T = E.ri, E.dr, E.T
    Td = M.Terms(dr)
    # ---- R02.1 append exactly what was read -------------------------------------------------
    ext = dr.calls_to(lambda f: M.callee_str(f) == "std::vec::Vec::<T, A>::extend_from_slice")
    ctx.ob("R02.1", "append.site", len(ext) == 1 and len(E.reads) == 1, dr.loc(0), "do_read has one read and one append (found %d/%d)" % (len(E.reads), len(ext)))
    if len(ext) == 1 and len(E.reads) == 1:
        rb, rt = E.reads[0]
        buf_op = rt["args"][1]
        buf_local = Td.origin_local(buf_op) if False else None
        rcall = ("call", M.callee_str(rt["f"]), tuple(Td.operand(a) for a in rt["args"]), rb)
        eb, et = ext[0]
        a = [Td.operand(x) for x in et["args"]]
        sl = M.noref(a[1])
        ok = sl[0] == "call" and "index" in sl[1].lower() and sl[2][1][0] == "agg" and sl[2][1][1][1] == "std::ops::RangeTo"
        detail = M.term_str(sl)[:160]
        if ok:
            end = sl[2][1][2][0]
            n_ok = M.strip(end) == M.noref(rcall)
            same_buf = M.noref(sl[2][0]) == M.noref(rcall[2][1])
            ok = n_ok and same_buf
            detail = "end of the appended range is this read's result: %s; the slice is taken from the buffer handed to read(): %s" % (n_ok, same_buf)
        ctx.ob("R02.1", "append=buf[..n]", ok and M.noref(a[0]) == ("param", 2, dr.local_name(2)), dr.loc(eb), "the bytes appended to dest must be buf[..n] of the read just performed: " + detail)
        is_n = lambda x: M.noref(M.strip(x)) == M.noref(rcall)
        # (`n != 0`, `!(n == 0)`, `n > 0`, or the other arm of `match n { 0 => .. }`)
        nz = int_eq_edges_ne(dr, Td, is_n, 0) + int_gt_edges(dr, Td, is_n, 0)
        ctx.ob("R02.1", "append-on-n!=0", dominated_by_edges(dr, eb, nz), dr.loc(eb), "the append happens on the n != 0 edge of that read")
        # every path from a successful non-empty read to return passes the append
        if nz:
            rets = [r for r in dr.return_blocks() if r in dr.reachable(nz[0][1])]
            ctx.ob("R02.1", "nothing-read-is-dropped", all(dominated_by_blocks(dr, r, [eb], start=nz[0][1]) for r in rets), dr.loc(eb), "after a non-empty read every path to return appends the data")

    # ---- R02.2 routing table ---------------------------------------------------------------------
    table = {}
    for bb, t in E.do_reads:
        slot = T.addr(t["args"][0])
        src = M.noref(M.strip(T.local(slot[1][1]))) if slot and slot[1][0] == "local" else None
        dest = M.noref(T.operand(t["args"][1]))
        table[src[2] if src and src[0] == "field" else None] = dest[2] if dest[0] == "param" else M.term_str(dest)
    ctx.ob("R02.2", "do_read:stdout->outvec,stderr->errvec", table == {"stdout": "outvec", "stderr": "errvec"}, ri.loc(0), "stream -> destination vector at the do_read sites: %s" % table)
    rr = prog.one("communicate::raw::RawCommunicator::read")
    Tr = M.Terms(rr)
    rc = rr.calls_to(lambda f: M.callee_str(f) == RI)
    ok = len(rc) == 1
    vec_slots = {}
    if ok:
        a = rc[0][1]["args"]
        # which read_into parameters are outvec / errvec
        oi, ei = E.params.get("outvec"), E.params.get("errvec")
        vec_slots = {"outvec": Tr.addr(a[oi - 1]), "errvec": Tr.addr(a[ei - 1])}
        ok = all(v is not None and v[1][0] == "local" for v in vec_slots.values()) and vec_slots["outvec"] != vec_slots["errvec"]
        ok = ok and Tr.operand(a[E.params["deadline"] - 1]) == ("param", 2, rr.local_name(2)) and Tr.operand(a[E.params["size_limit"] - 1]) == ("param", 3, rr.local_name(3))
    ctx.ob("R02.2", "RawCommunicator::read.vectors", ok, rr.loc(0), "read() passes two distinct local vectors as outvec/errvec and its own deadline/size_limit")
    if ok:
        # output tuple: (self.stdout.as_ref().map(|_| outvec), self.stderr.as_ref().map(|_| errvec))
        r0 = Tr.local(0)
        good = r0[0] == "agg" and r0[1] == "tuple" and len(r0[2]) == 2 and r0[2][1][0] == "agg" and r0[2][1][1] == "tuple"
        comps = r0[2][1][2] if good else ()
        for k, (stream, vec) in enumerate((("stdout", "outvec"), ("stderr", "errvec"))):
            okc = good and len(comps) == 2
            if okc:
                c = comps[k]
                # Some(vec) iff self.<stream> is held — written as .map(|_| vec), or as a match / if-let on the field
                is_stream = lambda x, stream=stream: M.noref(M.strip(x)) == ("field", ("param", 1, rr.local_name(1)), stream)
                ob_ = option_body(prog, rr, Tr, c, is_stream)
                okc = ob_ is not None and ob_.none_ok and ob_.form in ("map", "match") and len(ob_.results) == 1
                if okc and ob_.form == "map":
                    cf = ob_.fn
                    okc = ob_.results[0][1] == ("field", ("param", 1, cf.local_name(1)), "0")
                    # the captured vector is the one handed to read_into as `vec`
                    cap_local = None
                    for bb in rr.live_blocks():
                        for s in rr.blocks[bb]["stmts"]:
                            if s["k"] == "assign" and s["r"]["k"] == "agg" and s["r"]["kind"] == "closure" and s["r"]["closure"] == cf.path:
                                cap_local = Tr.origin_local(s["r"]["ops"][0])
                    okc = okc and cap_local == vec_slots[vec][1][1]
                elif okc:
                    # match form: the payload expression is the vector local itself
                    v_ = ob_.results[0][1]
                    okc = v_ == ("local", vec_slots[vec][1][1]) or (M.noref(v_) == M.noref(Tr.local(vec_slots[vec][1][1])) and M.noref(v_)[0] == "call") or (Tr.addr_of_term(v_) if hasattr(Tr, "addr_of_term") else None) == vec_slots[vec] or \
                        any(s_["k"] == "assign" and s_["r"]["k"] == "agg" and s_["r"].get("variant") == "Some" and s_["r"]["ops"] and s_["r"]["ops"][0]["k"] in ("move", "copy")
                            and Tr.origin_local(s_["r"]["ops"][0]) == vec_slots[vec][1][1] for s_ in rr.blocks[ob_.results[0][0]]["stmts"])
            if okc:
                # ... and "iff self.<stream> is held" decided by evaluation: with the stream absent the component is None, with it present it is
                # Some(..) (the mutation sweep showed that the match form above no longer said *which* stream decides)
                fld = ("field", ("param", 1, rr.local_name(1)), stream)
                NONE_ = ("agg", ("adt", "std::option::Option", "None"), ())
                def comp_under(v_):
                    E_ = M.Explore(rr, assume_fn=lambda t_: v_ if (t_ and M.noref(M.strip(t_)) == fld) else None)
                    t0 = M.Terms(rr, blocks=E_.blocks).local(0)
                    if not (t0[0] == "agg" and t0[1] == "tuple" and len(t0[2]) == 2 and t0[2][1][0] == "agg" and t0[2][1][1] == "tuple" and len(t0[2][1][2]) == 2):
                        return None
                    return set(M.alts(t0[2][1][2][k]))
                absent, present = comp_under(0), comp_under(1)
                okc = absent == {NONE_} and present is not None and len(present) == 1 and next(iter(present))[0] == "agg" and next(iter(present))[1][:3] == ("adt", "std::option::Option", "Some")
            ctx.ob("R02.2", "read.result.%d=%s.map(%s)" % (k, stream, vec), okc, rr.loc(0), "component %d of the captured pair must be Some(%s) iff self.%s is held" % (k, vec, stream))
        err0 = r0[2][0] if good else None
        ctx.ob("R02.2", "read.error=read_into.err()", good and err0[0] == "call" and err0[1] == "std::result::Result::<T, E>::err" and err0[2][0][0] == "call" and err0[2][0][1] == RI, rr.loc(0), "the error component is read_into's error")
    cr = prog.one("communicate::Communicator::read")
    Tc = M.Terms(cr)
    inner = cr.calls_to(lambda f: M.callee_str(f) == rr.path)
    ok = len(inner) == 1
    if ok:
        call = ("call", rr.path, tuple(Tc.operand(a) for a in inner[0][1]["args"]), inner[0][0])
        okv, errv = None, None
        for (bb, si, v, r) in result_variants(cr, M.Explore(cr)):
            if v == "Ok":
                okv = Tc.operand(r["ops"][0])
            elif v == "Err":
                errv = Tc.operand(r["ops"][0])
        ok = okv == ("field", call, "1")
        ok = ok and errv is not None and errv[0] == "agg" and errv[1][:2] == ("adt", "communicate::CommunicateError") and errv[2][1] == ("field", call, "1") and M.strip(errv[2][0]) == ("field", call, "0")
    ctx.ob("R02.2", "Communicator::read.passes-pair-through", ok, cr.loc(0), "Ok(capture) and CommunicateError{error, capture} carry the inner pair unchanged")
    for path, src_call in (("builder::exec::Exec::capture", "communicate::Communicator::read"), ("builder::pipeline::Pipeline::capture", "communicate::Communicator::read")):
        f = prog.one(path)
        Tf = M.Terms(f)
        for (bb, si, v, r) in result_variants(f, M.Explore(f)):
            if v != "Ok":
                continue
            cd = Tf.operand(r["ops"][0])
            okc = cd[0] == "agg" and cd[1][:2] == ("adt", "builder::exec::CaptureData")
            if okc:
                fields = dict(zip(r and prog.adts["builder::exec::CaptureData"]["variants"][0]["fields"] and [x["name"] for x in prog.adts["builder::exec::CaptureData"]["variants"][0]["fields"]], cd[2]))
                def comp(t):
                    # the captured vector of component k, or an empty vector where that stream was not captured
                    ks = set()
                    for a_ in M.alts(t):
                        a_ = M.noref(a_)
                        if a_[0] == "call" and a_[1] in ("std::vec::Vec::<T>::new", "<std::vec::Vec<T> as std::default::Default>::default") and not a_[2]:
                            continue
                        a_ = M.strip(a_, also=("std::option::Option::<T>::unwrap_or_else", "std::option::Option::<T>::unwrap_or_default", "std::option::Option::<T>::unwrap_or"))
                        if a_[0] == "field" and a_[2] in ("0", "1") and M.strip(a_[1])[0] == "call" and M.strip(a_[1])[1] == src_call:
                            ks.add(int(a_[2]))
                        else:
                            ks.add(None)
                    return next(iter(ks)) if len(ks) == 1 else None
                okc = comp(fields["stdout"]) == 0 and comp(fields["stderr"]) == 1
            ctx.ob("R02.2", "%s:stdout<-.0,stderr<-.1" % path.split("::")[-2], okc, f.loc(bb, si), "CaptureData.stdout / .stderr must come from component 0 / 1 of the communicator's result")
    cs = prog.one("popen::Popen::communicate_start")
    Ts = M.Terms(cs)
    cc = cs.calls_to(lambda f: M.callee_str(f) == "communicate::communicate")
    ok = len(cc) == 1
    if ok:
        a = [Ts.operand(x) for x in cc[0][1]["args"]]
        want = ["stdin", "stdout", "stderr"]
        ok = all(a[k][0] == "call" and a[k][1] == "std::option::Option::<T>::take" and M.noref(a[k][2][0]) == ("field", ("param", 1, cs.local_name(1)), want[k]) for k in range(3)) and a[3] == ("param", 2, cs.local_name(2))
    ctx.ob("R02.2", "communicate_start:(stdin,stdout,stderr,input)", ok, cs.loc(0), "communicate_start hands (self.stdin, self.stdout, self.stderr, input_data) in that order")
    for path, callee in (("communicate::communicate", "communicate::Communicator::new"), ("communicate::Communicator::new", "communicate::raw::RawCommunicator::new")):
        f = prog.one(path)
        Tf = M.Terms(f)
        c = f.calls_to(lambda x: M.callee_str(x) == callee)
        ok = len(c) == 1 and [Tf.operand(x) for x in c[0][1]["args"]] == [("param", i, f.local_name(i)) for i in range(1, 5)]
        ctx.ob("R02.2", "%s->%s.in-order" % (path.split("::")[-1] if path != "communicate::communicate" else "communicate", callee.split("::")[-2]), ok, f.loc(0), "%s forwards its four arguments in order" % path)
    rn = prog.one("communicate::raw::RawCommunicator::new")
    Tn = M.Terms(rn)
    ag = aggregates_of(rn, "communicate::raw::RawCommunicator")
    ok = len(ag) == 1
    if ok:
        r = ag[0][2]
        v = {n: Tn.operand(o) for n, o in zip(r["fields"], r["ops"])}
        # input_data: the payload of the argument, or an empty vector when there is none
        idp = ("param", 4, rn.local_name(4))
        def input_ok(x):
            if M.strip(x, also=("std::option::Option::<T>::unwrap_or_default",)) == idp:
                return True
            alts_ = [M.noref(a_) for a_ in M.alts(x)]
            pay = [a_ for a_ in alts_ if a_ == ("field", ("downcast", idp, "Some"), "0")]
            empty = [a_ for a_ in alts_ if a_[0] == "call" and not a_[2] and a_[1] in ("std::vec::Vec::<T>::new", "<std::vec::Vec<T> as std::default::Default>::default")]
            return len(alts_) == 2 and len(pay) == 1 and len(empty) == 1
        ok = all(v[n] == ("param", i + 1, rn.local_name(i + 1)) for i, n in enumerate(("stdin", "stdout", "stderr"))) and const_of(v["input_pos"]) == 0 \
            and input_ok(v["input_data"])
    ctx.ob("R02.2", "RawCommunicator::new.field-wise", ok, rn.loc(0), "stdin/stdout/stderr/input_data stored in their own fields, cursor starts at 0")

    # ---- R02.3 input accounting --------------------------------------------------------------------
    selfp = E.selfp
    for bb, t in E.writes:
        ch = M.noref(T.operand(t["args"][1]))
        base, _bound = chunk_of(ch)
        ok = base is not None and base[0] == "call" and "index" in base[1].lower() and M.noref(base[2][0]) == ("field", selfp, "input_data") \
            and M.noref(base[2][1])[0] == "agg" and M.noref(base[2][1])[1][1] == "std::ops::RangeFrom" and M.noref(M.noref(base[2][1])[2][0]) == ("field", selfp, "input_pos")
        ctx.ob("R02.3", "chunk=input[input_pos..][..k]", ok, ri.loc(bb), "the chunk written must start at the cursor: %s" % M.term_str(ch)[:160])
        wcall = ("call", M.callee_str(t["f"]), tuple(T.operand(a) for a in t["args"]), bb)
        st = [(b, si, s) for (b, si, s) in stores_to_field(ri, "input_pos", "communicate::raw::RawCommunicator")]
        ok = len(st) == 1
        if ok:
            v = M.noref(T.rvalue(st[0][2]["r"]))
            v = v[1] if v[0] == "field" and v[2] == "0" else v
            ok = v[0] == "bin" and v[1] in ("Add", "AddWithOverflow") and {True} == {True} and (
                (v[2] == ("field", selfp, "input_pos") and M.noref(M.strip(v[3])) == M.noref(wcall)) or (v[3] == ("field", selfp, "input_pos") and M.noref(M.strip(v[2])) == M.noref(wcall)))
            ok = ok and dominated_by_edges(ri, st[0][0], try_ok_edges(ri, T, lambda c: c[3] == bb))
        ctx.ob("R02.3", "input_pos+=n", ok, ri.loc(st[0][0] if st else bb), "the cursor must advance by exactly what this write() accepted (a partial write must not lose or repeat bytes)")
        ok_e_ = try_ok_edges(ri, T, lambda c: c[3] == bb)
        st_b = [x_[0] for x_ in st]
        okp = bool(ok_e_) and bool(st_b) and all(dominated_by_blocks(ri, r_, st_b, start=ok_e_[0][1]) for r_ in ri.return_blocks() if r_ in ri.reachable(ok_e_[0][1]))
        ctx.ob("R02.3", "cursor-persisted-before-any-return", okp, ri.loc(bb), "what write() accepted is recorded in self.input_pos before any return (also the error returns), so a resumed read never sends a byte twice")
    # ---- R02.4 stdin closed when and only when done (shared with R01.4) ---------------------------------
    rel_, other_close = stdin_releases(ri, T, selfp)
    takes = [(bb, t) for bb, kind, t in rel_]
    def done_atom(c):
        """+1: the input is exhausted (cursor == / >= length, or the rest of the input is empty); -1: its negation"""
        pos = ("field", selfp, "input_pos")
        ln = lambda x: x[0] == "call" and x[1] == "std::vec::Vec::<T, A>::len" and M.noref(x[2][0]) == ("field", selfp, "input_data")
        if c[0] == "bin" and c[1] in ("Eq", "Ne", "Ge", "Lt"):
            a, b = M.noref(c[2]), M.noref(c[3])
            if a == pos and ln(b):
                return 1 if c[1] in ("Eq", "Ge") else -1
            if b == pos and ln(a) and c[1] in ("Eq", "Ne"):
                return 1 if c[1] == "Eq" else -1
        if c[0] == "call" and c[1] in ("core::slice::<impl [T]>::is_empty",) and c[2]:
            x = M.noref(c[2][0])
            if x[0] == "call" and "index" in x[1].lower() and M.noref(x[2][0]) == ("field", selfp, "input_data") and x[2][1][0] == "agg" and x[2][1][1][1] == "std::ops::RangeFrom" \
                    and M.noref(x[2][1][2][0]) == pos:
                return 1
        return 0
    done_e, _ = cond_edges(ri, T, done_atom)
    # only tests made after the cursor update of the same iteration count
    _st = stores_to_field(ri, "input_pos", "communicate::raw::RawCommunicator")
    done_e = [e_ for e_ in done_e if _st and dominated_by_blocks(ri, e_[0], [x_[0] for x_ in _st], start=E.mp_call[0] if E.mp_call else 0)]
    ctx.ob("R02.4", "stdin-closed-iff-done", len(takes) == 1 and not other_close and dominated_by_edges(ri, takes[0][0], done_e, start=E.mp_call[0] if E.mp_call else 0), ri.loc(takes[0][0] if takes else 0),
           "stdin is released only by the take() under `input_pos == input_data.len()` (releases: %d take, %d stores)" % (len(takes), len(other_close)))
    # the comparison must read the cursor *after* the update
    st = stores_to_field(ri, "input_pos", "communicate::raw::RawCommunicator")
    if st and done_e:
        ctx.ob("R02.4", "done-test-after-update", dominated_by_blocks(ri, done_e[0][0], [st[0][0]], start=E.mp_call[0] if E.mp_call else 0), ri.loc(done_e[0][0]), "the exhaustion test follows the cursor update of the same iteration")

    # ---- R02.5 text variants ---------------------------------------------------------------------------------
    rs = prog.one("communicate::Communicator::read_string")
    Tq = M.Terms(rs)
    for (bb, si, v, r) in result_variants(rs, M.Explore(rs)):
        if v != "Ok":
            continue
        tup = Tq.operand(r["ops"][0])
        ok = tup[0] == "agg" and tup[1] == "tuple" and len(tup[2]) == 2
        if ok:
            for k in (0, 1):
                c = tup[2][k]
                # Some(v) => Some(from_utf8_lossy(v)), None => None, over component k of read()
                is_comp = lambda x, k=k: M.noref(x)[0] == "field" and M.noref(x)[2] == str(k) and M.strip(M.noref(x)[1])[0] == "call" and M.strip(M.noref(x)[1])[1] == "communicate::Communicator::read"
                ob_ = option_body(prog, rs, Tq, c, is_comp)
                okc = ob_ is not None and ob_.none_ok and ob_.payload is not None and len(ob_.results) == 1
                if okc:
                    v_ = M.noref(ob_.results[0][1])
                    okc = v_[0] == "call" and v_[1] == "communicate::from_utf8_lossy" and M.noref(v_[2][0]) == M.noref(ob_.payload)
                ok = ok and okc
        ctx.ob("R02.5", "read_string=lossy(read()).componentwise", ok, rs.loc(bb, si), "read_string decodes component k of read() into component k")
    rd = rs.calls_to(lambda f: M.callee_str(f) == "communicate::Communicator::read")
    ctx.ob("R02.5", "read_string.one-read", len(rd) == 1, rs.loc(0), "read_string performs exactly one read()")
    fu = prog.one("communicate::from_utf8_lossy")
    Tu = M.Terms(fu)
    r0 = Tu.local(0)
    alts_ = M.alts(r0)
    v = ("param", 1, fu.local_name(1))
    okf = len(alts_) == 2 and any(a == ("field", ("downcast", ("call", "std::string::String::from_utf8", (v,), a[1][1][3] if a[0] == "field" else 0), "Ok"), "0") for a in alts_ if a[0] == "field") and \
        any(M.contains(a, lambda u: u[0] == "call" and u[1] == "std::string::String::from_utf8_lossy") and M.contains(a, lambda u: u[0] == "call" and u[1] == "std::string::FromUtf8Error::as_bytes") for a in alts_)
    ctx.ob("R02.5", "from_utf8_lossy", okf, fu.loc(0), "the helper returns the valid string or the lossy decoding of the same bytes")
    for meth, field in (("stdout_str", "stdout"), ("stderr_str", "stderr")):
        f = prog.one("builder::exec::CaptureData::" + meth)
        r0 = M.Terms(f).local(0)
        src = M.noref(M.strip(r0, also=("std::borrow::Cow::<'_, B>::into_owned", "std::string::String::from_utf8_lossy")))
        ctx.ob("R02.5", "%s<-self.%s" % (meth, field), src == ("field", ("param", 1, f.local_name(1)), field) and M.contains(r0, lambda u: u[0] == "call" and u[1] == "std::string::String::from_utf8_lossy"), f.loc(0), "%s decodes %s" % (meth, M.term_str(src)))
    # Popen::communicate[_bytes] = communicate_start(the whole input, converted to bytes).read[_string](), errors passed on as their io::Error
    for meth, reader, conv in (("popen::Popen::communicate", "communicate::Communicator::read_string", ("as_bytes", "to_vec")),
                               ("popen::Popen::communicate_bytes", "communicate::Communicator::read", ("to_vec",))):
        pc = prog.one(meth)
        Tp = M.Terms(pc)
        short = meth.split("::")[-1]
        rd_ = pc.calls_to(lambda f: M.callee_str(f) == reader)
        st_ = pc.calls_to(lambda f: M.callee_str(f) == "popen::Popen::communicate_start")
        ok = len(rd_) == 1 and len(st_) == 1
        okin = False
        names = []
        if ok:
            recv = Tp.operand(rd_[0][1]["args"][0])
            is_start = lambda u: u[0] == "call" and u[1] == "popen::Popen::communicate_start" and len(u) > 3 and u[3] == st_[0][0]
            ok = M.contains(recv, is_start)
            # the result: Ok payload unchanged, Err reduced to its .error
            is_read = lambda u: u[0] == "call" and u[1] == reader and len(u) > 3 and u[3] == rd_[0][0]
            for a_ in M.alts(Tp.local(0)):
                if a_[0] == "agg" and a_[1][:3] == ("adt", "std::result::Result", "Ok"):
                    v_ = M.noref(a_[2][0])
                    ok = ok and v_[0] == "field" and v_[2] == "0" and v_[1][0] == "downcast" and v_[1][2] == "Ok" and is_read(M.noref(v_[1][1]))
                elif a_[0] == "agg" and a_[1][:3] == ("adt", "std::result::Result", "Err"):
                    v_ = M.noref(a_[2][0])
                    ok = ok and v_[0] == "field" and v_[2] == "error" and M.noref(v_[1])[0] == "field" and M.noref(v_[1])[1][0] == "downcast" and M.noref(v_[1])[1][2] == "Err" \
                        and is_read(M.noref(M.noref(v_[1])[1][1]))
                elif is_read(M.noref(a_)):
                    ok = False      # the CommunicateError would have to be converted
                else:
                    ok = False
            ok = ok and len(M.alts(Tp.local(0))) == 2
            # the input: Some(x) => Some(bytes of x, whole), None => None
            inp = Tp.operand(st_[0][1]["args"][1])
            inparam = ("param", 2, pc.local_name(2))
            ob_ = option_body(prog, pc, Tp, inp, lambda x: M.noref(x) == inparam)
            if ob_ is not None and ob_.none_ok and len(ob_.results) == 1 and ob_.payload is not None:
                val = ob_.results[0][1]
                x_ = M.noref(val)
                while x_[0] == "call" and len(x_[2]) == 1:
                    names.append(x_[1])
                    x_ = M.noref(x_[2][0])
                okin = x_ == M.noref(ob_.payload) and len(names) == len(conv) and all(any(w in n for n in names) for w in conv)
        ctx.ob("R02.5", "Popen::%s=start.%s" % (short, reader.split("::")[-1]), ok, pc.loc(0),
               "Popen::%s = communicate_start(input).%s(): one start, one read on it, Ok passed on unchanged, Err reduced to its io::Error" % (short, reader.split("::")[-1]))
        ctx.ob("R02.5", "%s=whole-input" % short, okin, pc.loc(0), "the input is converted whole, Some to Some and None to None (conversion calls %s)" % [n.split("::")[-1] for n in names])


def run_thorough(ctx):
    # the cfg(windows) sibling implementation, analysed on the windows-msvc build
    import winrules
    winrules.c02_routing(ctx)
    import wincomm
    wincomm.c02_options(ctx)
