"""C19 — the printable command line is a faithful shell quoting of the command."""
import mirlib as M
from common import *

SPEC = {
    "explanation": (
        "The quoting algorithm's correctness conditions are finite facts extracted from the resolved MIR: (a) the set of "
        "characters nice_char accepts — enumerated completely from the switch literals and predicate calls on every "
        "path that returns true — is a subset of the characters inert to a POSIX shell; (b) the bare (unquoted) form "
        "is returned only under a non-emptiness test of the same string (all() over no characters is vacuously true); "
        "(c) the quoted form is the template ' <arg> ' around `s.replace(\"'\", R)` with R one of the two splices that "
        "leave and re-enter single quotes; (d) to_cmdline_lossy appends the escaped command, then for each argument "
        "in iteration order one space and the escaped argument; Pipeline's Debug joins the stages' command lines in "
        "order with \" | \"; Exec's Debug prints to_cmdline_lossy."
        " The quoted form is recognised as replace+format or as a single pass decided per character arm (' -> splice, everything else copied, quotes bracket the word); the 13 alphabetic shell reserved words are never emitted bare (R19.5, reported D13 on the pinned tree)."
        " Words that POSIX lets a shell reserve (function, select, namespace) and time/coproc are quoted as well."
    ),
    "not_decided": "the round trip through an actual sh for all Unicode strings (value level); the KEY=value environment prefix rendering.",
    "trusted_base": ["rustc MIR", "POSIX shell quoting rules (oracle table SAFE in the rule)", "str::replace, Iterator::all, slice::join (std)",
                     "decoding of the compiler's format_args template bytes"],
    "assumptions": [],
}

SAFE = set("abcdefghijklmnopqrstuvwxyzABCDEFGHIJKLMNOPQRSTUVWXYZ0123456789") | set("-_.,/:@%+")
SAFE_PREDS = {
    "std::char::methods::<impl char>::is_ascii_alphanumeric", "std::char::methods::<impl char>::is_ascii_alphabetic",
    "std::char::methods::<impl char>::is_ascii_digit", "std::char::methods::<impl char>::is_alphanumeric",
    "std::char::methods::<impl char>::is_ascii_lowercase", "std::char::methods::<impl char>::is_ascii_uppercase",
    "std::char::methods::<impl char>::is_ascii_hexdigit",
}
SPLICES = ("'\\''", "'\"'\"'")


def decode_fmt(b):
    """format_args template of this compiler: <n><n bytes literal> | 0xC0 <argument> ... 0x00"""
    out = []
    i = 0
    while i < len(b):
        c = b[i]
        if c == 0:
            break
        if c < 0x80:
            out.append(("lit", bytes(b[i + 1:i + 1 + c]).decode("utf-8", "replace")))
            i += 1 + c
        elif c == 0xC0:
            out.append(("arg",))
            i += 1
        else:
            out.append(("?", c))
            i += 1
    return out


def accepted(fn):
    """enumerate the paths of a `fn(char) -> bool` that return true, path-sensitively (boolean temporaries
    assigned constants along the path are propagated, so `matches!(c, ..) || pred(c)` is followed exactly):
    set of literal code points, set of predicate names taken on their true edge, and the paths that
    return true without any test of the character"""
    T = M.Terms(fn)
    lits, preds, unconditioned = set(), set(), []
    c = ("param", 1, fn.local_name(1))
    budget = [20000]

    def walk(bb, cons, env, depth):
        budget[0] -= 1
        if budget[0] < 0 or depth > 200:
            unconditioned.append([("path explosion",)])
            return
        b = fn.blocks[bb]
        env = dict(env)
        for s in b["stmts"]:
            if s["k"] == "assign" and not s["p"]["proj"]:
                l = s["p"]["l"]
                r = s["r"]
                v = None
                if r["k"] == "use" and r["op"]["k"] == "const" and "int" in r["op"]:
                    v = r["op"]["int"]
                elif r["k"] == "use" and r["op"]["k"] in ("copy", "move") and not r["op"]["p"]["proj"]:
                    v = env.get(r["op"]["p"]["l"])
                env[l] = v
        t = b["term"]
        if t["k"] == "return":
            if env.get(0) == 1 or (env.get(0) is None and True):
                if env.get(0) is None:
                    # the returned value is not a propagated constant on this path: e.g. `_0 = pred(c)`
                    d = T.local(0)
                    tail = [a for a in M.alts(d) if a[0] == "call" and a[2] and M.noref(a[2][0]) == c]
                    if tail:
                        preds.update(a[1] for a in tail)
                    else:
                        unconditioned.append(cons + [("unknown return value", M.term_str(d)[:60])])
                    return
                specific = [x[1] for x in cons if x[0] == "lit"]
                ptrue = [x[1] for x in cons if x[0] == "pred"]
                if specific:
                    lits.update(specific[-1:])
                elif ptrue:
                    preds.update(ptrue)
                else:
                    unconditioned.append(cons)
            return
        if t["k"] == "call":
            if t["t"] is None:
                return
            if not t["dest"]["proj"]:
                env[t["dest"]["l"]] = None
            walk(t["t"], cons, env, depth + 1)
            return
        if t["k"] == "switch":
            d = t["d"]
            # a propagated constant decides the branch
            if d["k"] in ("copy", "move") and not d["p"]["proj"] and env.get(d["p"]["l"]) is not None:
                walk(M.switch_target(t, env[d["p"]["l"]]), cons, env, depth + 1)
                return
            sw = M.switch_term(fn, T, bb)
            if M.noref(sw) == c:
                for v, tb in t["targets"]:
                    walk(tb, cons + [("lit", v)], env, depth + 1)
                walk(t["otherwise"], cons + [("other",)], env, depth + 1)
                return
            if sw[0] == "call" and sw[2] and M.noref(sw[2][0]) == c:
                walk(M.switch_target(t, 1), cons + [("pred", sw[1])], env, depth + 1)
                walk(M.switch_target(t, 0), cons + [("npred", sw[1])], env, depth + 1)
                return
            if sw[0] == "bin" and sw[1] == "Eq" and M.noref(sw[2]) == c and const_of(sw[3]) is not None:
                walk(M.switch_target(t, 1), cons + [("lit", const_of(sw[3]))], env, depth + 1)
                walk(M.switch_target(t, 0), cons + [("other",)], env, depth + 1)
                return
            for s2 in fn.succs(bb):
                walk(s2, cons + [("unknown-branch", M.term_str(sw)[:40])], env, depth + 1)
            return
        for s2 in fn.succs(bb):
            walk(s2, cons, env, depth + 1)
    walk(0, [], {}, 0)
    # an "unknown-branch" on a path that returns true makes the accepted set unknowable: report it
    return lits, preds, unconditioned


def quoted_replace_format(ctx, prog, de, T, s_param, rp):
    """the quoted form as  format!("'{}'", s.replace("'", SPLICE))"""
    ok = len(rp) == 1
    detail = "expected one str::replace"
    if ok:
        a = [M.noref(T.operand(x)) for x in rp[0][1]["args"]]
        pat = a[1][1] if a[1][0] == "const" else None
        rep = a[2][1] if a[2][0] == "const" else None
        ok = a[0] == s_param and pat == "'" and rep in SPLICES
        detail = "replace(%r, %r) on %s (pattern must be \"'\", replacement one of %s)" % (pat, rep, M.term_str(a[0]), list(SPLICES))
    ctx.ob("R19.3", "embedded-quote-splice", ok, de.loc(rp[0][0] if rp else 0), detail)
    fa = de.calls_to(lambda f: M.callee_str(f) == "std::fmt::Arguments::<'a>::new")
    ok = len(fa) == 1
    detail = "expected one format_args"
    if ok:
        a = [M.noref(T.operand(x)) for x in fa[0][1]["args"]]
        tmpl = decode_fmt(a[0][1]) if a[0][0] == "const" and isinstance(a[0][1], bytes) else None
        argok = M.contains(a[1], lambda u: u[0] == "call" and u[1] == "std::str::<impl str>::replace")
        ok = tmpl == [("lit", "'"), ("arg",), ("lit", "'")] and argok
        detail = "format template %s around the replaced string: %s (must be ' {} ')" % (tmpl, argok)
    ctx.ob("R19.3", "quoted='...'", ok, de.loc(fa[0][0] if fa else 0), detail)
    owned = [(bb, si) for bb in de.live_blocks() for si, s in enumerate(de.blocks[bb]["stmts"]) if s["k"] == "assign" and s["p"]["l"] == 0 and s["r"]["k"] == "agg" and s["r"].get("variant") == "Owned"]
    for bb, si in owned:
        pay = T.operand(de.blocks[bb]["stmts"][si]["r"]["ops"][0])
        ctx.ob("R19.3", "owned=formatted", M.contains(pay, lambda u: u[0] == "call" and u[1] == "std::fmt::format"), de.loc(bb, si), "the quoted branch returns the formatted string")


def quoted_single_pass(ctx, prog, de, T, s_param, chars_next):
    """the quoted form built character by character: push('\''), then per character of s either the splice (for ') or the character
    itself, then push('\'').  Inside single quotes sh takes every character literally except ' — so any other rewriting arm is wrong."""
    loops = M.sccs(de)
    loop = next((l for l in loops if any(bb in l for bb, _ in chars_next)), set())
    drv = [(bb, t) for bb, t in chars_next if bb in loop]
    ok = len(drv) == 1
    src_ok = False
    if ok:
        it = M.noref(T.operand(drv[0][1]["args"][0]))
        src_ok = M.contains(it, lambda u: u[0] == "call" and u[1] == "core::str::<impl str>::chars" and M.noref(u[2][0]) == s_param) and not M.contains(
            it, lambda u: u[0] == "call" and u[1].split("::")[-1] in ("rev", "skip", "take", "filter", "step_by", "skip_while", "take_while"))
    ctx.ob("R19.3", "single-pass.over-all-chars-in-order", ok and src_ok, de.loc(drv[0][0] if drv else 0), "the quoted form visits s.chars() once, in order, with no skipping adaptor")
    if not ok:
        return
    item = ("field", ("downcast", ("call", M.callee_str(drv[0][1]["f"]), tuple(T.operand(a) for a in drv[0][1]["args"]), drv[0][0]), "Some"), "0")
    is_c = lambda t: t == item or M.noref(t) == M.noref(item)
    # the buffer: the String that receives the pushes inside the loop
    pushes = [(bb, t) for bb, t in de.calls() if M.callee_str(t["f"]) in ("std::string::String::push", "std::string::String::push_str")]
    bufs = {T.addr(t["args"][0]) for bb, t in pushes}
    ctx.ob("R19.3", "single-pass.one-buffer", len(bufs) == 1 and None not in bufs, de.loc(pushes[0][0] if pushes else 0), "all pieces go into one String (buffers %s)" % len(bufs))
    # arms: the switch on the character
    arms = {}   # literal (or None for the default) -> target block
    for bb in sorted(loop):
        t = de.blocks[bb]["term"]
        if t["k"] == "switch" and is_c(M.switch_term(de, T, bb)):
            for v, tgt in t["targets"]:
                arms[v] = tgt
            arms[None] = t["otherwise"]
    # comparisons `c == K` (if-chains) are handled as arms as well
    for k_ in range(0x80):
        for (bsrc, tgt) in bool_edges(de, T, (lambda k: lambda c: c[0] == "bin" and c[1] == "Eq" and is_c(c[2]) and const_of(c[3]) == k)(k_), True):
            arms.setdefault(k_, tgt)
    def emitted(start):
        """what one arm appends: list of ('lit', str) / ('char',) up to the loop driver"""
        out = []
        for bb in sorted(de.reachable(start, stop_blocks=[drv[0][0]]) & loop):
            t = de.blocks[bb]["term"]
            if t["k"] != "call":
                continue
            nm = M.callee_str(t["f"])
            if nm == "std::string::String::push_str":
                v = M.noref(T.operand(t["args"][1]))
                out.append(("lit", v[1] if v[0] == "const" and isinstance(v[1], str) else None))
            elif nm == "std::string::String::push":
                v = T.operand(t["args"][1])
                k = const_of(v)
                out.append(("lit", chr(k)) if k is not None else (("char",) if is_c(v) else ("?", M.term_str(v))))
        return out
    ctx.ob("R19.3", "single-pass.quote-arm", 0x27 in arms and emitted(arms[0x27]) in [[("lit", x)] for x in SPLICES], de.loc(arms.get(0x27, drv[0][0])),
           "a ' inside the word is emitted as one of %s (found %s)" % (list(SPLICES), emitted(arms[0x27]) if 0x27 in arms else "no arm for U+0027"))
    dflt = arms.get(None)
    ctx.ob("R19.3", "single-pass.default-arm-copies", dflt is not None and emitted(dflt) == [("char",)], de.loc(dflt if dflt is not None else drv[0][0]),
           "every other character is copied unchanged (found %s)" % (emitted(dflt) if dflt is not None else None))
    for k_, tgt in sorted((k, v) for k, v in arms.items() if k not in (None, 0x27)):
        em = emitted(tgt)
        ctx.ob("R19.3", "single-pass.arm:U+%04X" % k_, em in ([("char",)], [("lit", chr(k_))]), de.loc(tgt),
               "inside single quotes sh takes U+%04X literally: it must be copied unchanged, but this arm emits %s — the word read back by sh differs" % (k_, em))
    # opening and closing quote bracket the loop on every path to the Owned return
    qp = [(bb, t) for bb, t in pushes if M.callee_str(t["f"]) == "std::string::String::push" and const_of(T.operand(t["args"][1])) == 0x27 and bb not in loop]
    owned = [bb for bb in de.live_blocks() for s_ in de.blocks[bb]["stmts"] if s_["k"] == "assign" and s_["p"]["l"] == 0 and s_["r"]["k"] == "agg" and s_["r"].get("variant") == "Owned"]
    okq = len(qp) == 2 and bool(owned)
    if okq:
        first, last = sorted(qp, key=lambda x: x[0])
        if first[0] in de.reachable(last[0]):
            first, last = last, first
        okq = dominated_by_blocks(de, min(loop), [first[0]]) and last[0] in de.reachable(min(loop)) and all(dominated_by_blocks(de, o, [last[0]]) for o in owned)
        okq = okq and all(M.contains(T.operand(s_["r"]["ops"][0]), lambda u: True) for o in owned for s_ in de.blocks[o]["stmts"] if s_["k"] == "assign" and s_["p"]["l"] == 0 and s_["r"]["k"] == "agg")
    ctx.ob("R19.3", "single-pass.quotes-bracket-the-word", okq, de.loc(qp[0][0] if qp else 0), "one ' is pushed before the loop and one after it on every path to Cow::Owned (quote pushes outside the loop: %d)" % len(qp))


def run(ctx):
    prog = ctx.prog
    nc = prog.one("display_escape::nice_char")
    de = prog.one("builder::exec::Exec::display_escape")
    T = M.Terms(de)
    s_param = ("param", 1, de.local_name(1))

    # ---- R19.1 accepted characters --------------------------------------------------
    lits, preds, unc = accepted(nc)
    ctx.floor("R19.1", "literal characters accepted bare", len(lits), 1)
    for v in sorted(lits):
        ch = chr(v)
        ctx.ob("R19.1", "bare-char:U+%04X" % v, ch in SAFE, nc.loc(0), "character %r is emitted unquoted; it must be inert to a POSIX shell (safe set: alphanumerics and - _ . , / : @ %% +)" % ch)
    for pn in sorted(preds):
        ctx.ob("R19.1", "bare-class:%s" % pn.split("::")[-1], pn in SAFE_PREDS, nc.loc(0), "characters satisfying %s are emitted unquoted; the class must not contain a shell metacharacter" % pn)
    ctx.ob("R19.1", "no-unconditional-accept", not unc, nc.loc(0), "nice_char has a path returning true without testing the character: %s" % unc[:2])
    ctx.exhaustive = True
    al = de.calls_to(lambda f: M.callee_str(f) == "std::iter::Iterator::all")
    ok = len(al) == 1
    if ok:
        a = [T.operand(x) for x in al[0][1]["args"]]
        ok = a[1] == ("fnitem", nc.path) and M.noref(a[0]) == ("call", "core::str::<impl str>::chars", (s_param,), a[0][1][3] if a[0][0] == "ref" else 0) or \
            (a[1] == ("fnitem", nc.path) and M.noref(a[0])[0] == "call" and M.noref(a[0])[1] == "core::str::<impl str>::chars" and M.noref(a[0])[2] == (s_param,))
    ctx.ob("R19.1", "all(nice_char)-over-s", ok, de.loc(al[0][0] if al else 0), "the bare/quoted decision must be s.chars().all(nice_char)")

    # ---- R19.2 the empty word is quoted ------------------------------------------------
    bare = [(bb, si) for bb in de.live_blocks() for si, s in enumerate(de.blocks[bb]["stmts"])
            if s["k"] == "assign" and s["p"]["l"] == 0 and s["r"]["k"] == "agg" and s["r"].get("variant") == "Borrowed"]
    ctx.floor("R19.2", "bare returns", len(bare), 1)

    def nonempty_edges():
        e = bool_edges(de, T, lambda c: c[0] == "call" and c[1] in ("core::str::<impl str>::is_empty",) and M.noref(c[2][0]) == s_param, False)
        e += bool_edges(de, T, lambda c: c[0] == "bin" and c[1] == "Ne" and const_of(c[3]) == 0 and M.noref(c[2])[0] == "call" and M.noref(c[2])[1] == "core::str::<impl str>::len" and M.noref(c[2])[2] == (s_param,), True)
        e += bool_edges(de, T, lambda c: c[0] == "bin" and c[1] == "Eq" and const_of(c[3]) == 0 and M.noref(c[2])[0] == "call" and M.noref(c[2])[1] == "core::str::<impl str>::len" and M.noref(c[2])[2] == (s_param,), False)
        e += bool_edges(de, T, lambda c: c[0] == "bin" and c[1] == "Gt" and const_of(c[3]) == 0 and M.noref(c[2])[0] == "call" and M.noref(c[2])[1] == "core::str::<impl str>::len", True)
        return e
    ne = nonempty_edges()
    all_e = bool_edges(de, T, lambda c: c[0] == "call" and c[1] == "std::iter::Iterator::all", True)
    empty_e = bool_edges(de, T, lambda c: c[0] == "call" and c[1] in ("core::str::<impl str>::is_empty",) and M.noref(c[2][0]) == s_param, True)
    def unreachable_under(pred, value, blocks):
        """none of `blocks` can be reached when the (call) term recognised by pred has the given value -- decided by evaluating the
        function's own tests, so it does not matter whether the decision is one condition, a named bool, or an early return"""
        E = M.Explore(de, assume_fn=lambda t: value if (t and pred(M.noref(t))) else None)
        return not (set(blocks) & E.blocks)
    is_empty_call = lambda c: c[0] == "call" and c[1] in ("core::str::<impl str>::is_empty",) and M.noref(c[2][0]) == s_param
    is_len_call = lambda c: c[0] == "call" and c[1] == "core::str::<impl str>::len" and M.noref(c[2][0]) == s_param
    is_all_call = lambda c: c[0] == "call" and c[1] == "std::iter::Iterator::all"
    for bb, si in list(bare):
        pay = T.operand(de.blocks[bb]["stmts"][si]["r"]["ops"][0])
        lit = M.noref(pay)
        if lit[0] == "const" and isinstance(lit[1], str):
            # a constant word: only the quoted empty word, and only for the empty input
            ctx.ob("R19.2", "constant-word-only-for-empty", lit[1] in ("''", '""') and bool(empty_e) and dominated_by_edges(de, bb, empty_e), de.loc(bb, si),
                   "a constant rendering %r may be returned only for the empty word, as '' or \"\"" % lit[1])
            bare.remove((bb, si))
            continue
        # (one way of asking suffices: the word is empty iff is_empty() iff len() == 0)
        has = lambda nm: bool(de.calls_to(lambda f: M.callee_str(f) == nm))
        ne_ok = dominated_by_edges(de, bb, ne) or (has("core::str::<impl str>::is_empty") and unreachable_under(is_empty_call, 1, [bb])) \
            or (has("core::str::<impl str>::len") and unreachable_under(is_len_call, 0, [bb]))
        ctx.ob("R19.2", "bare-only-if-nonempty", ne_ok, de.loc(bb, si),
               "the unquoted form must be used only for a non-empty word: all() over no characters is vacuously true, so \"\" is rendered as nothing and the argument disappears when the line is read by sh")
        ctx.ob("R19.2", "bare-only-if-all-nice", (dominated_by_edges(de, bb, all_e) or (len(al) == 1 and unreachable_under(is_all_call, 0, [bb]))) and M.noref(pay) == s_param, de.loc(bb, si), "the unquoted form is the string itself, under all(nice_char)")

    # ---- R19.5 shell reserved words are never emitted bare ---------------------------------------------------------
    # a word made of safe characters only can still be syntax: in command position sh parses `if`, `for`, `done` ... as
    # reserved words, not as the name of a program (POSIX XCU 2.4; `!`, `{`, `}` contain unsafe characters and are quoted anyway)
    RESERVED = ["case", "do", "done", "elif", "else", "esac", "fi", "for", "if", "in", "then", "until", "while"]
    # POSIX XCU 2.4 also names words that "may be recognized as reserved words on some implementations" — function, select, namespace
    # ([[ and ]] contain unsafe characters) — with unspecified results if used bare; `time` and `coproc` are reserved in bash/ksh/zsh, the
    # shells most often installed as sh.  A faithful POSIX quoting does not rely on their being ordinary words.
    MAYBE_RESERVED = ["function", "select", "namespace", "time", "coproc"]
    STR_EQ = ("core::str::traits::<impl std::cmp::PartialEq for str>::eq", "<str as std::cmp::PartialEq>::eq")

    def eq_words(fn_, T_, subj):
        """(block, word, true-edge target) of every `subj == "word"` test in fn_"""
        out = []
        for bb_, t_ in fn_.calls():
            if M.callee_str(t_["f"]) in STR_EQ or (M.callee_str(t_["f"]).endswith("PartialEq>::eq") and len(t_["args"]) == 2):
                a_ = [M.noref(T_.operand(x)) for x in t_["args"]]
                w_ = next((x[1] for x in a_ if x[0] == "const" and isinstance(x[1], str)), None)
                if w_ is not None and any(M.noref(M.strip(x)) == subj for x in a_):
                    for (b2, tgt) in bool_edges(fn_, T_, lambda c, bb_=bb_: c[0] == "call" and len(c) > 3 and c[3] == bb_, True):
                        out.append((bb_, w_, tgt))
        return out

    def words_from_tables(g, Tg):
        """the words of `TABLE.iter()[.chain(OTHER.iter())].any(|&w| w == s)` / `TABLE.contains(&s)` with constant tables, when that is
        what the predicate returns"""
        gp = ("param", 1, g.local_name(1))
        acc = set()
        for a_ in M.alts(Tg.local(0)):
            a_ = M.noref(a_)
            if a_[0] != "call":
                return None
            tabs = []
            M.contains(a_[2][0], lambda u: tabs.append(u[2]) or False if (u[0] == "const" and len(u) > 2 and isinstance(prog.consts.get(u[2]), list)) else False)
            src_ok = not M.contains(a_[2][0], lambda u: u[0] == "call" and u[1].split("::")[-1] not in ("iter", "into_iter", "chain", "copied", "cloned", "deref"))
            if a_[1].endswith("Iterator>::any") or a_[1] == "std::iter::Iterator::any":
                cl = a_[2][1]
                if not (cl[0] == "agg" and cl[1][0] == "closure" and cl[1][1] in prog.fns and len(cl[2]) == 1 and M.noref(M.strip(cl[2][0])) == gp):
                    return None
                cf = prog.fns[cl[1][1]]
                Tc_ = M.Terms(cf)
                cs_ = [(M.callee_str(t_["f"]), [M.noref(M.strip(Tc_.operand(x))) for x in t_["args"]]) for _, t_ in cf.calls()]
                if len(cs_) != 1 or not cs_[0][0].endswith("::eq") or len(cs_[0][1]) != 2:
                    return None
                x_, y_ = cs_[0][1]
                item_, cap_ = ("param", 2, cf.local_name(2)), ("field", ("param", 1, cf.local_name(1)), "0")
                is_item = lambda z: z == item_ or M.contains(z, lambda u: u == item_)
                is_cap = lambda z: M.contains(z, lambda u: u == cap_ or (u[0] == "field" and u[1] == ("param", 1, cf.local_name(1))))
                if not ((is_item(x_) and is_cap(y_)) or (is_item(y_) and is_cap(x_))) or M.noref(Tc_.local(0))[0] != "call":
                    return None
            elif a_[1].endswith("<impl [T]>::contains"):
                if M.noref(M.strip(a_[2][1])) != gp:
                    return None
            else:
                return None
            if not tabs or not src_ok:
                return None
            for t_ in tabs:
                vals = prog.consts.get(t_)
                if not all(isinstance(v_, str) for v_ in vals):
                    return None
                acc |= set(vals)
        return acc

    def words_accepted_by(g):
        Tg = M.Terms(g)
        tw = words_from_tables(g, Tg)
        if tw is not None:
            return tw
        acc = set()
        for bb_, w_, tgt in eq_words(g, Tg, ("param", 1, g.local_name(1))):
            ex_ = M.Explore(g, start=tgt)
            vals = [s_["r"]["op"].get("int") for b_ in ex_.blocks for s_ in g.blocks[b_]["stmts"]
                    if s_["k"] == "assign" and s_["p"]["l"] == 0 and not s_["p"]["proj"] and s_["r"]["k"] == "use" and s_["r"]["op"]["k"] == "const"]
            if vals and all(v == 1 for v in vals):
                acc.add(w_)
        return acc
    bare_blocks = {bb for bb, si in bare}
    forced = set()
    for bb_, w_, tgt in eq_words(de, T, s_param):
        if not (de.reachable(tgt) & bare_blocks) or unreachable_under(lambda c, bb_=bb_: c[0] == "call" and len(c) > 3 and c[3] == bb_, 1, bare_blocks):
            forced.add(w_)
    for bb_, t_ in de.calls():
        nm_ = M.callee_str(t_["f"])
        g_ = prog.fns.get(nm_)
        if g_ is not None and g_.j.get("output") == "bool" and len(t_["args"]) == 1 and M.noref(M.strip(T.operand(t_["args"][0]))) == s_param:
            t_e = bool_edges(de, T, lambda c, bb_=bb_: c[0] == "call" and len(c) > 3 and c[3] == bb_, True)
            if (t_e and all(not (de.reachable(e_[1]) & bare_blocks) for e_ in t_e)) or \
                    unreachable_under(lambda c, bb_=bb_: c[0] == "call" and len(c) > 3 and c[3] == bb_, 1, bare_blocks):
                forced |= words_accepted_by(g_)
    missing2 = [w for w in MAYBE_RESERVED if w not in forced]
    missing = [w for w in RESERVED if w not in forced]
    ctx.ob("R19.5", "reserved-words-quoted", not missing, de.loc(bare[0][0] if bare else 0),
           "a word that is a shell reserved word must take the quoted form: %s are emitted bare, so `Exec::cmd(\"%s\")` prints a line that sh parses as "
           "syntax instead of running that program (words forced to the quoted form: %s)" % (missing, missing[0] if missing else "", sorted(forced)))

    ctx.ob("R19.5", "implementation-reserved-words-quoted", not missing2, de.loc(bare[0][0] if bare else 0),
           "words that POSIX allows a shell to treat as reserved (function, select, namespace) and the bash/ksh/zsh reserved words time and coproc must take the "
           "quoted form as well: %s are emitted bare, and with such a shell as sh the printed line runs something else or is a syntax error" % missing2)

    # ---- R19.3 the quoted form -------------------------------------------------------------
    rp = de.calls_to(lambda f: M.callee_str(f) == "std::str::<impl str>::replace")
    chars_next = [(bb, t) for bb, t in de.calls() if M.callee_str(t["f"]) == "<std::str::Chars<'a> as std::iter::Iterator>::next"]
    if not rp and chars_next:
        quoted_single_pass(ctx, prog, de, T, s_param, chars_next)
    else:
        quoted_replace_format(ctx, prog, de, T, s_param, rp)

    # ---- R19.4 words and stages in order --------------------------------------------------------
    tc = prog.one("builder::exec::Exec::to_cmdline_lossy")
    Tt = M.Terms(tc)
    selfp = ("param", 1, tc.local_name(1))
    loops = M.sccs(tc)
    out_slot = None
    esc = lambda t, src: (M.contains(t, lambda u: u[0] == "call" and u[1] == de.path) and M.contains(t, lambda u: u[0] == "call" and u[1] == "std::ffi::OsStr::to_string_lossy" and src(M.noref(u[2][0]))))
    # command
    cmd_push = [(bb, t) for bb, t in tc.calls() if M.callee_str(t["f"]) == "std::string::String::push_str" and esc(Tt.operand(t["args"][1]), lambda x: M.strip(x) == ("field", selfp, "command"))]
    # the same written with adaptors: once(&self.command).chain(&self.args).map(|w| escape(w)).collect::<Vec<_>>().join(" "), pushed once
    def words_joined():
        for bb_, t_ in tc.calls():
            if M.callee_str(t_["f"]) != "std::string::String::push_str" or any(bb_ in l_ for l_ in loops):
                continue
            j_ = M.noref(M.strip(Tt.operand(t_["args"][1]), also=("<std::string::String as std::ops::Deref>::deref",)))
            if not (j_[0] == "call" and j_[1].endswith("<impl [T]>::join") and M.noref(j_[2][1])[0] == "const" and M.noref(j_[2][1])[1] == " "):
                continue
            v_ = M.noref(M.strip(j_[2][0], also=("<std::vec::Vec<T, A> as std::ops::Deref>::deref", "<std::vec::Vec<T> as std::ops::Deref>::deref")))
            if not (v_[0] == "call" and v_[1] == "std::iter::Iterator::collect"):
                continue
            m_ = M.noref(v_[2][0])
            if not (m_[0] == "call" and m_[1] == "std::iter::Iterator::map" and len(m_[2]) == 2):
                continue
            c_ = M.noref(m_[2][0])
            if not (c_[0] == "call" and c_[1] == "std::iter::Iterator::chain" and len(c_[2]) == 2):
                continue
            first_, rest_ = M.noref(c_[2][0]), M.noref(c_[2][1])
            ok_first = first_[0] == "call" and first_[1] == "std::iter::once" and M.noref(M.strip(first_[2][0])) == ("field", selfp, "command")
            while rest_[0] == "call" and (rest_[1].endswith("into_iter") or rest_[1].endswith("::iter")) and rest_[2]:
                rest_ = M.noref(rest_[2][0])
            ok_rest = M.noref(M.strip(rest_)) == ("field", selfp, "args")
            f_ = M.noref(m_[2][1])
            ok_f = False
            if f_[0] == "agg" and f_[1][0] == "closure" and f_[1][1] in prog.fns:
                cf_ = prog.fns[f_[1][1]]
                r_ = M.Terms(cf_).local(0)
                ok_f = M.contains(r_, lambda u: u[0] == "call" and u[1] == de.path) and \
                    M.contains(r_, lambda u: u[0] == "call" and u[1] == "std::ffi::OsStr::to_string_lossy" and M.noref(M.strip(u[2][0])) == ("param", 2, cf_.local_name(2)))
            if ok_first and ok_rest and ok_f:
                return (bb_, t_)
        return None
    wj = words_joined() if not cmd_push else None
    if wj is not None:
        for k_ in ("command-escaped-first", "args-loop", "command-before-args", "each-arg=' '+escaped(arg)"):
            ctx.ob("R19.4", k_, True, tc.loc(wj[0]), "command and arguments are escaped word by word, in order (once(command).chain(args)), and joined with single spaces")
        cmd_push = [wj]
    else:
        ctx.ob("R19.4", "command-escaped-first", len(cmd_push) == 1 and not any(cmd_push[0][0] in l for l in loops), tc.loc(cmd_push[0][0] if cmd_push else 0), "the escaped command is appended once, outside any loop")
    if cmd_push:
        out_slot = Tt.addr(cmd_push[0][1]["args"][0])
    # args loop
    arg_loop = None
    for l in loops:
        for bb, t in tc.calls(l):
            if M.callee_str(t["f"]).endswith("as std::iter::Iterator>::next"):
                it = M.noref(Tt.operand(t["args"][0]))
                if it[0] == "call" and it[1].endswith("into_iter") and M.noref(it[2][0]) == ("field", selfp, "args"):
                    arg_loop = (l, bb, t)
    if wj is None:
        ctx.ob("R19.4", "args-loop", arg_loop is not None, tc.loc(0), "one loop iterating &self.args directly (no reordering adaptor)")
    if arg_loop and cmd_push and wj is None:
        l, nbb, nt = arg_loop
        item = ("call", M.callee_str(nt["f"]), tuple(Tt.operand(a) for a in nt["args"]), nbb)
        ctx.ob("R19.4", "command-before-args", dominated_by_blocks(tc, nbb, [cmd_push[0][0]]), tc.loc(nbb), "the command is appended before the arguments")
        sp = [(bb, t) for bb, t in tc.calls(l) if M.callee_str(t["f"]) == "std::string::String::push" and const_of(Tt.operand(t["args"][1])) == 0x20 and Tt.addr(t["args"][0]) == out_slot]
        ps = [(bb, t) for bb, t in tc.calls(l) if M.callee_str(t["f"]) == "std::string::String::push_str" and Tt.addr(t["args"][0]) == out_slot]
        ok = len(sp) == 1 and len(ps) == 1
        if ok:
            want_item = M.noref(("field", ("downcast", item, "Some"), "0"))
            ok = esc(Tt.operand(ps[0][1]["args"][1]), lambda x: M.noref(M.strip(x)) in (want_item, M.noref(item))) and ps[0][0] in tc.reachable(sp[0][0], stop_blocks=[nbb]) and sp[0][0] not in tc.reachable(ps[0][0], stop_blocks=[nbb])
            others = [M.callee_str(t["f"]) for bb, t in tc.calls(l) if M.callee_str(t["f"]).startswith("std::string::String::") and (bb, t) not in sp + ps]
            ok = ok and not others
        ctx.ob("R19.4", "each-arg=' '+escaped(arg)", ok, tc.loc(nbb), "per argument: exactly one space, then the escaped argument (the loop item), nothing else")
        # the String returned is the one appended to
        ctx.ob("R19.4", "returns-out", out_slot is not None and Tt.origin_local({"k": "move", "p": {"l": 0, "proj": []}}) is not None and out_slot[1][0] == "local" and any(
            s["k"] == "assign" and s["p"]["l"] == 0 and s["r"]["k"] == "use" and Tt.origin_local(s["r"]["op"]) == out_slot[1][1] for bb in tc.live_blocks() for s in tc.blocks[bb]["stmts"]), tc.loc(0), "to_cmdline_lossy returns the string it built")
    pdg = prog.one("<builder::pipeline::Pipeline as std::fmt::Debug>::fmt")
    Tp = M.Terms(pdg)
    jn = pdg.calls_to(lambda f: M.callee_str(f) == "std::slice::<impl [T]>::join")
    ok = len(jn) == 1
    if ok:
        a = [M.noref(Tp.operand(x)) for x in jn[0][1]["args"]]
        ok = a[1][0] == "const" and a[1][1] == " | "
        lp = M.sccs(pdg)
        okl = len(lp) == 1
        if not lp:
            # adaptor form: self.cmds.iter().map(to_cmdline_lossy).collect::<Vec<_>>() -- map and collect keep the order
            v = M.noref(M.strip(a[0], also=("<std::vec::Vec<T> as std::ops::Deref>::deref", "<std::vec::Vec<T, A> as std::ops::Deref>::deref", "std::vec::Vec::<T, A>::as_slice")))
            okl = v[0] == "call" and v[1] == "std::iter::Iterator::collect" and len(v[2]) == 1
            if okl:
                m_ = M.noref(v[2][0])
                okl = m_[0] == "call" and m_[1] == "std::iter::Iterator::map" and len(m_[2]) == 2
                if okl:
                    src_, f__ = M.noref(m_[2][0]), M.noref(m_[2][1])
                    okl = src_[0] == "call" and (src_[1].endswith("into_iter") or src_[1].endswith("::iter")) and M.noref(M.strip(src_[2][0], also=("<std::vec::Vec<T, A> as std::ops::Deref>::deref",))) == ("field", ("param", 1, pdg.local_name(1)), "cmds")
                    if f__ == ("fnitem", tc.path):
                        pass
                    elif f__[0] == "agg" and f__[1][0] == "closure" and f__[1][1] in prog.fns:
                        cf_ = prog.fns[f__[1][1]]
                        cc_ = [(M.callee_str(t_["f"]), M.noref(M.Terms(cf_).operand(t_["args"][0]))) for _, t_ in cf_.calls()]
                        okl = okl and cc_ == [(tc.path, ("param", 2, cf_.local_name(2)))]
                    else:
                        okl = False
        if okl and lp:
            nx = [(bb, t) for bb, t in pdg.calls(lp[0]) if M.callee_str(t["f"]).endswith("as std::iter::Iterator>::next")]
            pu = [(bb, t) for bb, t in pdg.calls(lp[0]) if M.callee_str(t["f"]) == "std::vec::Vec::<T, A>::push"]
            okl = len(nx) == 1 and len(pu) == 1
            if okl:
                it = M.noref(Tp.operand(nx[0][1]["args"][0]))
                okl = it[0] == "call" and it[1].endswith("into_iter") and it[2][0] == ("field", ("param", 1, pdg.local_name(1)), "cmds")
                v = Tp.operand(pu[0][1]["args"][1])
                okl = okl and v[0] == "call" and v[1] == tc.path and Tp.addr(pu[0][1]["args"][0]) is not None and Tp.addr(pu[0][1]["args"][0])[1][0] == "local"
        ok = ok and okl
    ctx.ob("R19.4", "pipeline=stages-joined-by-' | '", ok, pdg.loc(0), "Pipeline's Debug must push to_cmdline_lossy of each of self.cmds in order and join with \" | \"")
    edg = prog.one("<builder::exec::Exec as std::fmt::Debug>::fmt")
    Te = M.Terms(edg)
    fa = edg.calls_to(lambda f: M.callee_str(f) == "std::fmt::Arguments::<'a>::new")
    ok = len(fa) == 1 and M.contains(Te.operand(fa[0][1]["args"][1]), lambda u: u[0] == "call" and u[1] == tc.path and M.noref(u[2][0]) == ("param", 1, edg.local_name(1)))
    ctx.ob("R19.4", "Exec-Debug=to_cmdline_lossy", ok, edg.loc(0), "Exec's Debug prints self.to_cmdline_lossy()")
