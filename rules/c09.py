"""C09 — exit status is the truth and, once known, final (typestate Preparing -> Running -> Finished)."""
import mirlib as M
from common import *

SPEC = {
    "explanation": (
        "Typestate analysis on the resolved MIR: complete census of constructions of `Popen` and of stores to / "
        "mutable borrows of its private `child_state` field in the whole crate; every store of Finished is dominated by "
        "the Running edge of a discriminant test on the same field, Running is stored only on the parent edge of "
        "fork() inside os_start (whose only caller is Popen::create, on a freshly built Preparing value); every "
        "wait-family extern call is inside posix::waitpid, whose only caller is gated on Running and passes the pid "
        "read from that very state; a status is stored only under `pid_out == pid`; ECHILD maps to "
        "Finished(Undetermined) + Ok; the status decoder pairs WIFEXITED/WEXITSTATUS and WIFSIGNALED/WTERMSIG on the "
        "word libc::waitpid wrote; under child_state=Finished the wait family reaches no OS or clock call; pid() and "
        "exit_status() are pure projections; the state cannot be forged from outside (field privacy, no Clone/Copy)."
        " Also: pid() is Some exactly under Running and exit_status() exactly under Finished (both directions). Thorough tier, windows: stores to child_state, reported=recorded, a recorded status is returned as is, os_wait calls wait_handle(None) before it looks at the state."
    ),
    "not_decided": "that the kernel's status word is the child's real termination cause; exit-code values 0..255.",
    "trusted_base": ["rustc type checking / MIR construction", "POSIX waitpid(2) and the W* status macros (libc crate)",
                     "mirlib dominance-by-removal, provenance terms, finite-domain exploration"],
    "assumptions": [],
}

WAIT_EXTERNS = ["waitpid", "wait", "wait3", "wait4", "waitid"]
POPEN = "popen::Popen"


def finished_only_when_reaped(ctx, prog, rule):
    """Popen::waitpid records Finished only on proof that the child is gone: the decoded status under `pid_out == pid`, or
    Undetermined under errno == ECHILD (and then without propagating the error).  Everything that treats Finished as 'reaped'
    (no further OS call, no signal, pid() absent) rests on this."""
    wp = prog.one("PopenOsImpl>::waitpid")
    T = M.Terms(wp)
    fin_stores = [(bb, si, s) for (bb, si, s) in stores_to_field(wp, "child_state", "popen::Popen") if si != "term" and s["k"] == "assign" and not wp.blocks[bb].get("cleanup")]
    seen_undetermined = False
    seen_status = False
    # a store of `match .. { a => Finished(x), b => Finished(y) }` is looked at per alternative, each where its value is built
    expanded = []
    for bb, si, s in fin_stores:
        val = T.rvalue(s["r"])
        if val[0] == "phi":
            for a_ in M.alts(val):
                site = [(b2, i2) for (b2, i2, r2) in aggregates_of(wp, "popen::ChildState") if T.rvalue(r2) == a_]
                if a_[0] == "agg" and len(site) == 1:
                    expanded.append((site[0][0], site[0][1], a_))
                else:
                    expanded.append((bb, si, a_))
        else:
            expanded.append((bb, si, val))
    for bb, si, val in expanded:
        if val[0] != "agg":
            continue
        payload = val[2][0] if val[2] else None
        if payload == ("agg", ("adt", "os_common::ExitStatus", "Undetermined"), ()):
            seen_undetermined = True
            def is_echild_const(x):
                return x[0] == "const" and x[1] == 10 and x[2] in ("libc::ECHILD", "posix::ECHILD")

            def is_echild_cmp(t):
                # errno == ECHILD on the payload of raw_os_error(e) ...
                if t[0] == "bin" and t[1] == "Eq":
                    return any(is_echild_const(x) for x in t[2:4]) and any(M.contains(x, lambda u: u[0] == "call" and u[1] == "std::io::Error::raw_os_error") for x in t[2:4])
                # ... or  e.raw_os_error() == Some(ECHILD)
                if t[0] == "call" and t[1].endswith("::eq") and "PartialEq" in t[1] and len(t[2]) == 2:
                    a, b = [M.noref(x) for x in t[2]]
                    is_raw = lambda x: x[0] == "call" and x[1] == "std::io::Error::raw_os_error"
                    is_some = lambda x: x[0] == "agg" and x[1][:3] == ("adt", "std::option::Option", "Some") and is_echild_const(x[2][0])
                    return (is_raw(a) and is_some(b)) or (is_raw(b) and is_some(a))
                return False
            edges = bool_edges(wp, T, is_echild_cmp, True)
            not_echild = bool_edges(wp, T, is_echild_cmp, False)
            # a missing errno (raw_os_error() == None) is not ECHILD either
            not_echild += variant_edges(wp, T, lambda t_: t_[0] == "call" and t_[1] == "std::io::Error::raw_os_error", 0, [0, 1], "std::option::Option<")
            ok = dominated_by_edges(wp, bb, edges)
            # on ECHILD the error must not be propagated: every Err return of the waitpid-error arm lies behind a not-ECHILD edge
            err_arm = variant_edges(wp, T, lambda t_: t_[0] == "call" and t_[1] == "posix::waitpid", 1, [0, 1], "std::result::Result<")
            errs = [(b2, s2) for (b2, s2, v2, r2) in result_variants(wp, M.Explore(wp)) if v2 == "Err"]
            prop_ok = bool(err_arm) and bool(errs) and all(dominated_by_edges(wp, b2, not_echild, start=err_arm[0][1]) for b2, _ in errs)
            ctx.ob(rule, "echild.never-propagated", prop_ok, wp.loc(errs[0][0] if errs else bb),
                   "when waitpid fails with ECHILD (someone else reaped the child) no path may return the error: the handle must become Finished(Undetermined), "
                   "for the blocking and the non-blocking query alike")
            ctx.ob(rule, "echild.guard", ok, wp.loc(bb, si), "Finished(Undetermined) must be stored under `raw_os_error == ECHILD`")
            # returns Ok from there: the block's successors lead to return without passing an Err assignment
            # whatever is assigned to the return place from the store onwards is Ok (in the same block or at a later join)
            after = wp.reachable(bb)
            rv = [(b2, v2) for (b2, s2, v2, r2) in result_variants(wp, M.Explore(wp)) if b2 in after and not (b2 == bb and s2 != "term" and s2 < si)]
            okret = bool(rv) and all(v2 == "Ok" for _, v2 in rv)
            ctx.ob(rule, "echild.returns-ok", okret, wp.loc(bb, si), "the ECHILD branch must return Ok(())")
        else:
            seen_status = True
            def is_pid_cmp(t):
                if not (t[0] == "bin" and t[1] == "Eq"):
                    return False
                a, b = t[2], t[3]
                want_pid = ("field", ("downcast", self_field("child_state"), "Running"), "pid")
                def is_out(x):
                    return x[0] == "field" and x[2] == "0" and M.contains(x, lambda u: u[0] == "call" and u[1] == "posix::waitpid")
                return (a == want_pid and is_out(b)) or (b == want_pid and is_out(a))
            edges = bool_edges(wp, T, is_pid_cmp, True)
            ok = dominated_by_edges(wp, bb, edges)
            ctx.ob(rule, "status.pid-match", ok, wp.loc(bb, si),
                   "Finished(status) must be stored only under `pid_out == pid` (WNOHANG's 0 must not be taken as a status)")
            src_ok = payload is not None and payload[0] == "field" and payload[2] == "1" and M.contains(payload, lambda u: u[0] == "call" and u[1] == "posix::waitpid")
            ctx.ob(rule, "status.source", src_ok, wp.loc(bb, si), "stored status = %s (must be component 1 of posix::waitpid's Ok result)" % M.term_str(payload))
    ctx.ob(rule, "echild.present", seen_undetermined, wp.loc(0), "an ECHILD path storing Finished(Undetermined) must exist")
    ctx.ob(rule, "status.present", seen_status, wp.loc(0), "a path storing the decoded status must exist")



def run(ctx):
    prog = ctx.prog
    st_vals = list(range(len(variants(prog, "popen::ChildState"))))
    cs_pred = lambda t: is_field_of_param(t, "child_state", 1)

    # ---- R09.1 write-site census --------------------------------------
    constructions = []
    stores = []
    borrows = []
    for p, fn in sorted(prog.fns.items()):
        for bb, si, r in aggregates_of(fn, POPEN):
            constructions.append((fn, bb, r))
        for bb, si, s in stores_to_field(fn, "child_state", POPEN):
            stores.append((fn, bb, si, s))
        for bb, si in mut_borrows_of_field(fn, "child_state", POPEN):
            borrows.append((fn, bb))
    ctx.floor("R09.1", "constructions of Popen", len(constructions), 1)
    # (one store of `match .. { a => Finished(x), b => Finished(y) }` counts as the two stores it stands for)
    n_values = 0
    for fn_, bb_, si_, s_ in stores:
        n_values += len(M.alts(M.Terms(fn_).rvalue(s_["r"]))) if s_["k"] == "assign" else 1
    ctx.floor("R09.1", "stores to Popen::child_state", n_values, 3)
    for fn, bb, r in constructions:
        T = M.Terms(fn)
        idx = r["fields"].index("child_state")
        st = T.operand(r["ops"][idx])
        ok = fn.path == "popen::Popen::create" and st == ("agg", ("adt", "popen::ChildState", "Preparing"), ())
        ctx.ob("R09.1", "construct@%s" % fn.path, ok, fn.loc(bb),
               "Popen constructed in %s with child_state = %s (only Popen::create, with Preparing)" % (fn.path, M.term_str(st)))
    for fn, bb in borrows:
        ctx.ob("R09.1", "mut-borrow@%s" % fn.path, False, fn.loc(bb),
               "child_state is mutably borrowed in %s: stores through the reference escape the census" % fn.path)
    os_start = prog.one("os_start")
    for fn, bb, si, s in stores:
        T = M.Terms(fn)
        if s["k"] != "assign" or s["p"]["proj"][-1].get("name") != "child_state":
            ctx.ob("R09.1", "partial-store@%s" % fn.path, False, fn.loc(bb, si), "partial store into child_state: %s" % M.place_str(s["p"]))
            continue
        val = T.rvalue(s["r"])
        variants_stored = set()
        for a in M.alts(val):
            if a[0] == "agg" and isinstance(a[1], tuple) and a[1][1] == "popen::ChildState":
                variants_stored.add(a[1][2])
            else:
                variants_stored.add("?")
        payload = "/".join(sorted(("Undetermined" if a[0] == "agg" and a[2] and a[2][0] == ("agg", ("adt", "os_common::ExitStatus", "Undetermined"), ()) else "value") for a in M.alts(val)))
        key = "store:%s(%s)@%s" % ("/".join(sorted(variants_stored)), payload, fn.path)
        if variants_stored == {"Finished"}:
            edges = variant_edges(fn, T, cs_pred, CHILD_STATE["Running"], st_vals)
            ok = dominated_by_edges(fn, bb, edges)
            fin_edges = variant_edges(fn, T, cs_pred, CHILD_STATE["Finished"], st_vals)
            under_fin = dominated_by_edges(fn, bb, fin_edges)
            ctx.ob("R09.1", key, ok and not under_fin and fn.path.endswith("PopenOsImpl>::waitpid"), fn.loc(bb, si),
                   "store of Finished in %s must be dominated by the Running edge of a test on self.child_state "
                   "(dominated=%s, under Finished edge=%s)" % (fn.path, ok, under_fin))
        elif variants_stored == {"Running"}:
            ok = fn.path == os_start.path
            ctx.ob("R09.1", key, ok, fn.loc(bb, si), "Running may be stored only in os_start (here: %s)" % fn.path)
        else:
            ctx.ob("R09.1", key, False, fn.loc(bb, si), "store of %s into child_state in %s" % (M.term_str(val), fn.path))
    # os_start is entered only from create, on the freshly constructed value
    callers = M.all_calls(prog, lambda f: M.callee_str(f) == os_start.path)
    ctx.floor("R09.1", "callers of os_start", len(callers), 1)
    for fn, bb, t in callers:
        T = M.Terms(fn)
        recv = M.strip(T.operand(t["args"][0]))
        fresh = recv[0] == "agg" and recv[1] == ("adt", POPEN, "Popen")
        ctx.ob("R09.1", "os_start-caller@%s" % fn.path, fn.path == "popen::Popen::create" and fresh, fn.loc(bb),
               "os_start called from %s on %s (only Popen::create on the value it just built)" % (fn.path, M.term_str(recv)))

    # ---- R09.2 gated wait-family syscalls ------------------------------
    sites = extern_calls(prog, WAIT_EXTERNS)
    ctx.floor("R09.2", "wait-family extern call sites", len(sites), 1)
    for fn, bb, t in sites:
        nm = M.callee_str(t["f"])
        ctx.ob("R09.2", "extern:%s@%s" % (nm, fn.path), nm == "libc::waitpid" and fn.path == "posix::waitpid", fn.loc(bb),
               "%s called in %s (only libc::waitpid inside posix::waitpid)" % (nm, fn.path))
    wcalls = M.all_calls(prog, lambda f: M.callee_str(f) == "posix::waitpid")
    ctx.floor("R09.2", "posix::waitpid call sites", len(wcalls), 1)
    wp = prog.one("PopenOsImpl>::waitpid")
    for fn, bb, t in wcalls:
        T = M.Terms(fn)
        if fn.path != wp.path:
            ctx.ob("R09.2", "posix::waitpid@%s" % fn.path, False, fn.loc(bb), "posix::waitpid called outside the gated Popen::waitpid: %s" % fn.path)
            continue
        edges = variant_edges(fn, T, cs_pred, CHILD_STATE["Running"], st_vals)
        ctx.ob("R09.2", "waitpid.gated", dominated_by_edges(fn, bb, edges), fn.loc(bb),
               "posix::waitpid must be dominated by the Running edge of a test on self.child_state")
        a = [T.operand(x) for x in t["args"]]
        want = ("field", ("downcast", self_field("child_state"), "Running"), "pid")
        ctx.ob("R09.2", "waitpid.pid", a[0] == want, fn.loc(bb), "pid operand = %s (must be the Running payload)" % M.term_str(a[0]))
        region = fn.reachable(0) - fn.reachable(0, removed_edges=set(edges))
        before = {b for b in region if bb in fn.reachable(b) and b != bb}
        for rb in sorted(before):
            tt = fn.blocks[rb]["term"]
            if tt["k"] == "call" and not is_panic_call(tt):
                ctx.ob("R09.2", "waitpid.between:%s" % M.callee_str(tt["f"]), False, fn.loc(rb),
                       "call between the Running test and waitpid: %s" % M.callee_str(tt["f"]))
    # under Finished the wait family reaches nothing but pure projections
    PURE = ("popen::Popen::exit_status", "popen::Popen::pid", "std::option::Option::<T>::unwrap", "std::option::Option::<T>::expect",
            "std::option::Option::<T>::is_some", "std::option::Option::<T>::is_none", "std::option::Option::<T>::as_ref", "std::option::Option::<T>::unwrap_or",
            "std::option::Option::<T>::is_some_and", "std::option::Option::<T>::copied", "std::option::Option::<T>::cloned")
    for name in ("os_wait", "os_wait_timeout", "PopenOsImpl>::waitpid"):
        f = prog.one(name)
        ex = M.Explore(f, assume={self_field("child_state"): CHILD_STATE["Finished"]})
        bad = [M.callee_str(t["f"]) for _, t in ex.calls() if M.callee_str(t["f"]) not in PURE]
        ctx.ob("R09.2", "%s[Finished].no-os-call" % name.split("::")[-1], not bad and bool(ex.returns()), f.loc(0),
               "under child_state=Finished %s must return without any OS/clock call; reaches %s" % (name, bad))
    for name in ("popen::Popen::pid", "popen::Popen::exit_status"):
        f = prog.fn(name)
        if f is None:
            ctx.missing("R09.2", name)
            continue
        calls = [M.callee_str(t["f"]) for _, t in f.calls()]
        st = [1 for b in f.live_blocks() for s in f.blocks[b]["stmts"] if s["k"] == "assign" and s["p"]["proj"] and s["p"]["l"] == 1]
        recv = f.j["inputs"][0]
        ctx.ob("R09.2", "%s.pure" % name.split("::")[-1], not calls and not st and "mut popen::Popen" not in recv, f.loc(0),
               "%s must be a pure projection (&self, no calls, no stores); calls=%s" % (name, calls))
    # projections agree with the state: pid() is Some only under Running, exit_status() only under Finished
    for name, var, fld in (("popen::Popen::pid", "Running", "pid"), ("popen::Popen::exit_status", "Finished", "0")):
        f = prog.fn(name)
        if f is None:
            continue
        T = M.Terms(f)
        edges = variant_edges(f, T, cs_pred, CHILD_STATE[var], st_vals)
        for bb in sorted(f.live_blocks()):
            for si, s in enumerate(f.blocks[bb]["stmts"]):
                if s["k"] == "assign" and s["p"]["l"] == 0 and not s["p"]["proj"] and s["r"]["k"] == "agg":
                    if s["r"]["variant"] == "Some":
                        payload = T.operand(s["r"]["ops"][0])
                        want = ("field", ("downcast", self_field("child_state"), var), fld)
                        ctx.ob("R09.2", "%s.some" % name.split("::")[-1], dominated_by_edges(f, bb, edges) and payload == want, f.loc(bb, si),
                               "%s returns Some(%s); must be the %s payload under the %s edge" % (name, M.term_str(payload), var, var))

    # ... and conversely: in that state the projection *is* Some (a known status / a live pid is never hidden), in every other state None
    for name, var in (("popen::Popen::pid", "Running"), ("popen::Popen::exit_status", "Finished")):
        f = prog.fn(name)
        if f is None:
            continue
        for sname, sval in CHILD_STATE.items():
            ex = M.Explore(f, assume={self_field("child_state"): sval})
            got = sorted({s_["r"]["variant"] for b_ in ex.blocks for s_ in f.blocks[b_]["stmts"]
                          if s_["k"] == "assign" and s_["p"]["l"] == 0 and not s_["p"]["proj"] and s_["r"]["k"] == "agg" and s_["r"].get("adt") == "std::option::Option"})
            want = ["Some"] if sname == var else ["None"]
            ctx.ob("R09.2", "%s[%s]=%s" % (name.split("::")[-1], sname, want[0]), got == want and bool(ex.returns()), f.loc(0),
                   "under child_state=%s %s must return %s (found %s)" % (sname, name, want[0], got))

    # ---- R09.3 status recorded only for this child; ECHILD -> Undetermined + Ok ----
    finished_only_when_reaped(ctx, prog, "R09.3")

    reported_status_is_recorded(ctx, prog, "R09.3")

    # ---- R09.4 decode pairing ------------------------------------------
    dec = prog.one("posix::decode_exit_status")
    T = M.Terms(dec)
    pairs = {"Exited": ("libc::WIFEXITED", "libc::WEXITSTATUS"), "Signaled": ("libc::WIFSIGNALED", "libc::WTERMSIG")}
    found = set()
    status = ("param", 1, dec.local_name(1))
    for bb in sorted(dec.live_blocks()):
        for si, s in enumerate(dec.blocks[bb]["stmts"]):
            if s["k"] == "assign" and s["p"]["l"] == 0 and s["r"]["k"] == "agg" and s["r"].get("adt") == "os_common::ExitStatus":
                v = s["r"]["variant"]
                if v not in pairs:
                    continue
                found.add(v)
                test, extract = pairs[v]
                payload = M.strip(T.operand(s["r"]["ops"][0])) if False else T.operand(s["r"]["ops"][0])
                while payload[0] == "cast":
                    payload = payload[2]
                pay_ok = payload[0] == "call" and payload[1] == extract and payload[2] == (status,)
                edges = bool_edges(dec, T, lambda t: t[0] == "call" and t[1] == test and t[2] == (status,), True)
                ctx.ob("R09.4", "decode.%s" % v, pay_ok and dominated_by_edges(dec, bb, edges), dec.loc(bb, si),
                       "%s(x): x = %s must be %s(status) under %s(status)" % (v, M.term_str(payload), extract, test))
    ctx.ob("R09.4", "decode.arms", found == set(pairs), dec.loc(0), "decoder must produce Exited and Signaled; found %s" % sorted(found))
    pw = prog.one("posix::waitpid")
    T = M.Terms(pw)
    lw = pw.calls_to(lambda f: M.callee_str(f) == "libc::waitpid")
    dc = pw.calls_to(lambda f: M.callee_str(f) == "posix::decode_exit_status")
    if len(lw) == 1 and len(dc) == 1:
        a = [T.operand(x) for x in lw[0][1]["args"]]
        ctx.ob("R09.4", "libc::waitpid.pid", M.strip(a[0]) == ("param", 1, pw.local_name(1)), pw.loc(lw[0][0]), "pid arg = %s" % M.term_str(a[0]))
        ctx.ob("R09.4", "libc::waitpid.flags", M.strip(a[2]) == ("param", 2, pw.local_name(2)), pw.loc(lw[0][0]), "flags arg = %s" % M.term_str(a[2]))
        # status word: the local whose address is passed is the one decoded
        st_local = None
        op = lw[0][1]["args"][1]
        tt = T.operand(op)
        # address-of chain ends in a bare local
        d = dc[0][1]["args"][0]
        dl = None
        if d["k"] in ("copy", "move") and not d["p"]["proj"]:
            # _22 = status
            defs = pw.defs().get(d["p"]["l"], [])
            if len(defs) == 1 and defs[0][2]["k"] == "use" and defs[0][2]["op"]["k"] in ("copy", "move") and not defs[0][2]["op"]["p"]["proj"]:
                dl = defs[0][2]["op"]["p"]["l"]
        # find local whose ref reaches arg1
        def addr_local(o, depth=0):
            if o["k"] not in ("copy", "move") or o["p"]["proj"] or depth > 6:
                return None
            defs = pw.defs().get(o["p"]["l"], [])
            if len(defs) != 1:
                return None
            r = defs[0][2]
            if r["k"] in ("ref", "rawptr"):
                p = r["p"]
                if not p["proj"]:
                    return p["l"]
                if len(p["proj"]) == 1 and p["proj"][0]["k"] == "deref":
                    return addr_local({"k": "copy", "p": {"l": p["l"], "proj": []}}, depth + 1)
            if r["k"] in ("use", "cast"):
                return addr_local(r["op"], depth + 1)
            return None
        st_local = addr_local(op)
        ctx.ob("R09.4", "status.same-local", st_local is not None and st_local == dl, pw.loc(dc[0][0]),
               "the word decoded (_%s) must be the one libc::waitpid wrote (_%s)" % (dl, st_local))
        # decode happens on the success edge of check_err(libc::waitpid(..)) and the tuple is (pid, status)
        for bb in pw.live_blocks():
            for si, s in enumerate(pw.blocks[bb]["stmts"]):
                if s["k"] == "assign" and s["r"]["k"] == "agg" and s["r"]["kind"] == "tuple" and len(s["r"]["ops"]) == 2:
                    c0 = T.operand(s["r"]["ops"][0])
                    c1 = T.operand(s["r"]["ops"][1])
                    ok0 = M.contains(c0, lambda u: u[0] == "call" and u[1] == "libc::waitpid") and not M.contains(c0, lambda u: u[0] == "call" and u[1] == "posix::decode_exit_status")
                    ok1 = c1[0] == "call" and c1[1] == "posix::decode_exit_status"
                    ctx.ob("R09.4", "waitpid.tuple-order", ok0 and ok1, pw.loc(bb, si), "result tuple = (%s, %s)" % (M.term_str(c0), M.term_str(c1)))
    else:
        ctx.ob("R09.4", "posix::waitpid.shape", False, pw.loc(0), "expected one libc::waitpid and one decode_exit_status call")

    # ---- R09.5 pid provenance ------------------------------------------
    T = M.Terms(os_start)
    for fn, bb, si, s in stores:
        if fn.path != os_start.path:
            continue
        val = T.rvalue(s["r"])
        if val[0] == "agg" and val[1][2] == "Running":
            pid = val[2][0]
            src = M.strip(pid)
            ok = src[0] == "call" and src[1] == "posix::fork"
            ctx.ob("R09.5", "running.pid<-fork", ok, fn.loc(bb, si), "Running.pid = %s (must be the Some payload of posix::fork())" % M.term_str(pid))
            # on the Some edge of the match on fork's result
            forkopt = lambda t: M.strip(t)[0] == "call" and M.strip(t)[1] == "posix::fork"
            edges = variant_edges(fn, T, forkopt, 1, [0, 1], "std::option::Option<")
            ctx.ob("R09.5", "running.on-parent-edge", dominated_by_edges(fn, bb, edges), fn.loc(bb, si), "Running is stored on the Some (parent) edge of fork()")
    fk = prog.one("posix::fork")
    T = M.Terms(fk)
    is_pid = lambda t: M.contains(t, lambda u: u[0] == "call" and u[1] == "libc::fork") and M.contains(t, lambda u: u[0] == "call" and u[1] == "posix::check_err")
    zero_e, nonzero_e = zero_test_edges(fk, T, is_pid)
    for bb in sorted(fk.live_blocks()):
        for si, s in enumerate(fk.blocks[bb]["stmts"]):
            if s["k"] == "assign" and s["r"]["k"] == "agg" and s["r"].get("adt") == "std::option::Option":
                if s["r"]["variant"] == "None":
                    ctx.ob("R09.5", "fork.none-iff-zero", dominated_by_edges(fk, bb, zero_e), fk.loc(bb, si), "fork() yields None (child) only when the pid is 0")
                else:
                    pl = T.operand(s["r"]["ops"][0])
                    ok = dominated_by_edges(fk, bb, nonzero_e) and is_pid(pl)
                    ctx.ob("R09.5", "fork.some-positive", ok, fk.loc(bb, si), "Some(pid) only for pid != 0 that passed check_err: %s" % M.term_str(pl))
    # the failure test is meaningful only on a signed value: check_err::<T> tests `num < T::default()`
    for fn_, bb_, t_ in callers_of(prog, "posix::check_err"):
        if fn_.path == fk.path:
            ga = t_["f"].get("gargs", [])
            ctx.ob("R09.5", "fork.error-test-is-signed", ga[:1] in (["i32"], ["i64"], ["isize"]), fn_.loc(bb_), "check_err is instantiated at %s in posix::fork: with an unsigned type `num < 0` is never true and fork()'s -1 becomes pid 4294967295" % ga)
    ce = prog.one("posix::check_err")
    T = M.Terms(ce)
    # Err exactly for a negative number, however the comparison with T::default() is written (num < 0, !(num >= 0), 0 > num ...)
    nump = ("param", 1, ce.local_name(1))
    def neg_test(t, negative):
        """value of a comparison between num and T::default() when num is negative / is not"""
        if not (t and t[0] == "call" and len(t[2]) == 2):
            return None
        op = t[1].split("::")[-1]
        a, b = M.noref(M.strip(t[2][0])), M.noref(M.strip(t[2][1]))
        is_zero = lambda x: (x[0] == "call" and "Default" in x[1] and x[1].endswith("::default")) or const_of(x) == 0
        # (a non-strict comparison does not tell zero from positive: undetermined for a non-negative number)
        if a == nump and is_zero(b):
            table = {"lt": negative, "ge": not negative, "le": True if negative else None, "gt": False if negative else None}
        elif b == nump and is_zero(a):
            table = {"gt": negative, "le": not negative, "ge": True if negative else None, "lt": False if negative else None}
        else:
            return None
        v = table.get(op)
        return None if v is None else int(v)
    def results_when(negative):
        ex_ = M.Explore(ce, assume_fn=lambda t_: neg_test(t_, negative))
        return [(v, r) for (bb, si, v, r) in result_variants(ce, ex_)]
    neg, pos = results_when(True), results_when(False)
    okn = bool(neg) and all(v == "Err" for v, _ in neg)
    okp = bool(pos) and all(v == "Ok" and M.noref(T.operand(r["ops"][0])) == nump for v, r in pos)
    ctx.ob("R09.5", "check_err.negative->Err", okn and okp, ce.loc(0), "check_err returns Err exactly under `num < 0` and Ok(num) otherwise (negative: %s, non-negative: %s)" % ([v for v, _ in neg], [v for v, _ in pos]))

    # ---- R09.6 type-level facts ----------------------------------------
    adt = prog.adts.get(POPEN)
    if adt is None:
        ctx.missing("R09.6", POPEN)
    else:
        fields = {f["name"]: f for f in adt["variants"][0]["fields"]}
        for n in ("child_state", "detached"):
            ctx.ob("R09.6", "private:%s" % n, n in fields and fields[n]["vis"] != "pub", "%s:%d" % (adt["file"], adt["line"]), "Popen::%s visibility = %s" % (n, fields.get(n, {}).get("vis")))
    bad = [i for i in prog.impls if i.get("self_adt") in (POPEN, "popen::ChildState") and i.get("trait") in ("std::clone::Clone", "std::marker::Copy", "std::default::Default")]
    ctx.ob("R09.6", "no-clone-copy-default", not bad, "", "Popen/ChildState must not be Clone/Copy/Default: %s" % [(i["self_ty"], i["trait"]) for i in bad])
    cs = prog.adts.get("popen::ChildState")
    ctx.ob("R09.6", "childstate.private", cs is not None and cs["vis"] != "pub", "", "ChildState visibility %s" % (cs or {}).get("vis"))


def run_thorough(ctx):
    # A8: clauses enforced by the type system itself, witnessed by compile_fail doctests with compiling twins
    ctx.witness("R09.6", ['PrivateChildState', 'PrivateDetached', 'NoClone', 'NoLiteral', 'WaitNeedsMut'])

    deep_census(ctx, "R09.2", WAIT_EXTERNS, {"waitpid": ["posix::waitpid"]})
    import winrules
    winrules.c09_state(ctx)
