"""C13 — pipelines connect stage i to stage i+1 and nothing else, however composed."""
import mirlib as M
from common import *
from c12 import elem_selector, subterms

SPEC = {
    "explanation": (
        "The wiring table of the single spawn loop and of the composition operators, decided by provenance on the "
        "resolved MIR: inside Pipeline::popen's loop, under `idx != 0` the stage's stdin is "
        "`ret[idx - 1].stdout.take().unwrap()` (same enumerate index, the result vector itself), under "
        "`idx != cnt - 1` (cnt = len of the command list read before the loop) its stdout is forced to Pipe, each "
        "started Popen is pushed to the result in iteration order, and the iterator chain is "
        "into_iter().enumerate() with no reordering adaptor; the pipeline's stdin is applied to the element drained "
        "from index 0 and re-inserted at 0, its stdout to the element drained from len-1 and pushed back; the stderr "
        "sink is applied to every command as one shared Rc; `|` appends on the right in all three operator impls and "
        "from_exec_iter keeps iteration order; join/capture return the wait() of the last element; every pipeline "
        "terminator creates processes only through Pipeline::popen; setup_communicate hands the communicator "
        "(first.stdin, last.stdout, read end of the shared stderr pipe)."
        " Also: the spawn-loop function is found by census (the one pipeline function calling Exec::popen), so extracting it into a helper does not move the rules; Pipeline setters store into the field the loop reads; a length test may refuse only fewer than two commands."
    ),
    "not_decided": "\"the result equals the composition of the stages\" as an input/output statement; that no stderr line is lost "
                   "(kernel pipe semantics); exit-status values.",
    "trusted_base": ["rustc MIR", "Vec::push/insert/extend/drain, Iterator::enumerate/collect keep order (std)",
                     "mirlib provenance terms, dominance-by-removal, SCC"],
    "assumptions": [],
}

PPUB = "builder::pipeline::Pipeline::popen"
PP = PPUB
REORDER = ("rev", "skip", "step_by", "filter", "take", "skip_while", "take_while", "filter_map", "chain", "zip", "cycle", "rev_enumerate")


def run(ctx):
    global PP
    prog = ctx.prog
    PP = pipeline_spawner(prog) or PPUB       # the function holding the spawn loop (Pipeline::popen itself, or a helper it delegates to)
    pp = prog.one(PP)
    T = M.Terms(pp)
    selfp = ("param", 1, pp.local_name(1))
    loops = M.sccs(pp)
    ctx.ob("R13.1", "one-spawn-loop", len(loops) == 1, pp.loc(0), "Pipeline::popen has exactly one loop (found %d)" % len(loops))
    if len(loops) != 1:
        return
    loop = loops[0]
    nxt = [(bb, t) for bb, t in pp.calls(loop) if M.callee_str(t["f"]).endswith("as std::iter::Iterator>::next")]
    ctx.ob("R13.1", "loop-driver", len(nxt) == 1, pp.loc(0), "the loop is driven by one Iterator::next call")
    if len(nxt) != 1:
        return
    item = ("call", M.callee_str(nxt[0][1]["f"]), tuple(T.operand(a) for a in nxt[0][1]["args"]), nxt[0][0])
    it = M.noref(item[2][0])
    # iterator chain: into_iter(enumerate(into_iter(self.cmds)))
    chain = []
    x = it
    while x[0] == "call":
        chain.append(x[1].split("::")[-1])
        x = M.noref(x[2][0]) if x[2] else ("none",)
    enumerated = chain.count("enumerate") == 1
    okchain = x == ("field", selfp, "cmds") and chain.count("enumerate") <= 1 and "into_iter" in chain and all(c in ("into_iter", "enumerate") for c in chain)
    ctx.ob("R13.1", "iteration-order", okchain, pp.loc(nxt[0][0]), "stage iterator = %s over %s (must be self.cmds.into_iter(), possibly enumerated, no reordering adaptor)" % (chain, M.term_str(x)))
    idx = ("field", ("field", ("downcast", item, "Some"), "0"), "0") if enumerated else ("none",)
    runner0 = ("field", ("field", ("downcast", item, "Some"), "0"), "1")
    pos_by_len = [False]        # set below: the position may be asked of the result vector (`started.len()`), which grows by one per stage

    def is_idx(t):
        t = M.noref(t)
        if enumerated and t == M.noref(idx):
            return True
        if pos_by_len[0] and t[0] == "call" and t[1] == "std::vec::Vec::<T, A>::len" and len(t) > 3 and t[3] in loop:
            return M.noref(M.strip(t[2][0])) == M.noref(T.local(pos_by_len[0]))
        return False

    # result vector
    pushes = [(bb, t) for bb, t in pp.calls(loop) if M.callee_str(t["f"]) == "std::vec::Vec::<T, A>::push"]
    ret_slot = T.addr(pushes[0][1]["args"][0]) if len(pushes) == 1 else None
    ctx.ob("R13.1", "result-push", len(pushes) == 1 and ret_slot is not None and ret_slot[1][0] == "local", pp.loc(pushes[0][0] if pushes else 0), "each started process is pushed to one local result vector")
    if ret_slot is None:
        return
    if len(pushes) == 1 and ret_slot[1][0] == "local":
        # one push on every way round the loop: the vector's length is the number of the stage being set up
        body_entry_ = [s_ for s_ in pp.succs(nxt[0][0]) if s_ in loop]
        if not any(nxt[0][0] in pp.reachable(s_, removed_blocks={pushes[0][0]}) for s_ in body_entry_):
            pos_by_len[0] = ret_slot[1][1]
    if len(pushes) == 1:
        v = M.strip(T.operand(pushes[0][1]["args"][1]))
        ctx.ob("R13.1", "push=popen-result", v[0] == "call" and v[1] == "builder::exec::Exec::popen", pp.loc(pushes[0][0]), "pushed value = %s (must be the Popen just started)" % M.term_str(v)[:100])
    # the Ok return hands that vector back
    for (bb, si, v, r) in result_variants(pp, M.Explore(pp)):
        if v == "Ok":
            l = T.origin_local(r["ops"][0])
            ctx.ob("R13.1", "returns-result-vector", l == ret_slot[1][1], pp.loc(bb, si), "Ok(ret) returns the vector the stages were pushed to")
    # stdin wiring
    sc = [(bb, t) for bb, t in pp.calls(loop) if M.callee_str(t["f"]) == "builder::exec::Exec::stdin"]
    ctx.ob("R13.1", "stage-stdin.site", len(sc) == 1, pp.loc(0), "one Exec::stdin call in the loop (found %d)" % len(sc))
    last_form = False
    for bb, t in sc:
        a = T.operand(t["args"][1])
        ok = a[0] == "call" and a[1] == "std::option::Option::<T>::unwrap" and a[2][0][0] == "call" and a[2][0][1] == "std::option::Option::<T>::take"
        detail = M.term_str(a)[:200]
        if ok:
            tk = a[2][0]
            src = M.noref(tk[2][0])
            ok = src[0] == "field" and src[2] == "stdout"
            prev_sel = M.strip(src[1]) if ok else None
            ok = ok and prev_sel[0] == "call"
            if ok and prev_sel[0] == "call" and prev_sel[1].endswith("::last_mut"):
                # `ret.last_mut()`: the vector holds exactly the idx stages started so far (one push on every way round the loop), so its
                # last element is stage idx-1 and it has none for the first stage
                base_t = M.noref(M.strip(prev_sel[2][0], also=("<std::vec::Vec<T, A> as std::ops::DerefMut>::deref_mut",)))
                vec_ok = base_t == M.noref(T.local(ret_slot[1][1]))
                body_entry = [s_ for s_ in pp.succs(nxt[0][0]) if s_ in loop]
                round_wo_push = any(nxt[0][0] in pp.reachable(s_, removed_blocks={pushes[0][0]}) for s_ in body_entry) if len(pushes) == 1 else True
                ok = vec_ok and not round_wo_push
                last_form = ok
                detail = "previous stage taken as ret.last_mut() of the result vector: %s; every iteration pushes: %s" % (vec_ok, not round_wo_push)
            elif ok and "index" in src[1][1].lower():
                # the indexed vector is the result vector, the index is idx - 1
                tkbb = tk[3]
                ixcall = [b for b, tt in pp.calls(loop) if "index" in M.callee_str(tt["f"]).lower() and b in pp.preds().get(tkbb, []) or False]
                vec_ok = False
                for b, tt in pp.calls(loop):
                    if "index" in M.callee_str(tt["f"]).lower() and tt["t"] == tkbb:
                        vec_ok = T.addr(tt["args"][0]) == ret_slot
                i = src[1][2][1]
                sub = i[1] if i[0] == "field" else i
                idx_ok = sub[0] == "bin" and sub[1] in ("Sub", "SubWithOverflow") and is_idx(sub[2]) and const_of(sub[3]) == 1
                ok = vec_ok and idx_ok
                detail = "vector is the result vector: %s, index is idx-1: %s (%s)" % (vec_ok, idx_ok, M.term_str(i)[:120])
        ctx.ob("R13.1", "stage-stdin=ret[idx-1].stdout.take()", ok, pp.loc(bb), "stage stdin must be the read end taken out of the previous stage: " + detail)
        e, _ = cond_edges(pp, T, lambda c: (1 if c[1] == "Ne" else -1) if (c[0] == "bin" and c[1] in ("Ne", "Eq") and is_idx(c[2]) and const_of(c[3]) == 0) else 0)
        if last_form:
            # "there is a previous stage" asked of the vector itself
            e = list(e) + variant_edges(pp, T, lambda t_: t_[0] == "call" and t_[1].endswith("::last_mut"), 1, [0, 1], "std::option::Option<")
        ctx.ob("R13.1", "stage-stdin.under-idx!=0", dominated_by_edges(pp, bb, e, start=nxt[0][0]), pp.loc(bb), "the hand-over applies to every stage but the first (guard idx != 0)")
    # stdout = Pipe for all but the last
    so = [(bb, t) for bb, t in pp.calls(loop) if M.callee_str(t["f"]) == "builder::exec::Exec::stdout"]
    ctx.ob("R13.1", "stage-stdout.site", len(so) == 1, pp.loc(0), "one Exec::stdout call in the loop (found %d)" % len(so))
    cnt_calls = [(bb, t) for bb, t in pp.calls() if M.callee_str(t["f"]) == "std::vec::Vec::<T, A>::len" and bb not in loop and M.noref(T.operand(t["args"][0])) == ("field", selfp, "cmds")]
    for bb, t in so:
        a = T.operand(t["args"][1])
        ctx.ob("R13.1", "stage-stdout=Pipe", a == ("agg", ("adt", "popen::Redirection", "Pipe"), ()), pp.loc(bb), "intermediate stdout = %s (must be Redirection::Pipe)" % M.term_str(a))

        def last_atom(c):
            """+1: `idx != cnt - 1`, -1: `idx == cnt - 1`"""
            # (idx enumerates the same vector, so idx <= len - 1 throughout: `idx < len - 1` says the same as `idx != len - 1`)
            if not (c[0] == "bin" and c[1] in ("Ne", "Eq", "Lt", "Ge") and is_idx(c[2])):
                return 0
            r = c[3]
            r = r[1] if r[0] == "field" else r
            if not (r[0] == "bin" and r[1] in ("Sub", "SubWithOverflow") and const_of(r[3]) == 1):
                return 0
            l = r[2]
            if l[0] == "call" and l[1] == "std::vec::Vec::<T, A>::len" and M.noref(l[2][0]) == ("field", selfp, "cmds") and l[3] not in loop:
                return 1 if c[1] in ("Ne", "Lt") else -1
            return 0
        e, _ = cond_edges(pp, T, last_atom)
        ctx.ob("R13.1", "stage-stdout.under-idx!=cnt-1", dominated_by_edges(pp, bb, e, start=nxt[0][0]), pp.loc(bb), "every stage but the last gets stdout = Pipe (guard idx != cnt - 1 with cnt = self.cmds.len() read before the loop)")
    # the final `cnt` must be read after the first/last re-insertion (len unchanged anyway) and before the loop
    pc = [(bb, t) for bb, t in pp.calls(loop) if M.callee_str(t["f"]) == "builder::exec::Exec::popen"]
    ctx.ob("R13.1", "one-spawn-per-iteration", len(pc) == 1 and not [1 for bb, t in pp.calls() if bb not in loop and M.callee_str(t["f"]) in ("builder::exec::Exec::popen", "popen::Popen::create")], pp.loc(0), "exactly one Exec::popen per iteration and none outside the loop")

    # ---- R13.2 pipeline stdin -> first, stdout -> last, stderr -> all ----------------
    for meth, field, where in (("builder::exec::Exec::stdin", "stdin", "first"), ("builder::exec::Exec::stdout", "stdout", "last")):
        cs = [(bb, t) for bb, t in pp.calls() if bb not in loop and M.callee_str(t["f"]) == meth]
        ok = len(cs) == 1
        detail = "expected one %s call before the loop" % meth
        if ok:
            bb, t = cs[0]
            a = [T.operand(x) for x in t["args"]]
            ok = M.noref(a[1]) == ("field", selfp, field)
            # receiver = drain(range).next().unwrap()
            r = a[0]
            rng = None
            if r[0] == "call" and r[1].endswith("::unwrap") and r[2][0][0] == "call" and r[2][0][1].endswith("Iterator>::next"):
                d = M.noref(r[2][0][2][0])
                if d[0] == "call" and d[1].endswith("::drain") and M.noref(d[2][0]) == ("field", selfp, "cmds"):
                    rng = d[2][1]
            cmds_ = ("field", selfp, "cmds")
            took_first = r[0] == "call" and r[1] == "std::vec::Vec::<T, A>::remove" and M.noref(r[2][0]) == cmds_ and const_of(r[2][1]) == 0
            took_last = r[0] == "call" and r[1].endswith("::unwrap") and r[2][0][0] == "call" and r[2][0][1] == "std::vec::Vec::<T, A>::pop" and M.noref(r[2][0][2][0]) == cmds_
            if where == "first":
                okr = (rng is not None and rng[0] == "agg" and rng[1][1] == "std::ops::RangeTo" and const_of(rng[2][0]) == 1) or took_first
                # re-inserted at 0
                ins = [(b2, t2) for b2, t2 in pp.calls() if M.callee_str(t2["f"]) == "std::vec::Vec::<T, A>::insert"]
                okr = okr and len(ins) == 1 and const_of(T.operand(ins[0][1]["args"][1])) == 0 and T.operand(ins[0][1]["args"][2])[:2] == ("call", meth) \
                    and M.noref(T.operand(ins[0][1]["args"][0])) == ("field", selfp, "cmds")
            else:
                okr = rng is not None and rng[0] == "agg" and rng[1][1] == "std::ops::RangeFrom"
                if okr:
                    st = rng[2][0]
                    st = st[1] if st[0] == "field" else st
                    okr = st[0] == "bin" and st[1] in ("Sub", "SubWithOverflow") and const_of(st[3]) == 1 and st[2][0] == "call" and st[2][1] == "std::vec::Vec::<T, A>::len"
                okr = okr or took_last
                pu = [(b2, t2) for b2, t2 in pp.calls() if b2 not in loop and M.callee_str(t2["f"]) == "std::vec::Vec::<T, A>::push"]
                okr = okr and len(pu) == 1 and T.operand(pu[0][1]["args"][1])[:2] == ("call", meth) and M.noref(T.operand(pu[0][1]["args"][0])) == ("field", selfp, "cmds")
            detail = "argument is self.%s: %s; applied to the %s element and put back in place: %s" % (field, ok, where, okr)
            ok = ok and okr
        ctx.ob("R13.2", "pipeline.%s->%s" % (field, where), ok, pp.loc(cs[0][0] if cs else 0), detail)
    c0 = prog.fn(PP + "::{closure#0}")
    mp = [(bb, t) for bb, t in pp.calls() if bb not in loop and M.callee_str(t["f"]) == "std::iter::Iterator::map"]
    ok = c0 is not None and len(mp) == 1
    if ok:
        Tc = M.Terms(c0)
        se = c0.calls_to(lambda f: M.callee_str(f) == "builder::exec::Exec::stderr")
        ok = len(se) == 1
        if ok:
            a = [Tc.operand(x) for x in se[0][1]["args"]]
            ok = a[0] == ("param", 2, c0.local_name(2)) and a[1][0] == "agg" and a[1][1] == ("adt", "popen::Redirection", "RcFile") and a[1][2][0][0] == "call" and "Rc" in a[1][2][0][1] and "clone" in a[1][2][0][1]
        src = M.noref(M.strip(T.operand(mp[0][1]["args"][0]), also=("<std::vec::Vec<T, A> as std::iter::IntoIterator>::into_iter",)))
        whole = src == ("field", selfp, "cmds") and T.operand(mp[0][1]["args"][0])[1].endswith("into_iter")
        st = [s for s in stores_to_field(pp, "cmds", "builder::pipeline::Pipeline")]
        back = any(s[2]["k"] == "assign" and M.contains(T.rvalue(s[2]["r"]), lambda u: u[0] == "call" and u[1] == "std::iter::Iterator::collect") for s in st) or \
            any(s[1] == "term" and M.callee_str(s[2]["f"]) == "std::iter::Iterator::collect" for s in st)
        shared = M.contains(T.operand(mp[0][1]["args"][1]), lambda u: u[0] == "call" and u[1] == "std::rc::Rc::<T>::new" and M.noref(M.strip(u[2][0])) == ("field", selfp, "stderr_file"))
        ok = ok and whole and back and shared
    ctx.ob("R13.2", "stderr-sink->every-stage", ok, pp.loc(mp[0][0] if mp else 0), "the stderr file must be applied to all of self.cmds as one shared RcFile (Rc::clone of Rc::new(stderr_file)) and stored back")

    # ---- R13.3 composition operators append on the right ------------------------------
    pn = prog.one("builder::pipeline::Pipeline::new")
    Tn = M.Terms(pn)
    arr = None
    for bb in pn.live_blocks():
        for s in pn.blocks[bb]["stmts"]:
            if s["k"] == "assign" and s["r"]["k"] == "agg" and s["r"]["kind"] == "array":
                arr = [Tn.operand(o) for o in s["r"]["ops"]]
    ctx.ob("R13.3", "Pipeline::new=[cmd1,cmd2]", arr == [("param", 1, pn.local_name(1)), ("param", 2, pn.local_name(2))], pn.loc(0), "Pipeline::new builds %s" % ([M.term_str(a) for a in arr] if arr else None))
    be = prog.one("<builder::exec::Exec as std::ops::BitOr>::bitor")
    Tb = M.Terms(be)
    c = [(M.callee_str(t["f"]), [Tb.operand(a) for a in t["args"]]) for _, t in be.calls()]
    ctx.ob("R13.3", "Exec|Exec", c == [(pn.path, [("param", 1, be.local_name(1)), ("param", 2, be.local_name(2))])], be.loc(0), "Exec | Exec = Pipeline::new(self, rhs)")
    bpe = prog.one("<builder::pipeline::Pipeline as std::ops::BitOr<builder::exec::Exec>>::bitor")
    Tb = M.Terms(bpe)
    c = [(M.callee_str(t["f"]), [M.noref(Tb.operand(a)) for a in t["args"]]) for _, t in bpe.calls()]
    ok = c == [("std::vec::Vec::<T, A>::push", [("field", ("param", 1, bpe.local_name(1)), "cmds"), ("param", 2, bpe.local_name(2))])] and Tb.local(0) == ("param", 1, bpe.local_name(1))
    ctx.ob("R13.3", "Pipeline|Exec", ok, bpe.loc(0), "Pipeline | Exec = push(rhs) on self.cmds, returning self: %s" % [(n, [M.term_str(x) for x in a]) for n, a in c])
    bpp = prog.one("<builder::pipeline::Pipeline as std::ops::BitOr>::bitor")
    Tb = M.Terms(bpp)
    c = [(M.callee_str(t["f"]), [M.noref(Tb.operand(a)) for a in t["args"]]) for _, t in bpp.calls()]
    ok = c == [("<std::vec::Vec<T, A> as std::iter::Extend<T>>::extend", [("field", ("param", 1, bpp.local_name(1)), "cmds"), ("field", ("param", 2, bpp.local_name(2)), "cmds")])]
    st = stores_to_field(bpp, "stdout", "builder::pipeline::Pipeline")
    ok = ok and len(st) == 1 and M.noref(Tb.rvalue(st[0][2]["r"])) == ("field", ("param", 2, bpp.local_name(2)), "stdout") and st[0][2]["p"]["l"] == 1
    ctx.ob("R13.3", "Pipeline|Pipeline", ok, bpp.loc(0), "Pipeline | Pipeline = extend(rhs.cmds) on self.cmds and takes rhs.stdout")
    fe = prog.one("builder::pipeline::Pipeline::from_exec_iter")
    Tf = M.Terms(fe)
    ag = aggregates_of(fe, "builder::pipeline::Pipeline")
    ok = len(ag) == 1
    if ok:
        v = Tf.operand(ag[0][2]["ops"][ag[0][2]["fields"].index("cmds")])
        ok = v[0] == "call" and v[1] == "std::iter::Iterator::collect" and v[2][0][0] == "call" and v[2][0][1].endswith("into_iter") and v[2][0][2][0] == ("param", 1, fe.local_name(1))
    ctx.ob("R13.3", "from_exec_iter.order", ok, fe.loc(0), "from_exec_iter collects the iterator in iteration order")
    # "every pipeline of two or more commands": the only refusal is for fewer than two
    def _small(c):
        if c[0] != "bin":
            return False
        islen = lambda u: M.contains(u, lambda w: w[0] == "call" and w[1].endswith("::len"))
        return (c[1] == "Lt" and islen(c[2]) and const_of(c[3]) == 2) or (c[1] == "Le" and islen(c[2]) and const_of(c[3]) == 1) \
            or (c[1] == "Gt" and islen(c[3]) and const_of(c[2]) == 2) or (c[1] == "Ge" and islen(c[3]) and const_of(c[2]) == 1)
    def _big(c):
        if c[0] != "bin":
            return False
        islen = lambda u: M.contains(u, lambda w: w[0] == "call" and w[1].endswith("::len"))
        return (c[1] == "Ge" and islen(c[2]) and const_of(c[3]) == 2) or (c[1] == "Gt" and islen(c[2]) and const_of(c[3]) == 1)
    small_e = bool_edges(fe, Tf, _small, True) + bool_edges(fe, Tf, _big, False)
    pan = [(bb, t) for bb, t in fe.calls() if is_panic_call(t)]
    okp = all(dominated_by_edges(fe, bb, small_e) for bb, _ in pan)
    ctx.ob("R13.3", "from_exec_iter.accepts>=2", okp, fe.loc(pan[0][0] if pan else 0),
           "from_exec_iter may refuse (panic) only when the collection holds fewer than two commands; found %d panic site(s), guard edges %s" % (len(pan), small_e))

    # the same for every pipeline method: a length test may refuse (panic) only for fewer than two commands
    for p_, f_ in sorted(prog.fns.items()):
        if not p_.startswith("builder::pipeline::") or "{closure" in p_ or f_ is fe:
            continue
        Tl = M.Terms(f_)
        islen_ = lambda u: M.contains(u, lambda w: w[0] == "call" and w[1].endswith("Vec::<T, A>::len") and M.contains(w, lambda x: x[0] == "field" and x[2] == "cmds"))
        anylen = lambda c: c[0] == "bin" and c[1] in ("Lt", "Le", "Gt", "Ge", "Eq", "Ne") and (islen_(c[2]) or islen_(c[3])) and (const_of(c[2]) is not None or const_of(c[3]) is not None)
        guards = bool_edges(f_, Tl, anylen, True) + bool_edges(f_, Tl, anylen, False)
        if not guards:
            continue
        small = bool_edges(f_, Tl, _small, True) + bool_edges(f_, Tl, _big, False)
        for bb, t in f_.calls():
            if is_panic_call(t) and dominated_by_edges(f_, bb, guards):
                ctx.ob("R13.3", "%s.refuses-only-below-2" % p_.split("::")[-1], dominated_by_edges(f_, bb, small), f_.loc(bb),
                       "%s panics under a test on cmds.len(): the only admissible refusal is `len < 2` (a pipeline of two commands is valid)" % p_)

    # ---- R13.2 (setters) what the caller configures on the pipeline lands in the field the spawn loop reads it from -----------
    PL = "builder::pipeline::Pipeline"
    FIELDS = [f_["name"] for f_ in prog.adts[PL]["variants"][0]["fields"]]
    def setter_census(fname, allowed):
        f_ = prog.fn(PL + "::" + fname)
        if f_ is None:
            ctx.missing("R13.2", "Pipeline::" + fname)
            return None, None
        Tf_ = M.Terms(f_)
        got = {}
        for fld in FIELDS:
            for (bb, si, st_) in stores_to_field(f_, fld, PL):
                if f_.blocks[bb].get("cleanup"):
                    continue
                v = Tf_.rvalue(st_["r"]) if si != "term" else ("call", M.callee_str(st_["f"]), tuple(Tf_.operand(a) for a in st_["args"]), bb)
                got.setdefault(fld, []).append(v)
        ctx.ob("R13.2", "Pipeline::%s.touches-only-%s" % (fname, "+".join(sorted(allowed))), set(got) == set(allowed), f_.loc(0),
               "Pipeline::%s stores to %s (must be exactly %s)" % (fname, sorted(got), sorted(allowed)))
        return f_, got
    f_, got = setter_census("stdin", ["stdin", "stdin_data"])
    if f_ is not None:
        arg = lambda v: M.contains(v, lambda u: u == ("param", 2, f_.local_name(2)))
        vs = got.get("stdin", [])
        ok = len(vs) == 2 and any(arg(v) and M.contains(v, lambda u: u[0] == "downcast" and u[2] == "AsRedirection") for v in vs) \
            and any(v == ("agg", ("adt", "popen::Redirection", "Pipe"), ()) for v in vs)
        ds = got.get("stdin_data", [])
        ok = ok and len(ds) == 1 and ds[0][0] == "agg" and ds[0][1][:3] == ("adt", "std::option::Option", "Some") and arg(ds[0]) and M.contains(ds[0], lambda u: u[0] == "downcast" and u[2] == "FeedData")
        ctx.ob("R13.2", "Pipeline::stdin=redirection|Pipe+data", ok, f_.loc(0), "a Redirection is stored as is; input data sets stdin = Pipe and stdin_data = Some(data)")
    f_, got = setter_census("stdout", ["stdout"])
    if f_ is not None:
        vs = got.get("stdout", [])
        ctx.ob("R13.2", "Pipeline::stdout=arg", len(vs) == 1 and M.contains(vs[0], lambda u: u == ("param", 2, f_.local_name(2))), f_.loc(0), "self.stdout is set from the argument")
    f_, got = setter_census("stderr_to", ["stderr_file"])
    if f_ is not None:
        vs = got.get("stderr_file", [])
        ctx.ob("R13.2", "Pipeline::stderr_to=Some(file)", len(vs) == 1 and vs[0] == ("agg", ("adt", "std::option::Option", "Some"), (("param", 2, f_.local_name(2)),)), f_.loc(0), "self.stderr_file = Some(file)")

    # ---- R13.4 status of the last stage; single spawn path -------------------------------
    pj = prog.one("builder::pipeline::Pipeline::join")
    Tj = M.Terms(pj)
    wc = pj.calls_to(lambda f: M.callee_str(f) == "popen::Popen::wait")
    ok = len(wc) == 1
    if ok:
        recv = M.strip(Tj.operand(wc[0][1]["args"][0]))
        ok = recv[0] == "call" and recv[1].endswith("::last_mut") and M.contains(recv, lambda u: u[0] == "call" and u[1] in (PP, PPUB))
        rets = [a for a in M.alts(Tj.local(0)) if not (a[0] == "call" and "FromResidual" in a[1])]
        ok = ok and rets == [("call", "popen::Popen::wait", (Tj.operand(wc[0][1]["args"][0]),), wc[0][0])]
    ctx.ob("R13.4", "join=wait(last)", ok, pj.loc(0), "Pipeline::join returns wait() of the last started command")
    pcap = prog.one("builder::pipeline::Pipeline::capture")
    Tc = M.Terms(pcap)
    wc = pcap.calls_to(lambda f: M.callee_str(f) == "popen::Popen::wait")
    ok = len(wc) == 1
    if ok:
        recv = M.noref(M.strip(Tc.operand(wc[0][1]["args"][0])))
        vec = ("field", ("field", ("downcast", ("call",), "x"), "0"), "1")
        ok = recv[0] == "call" and "index" in recv[1].lower()
        if not ok and recv[0] == "call" and (recv[1].endswith("::last_mut") or recv[1].endswith("::last")):
            # v.last_mut().unwrap(): the last of the started stages all the same
            ok = M.contains(recv, lambda u: u[0] == "call" and u[1] == "builder::pipeline::Pipeline::setup_communicate")
        elif ok:
            i = recv[2][1]
            i = i[1] if i[0] == "field" else i
            ok = i[0] == "bin" and i[1] in ("Sub", "SubWithOverflow") and const_of(i[3]) == 1 and i[2][0] == "call" and i[2][1] == "std::vec::Vec::<T, A>::len" and M.noref(i[2][2][0]) == M.noref(recv[2][0])
    ctx.ob("R13.4", "capture=wait(v[len-1])", ok, pcap.loc(0), "Pipeline::capture takes the exit status of v[len - 1]")
    for (bb, si, v, r) in result_variants(pcap, M.Explore(pcap)):
        if v == "Ok":
            cd = Tc.operand(r["ops"][0])
            if cd[0] == "agg" and cd[1][:2] == ("adt", "builder::exec::CaptureData"):
                es = cd[2][2]
                ctx.ob("R13.4", "capture.exit_status<-that-wait", M.contains(es, lambda u: u[0] == "call" and u[1] == "popen::Popen::wait"), pcap.loc(bb, si), "CaptureData.exit_status = %s" % M.term_str(es)[:100])
    callers = sorted({f.path for f, _, _ in callers_of(prog, "builder::exec::Exec::popen") if f.path.startswith("builder::pipeline")})
    ctx.ob("R13.4", "spawn-only-in-Pipeline::popen", callers == [PP], pp.loc(0), "pipeline code calls Exec::popen from %s (must be the one spawn-loop function)" % callers)
    cr = sorted({f.path for f, _, _ in callers_of(prog, "popen::Popen::create") if f.path.startswith("builder::pipeline")})
    ctx.ob("R13.4", "no-direct-create", not cr, "", "pipeline code calls Popen::create directly from %s" % cr)
    for term in ("join", "capture", "communicate", "stream_stdout", "stream_stdin"):
        f = prog.fn("builder::pipeline::Pipeline::" + term)
        if f is None:
            ctx.missing("R13.4", "Pipeline::" + term)
            continue
        ctx.ob("R13.4", "%s-via-popen" % term, PP in M.local_closure(prog, [f.path]), f.loc(0), "Pipeline::%s starts the stages through Pipeline::popen" % term)

    # join / capture return only after *all* commands have exited: the remaining Popens are waited for when the vector
    # is dropped, which requires that these terminators never detach what they start
    for meth in ("builder::pipeline::Pipeline::join", "builder::pipeline::Pipeline::capture"):
        f_ = prog.fns[meth]
        det = [p_ for p_ in M.local_closure(prog, [meth]) if p_ in ("builder::exec::Exec::detached", "popen::Popen::detach")]
        ctx.ob("R13.4", "%s.waits-for-all-stages" % meth.split("::")[-1], not det, f_.loc(0),
               "Pipeline::%s must leave the stages non-detached (reaches %s): only then does dropping the Vec<Popen> wait for every command before the call returns" % (meth.split("::")[-1], det))

    # ---- R13.5 what the communicator gets ----------------------------------------------------
    sc = prog.one("builder::pipeline::Pipeline::setup_communicate")
    Ts = M.Terms(sc)
    cc = sc.calls_to(lambda f: M.callee_str(f) == "communicate::communicate")
    ok = len(cc) == 1
    detail = ""
    if ok:
        a = [Ts.operand(x) for x in cc[0][1]["args"]]
        vterm = None

        def is_started(v):
            """the vector of started stages: start()'s Ok payload"""
            return M.contains(v, lambda u: u[0] == "call" and u[1] == "builder::pipeline::Pipeline::start")

        def seq(v):
            """which part of the started-stages vector a slice term denotes: 'all', 'tail' (all but the first), 'init' (all but the last)"""
            v = M.noref(v)
            while v[0] == "call" and (v[1].endswith("::deref_mut") or v[1].endswith("::deref") or v[1].endswith("as_mut_slice") or v[1].endswith("as_mut")):
                v = M.noref(v[2][0])
            if v[0] == "field" and v[2] in ("0", "1") and v[1][0] == "call" and v[1][1].endswith("::unwrap"):
                c_ = M.noref(v[1][2][0])
                if c_[0] == "call" and c_[1].endswith("::split_first_mut") and v[2] == "1" and seq(c_[2][0]) == "all":
                    return "tail"
                if c_[0] == "call" and c_[1].endswith("::split_last_mut") and v[2] == "1" and seq(c_[2][0]) == "all":
                    return "init"
                return None
            if v[0] == "field" and v[1][0] == "downcast" and v[1][2] == "Ok" and is_started(v):
                return "all"
            if v[0] == "call" and v[1].endswith("::unwrap") and is_started(v) and not M.contains(v, lambda u: u[0] == "call" and "split_" in u[1]):
                return "all"
            return None

        def which(e):
            """'first' / 'last': which started stage the element term e denotes (a pipeline has at least two stages, so the last of the
            tail and the first of the init are the last and the first of the whole)"""
            e = M.noref(e)
            if e[0] == "call" and "index" in e[1].lower():
                if const_of(e[2][1]) == 0:
                    return "first"
                i = e[2][1]
                i = i[1] if i[0] == "field" else i
                if i[0] == "bin" and i[1] in ("Sub", "SubWithOverflow") and const_of(i[3]) == 1 and M.contains(i[2], lambda u: u[0] == "call" and u[1] == "std::vec::Vec::<T, A>::len"):
                    return "last"
                return None
            if e[0] == "call" and e[1].endswith("::unwrap"):
                c_ = M.noref(e[2][0])
                if c_[0] == "call" and c_[1].endswith("::first_mut") and seq(c_[2][0]) in ("all", "init"):
                    return "first"
                if c_[0] == "call" and c_[1].endswith("::last_mut") and seq(c_[2][0]) in ("all", "tail"):
                    return "last"
                return None
            if e[0] == "field" and e[2] == "0" and e[1][0] == "call" and e[1][1].endswith("::unwrap"):
                c_ = M.noref(e[1][2][0])
                if c_[0] == "call" and c_[1].endswith("::split_first_mut") and seq(c_[2][0]) == "all":
                    return "first"
                if c_[0] == "call" and c_[1].endswith("::split_last_mut") and seq(c_[2][0]) == "all":
                    return "last"
            return None

        def sel(t, field):
            if not (t[0] == "call" and t[1] == "std::option::Option::<T>::take"):
                return None
            s = M.noref(t[2][0])
            if not (s[0] == "field" and s[2] == field):
                return None
            return which(s[1])
        s0, s1 = sel(a[0], "stdin"), sel(a[1], "stdout")
        e2 = a[2][0] == "agg" and a[2][1][:3] == ("adt", "std::option::Option", "Some") and a[2][2][0][0] == "field" and a[2][2][0][2] == "0" and M.strip(a[2][2][0][1])[:2] == ("call", "popen::os::make_pipe")
        wr = sc.calls_to(lambda f: M.callee_str(f) == "builder::pipeline::Pipeline::stderr_to")
        e3 = len(wr) == 1 and Ts.operand(wr[0][1]["args"][1])[0] == "field" and Ts.operand(wr[0][1]["args"][1])[2] == "1" and M.strip(Ts.operand(wr[0][1]["args"][1])[1])[:2] == ("call", "popen::os::make_pipe")
        ok = (s0, s1) == ("first", "last") and e2 and e3
        detail = "stdin from %s, stdout from %s, stderr = read end of the shared pipe: %s, write end -> stderr_to: %s" % (s0, s1, e2, e3)
    ctx.ob("R13.5", "communicator=(first.stdin,last.stdout,err_read)", ok, sc.loc(cc[0][0] if cc else 0), detail)
