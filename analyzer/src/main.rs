//! spa — fact extractor for the static analysis of hniksic/rust-subprocess.
//!
//! A rustc_private driver injected with RUSTC_WORKSPACE_WRAPPER.  For the crate
//! `subprocess` it dumps, as one JSON document (one write per process):
//!   * every local MIR body (functions, methods, closures) in a normalised form with
//!     resolved callees, evaluated constants, field/variant names and source lines;
//!   * the local ADTs (fields, visibility) and impls (trait, self type, items);
//!   * optionally (SPA_DEEP=1) the monomorphic whole-program instance graph
//!     (calls, drop glue, vtable methods on unsize casts, reified fn pointers)
//!     rooted at every non-generic local function, down to extern leaves.
//! The rules themselves live in /verif/rules (python) and run on this document.
#![feature(rustc_private)]
extern crate rustc_abi;
extern crate rustc_driver;
extern crate rustc_hir;
extern crate rustc_interface;
extern crate rustc_middle;
extern crate rustc_span;

mod graph;
mod json;

use json::J;
use rustc_driver::Compilation;
use rustc_hir::def::DefKind;
use rustc_middle::mir::{
    self, AggregateKind, BinOp, BorrowKind, CastKind, Operand, Place, ProjectionElem, Rvalue,
    StatementKind, TerminatorKind, UnwindAction,
};
use rustc_middle::ty::adjustment::PointerCoercion;
use rustc_middle::ty::{self, Instance, Ty, TyCtxt, TypingEnv};
use rustc_span::def_id::{DefId, LOCAL_CRATE};
use rustc_span::Span;

struct Cb;

pub fn line_of(tcx: TyCtxt<'_>, sp: Span) -> (String, usize) {
    let sm = tcx.sess.source_map();
    // use the call-site of macro expansions so that lines refer to the crate's own text
    let sp = sp.source_callsite();
    let lo = sm.lookup_char_pos(sp.lo());
    let name = format!("{}", lo.file.name.prefer_local_unconditionally());
    (name, lo.line)
}

struct BodyCx<'a, 'tcx> {
    tcx: TyCtxt<'tcx>,
    body: &'a mir::Body<'tcx>,
    env: TypingEnv<'tcx>,
}

fn ty_s(t: Ty<'_>) -> String {
    format!("{:?}", t)
}

impl<'a, 'tcx> BodyCx<'a, 'tcx> {
    fn place(&self, p: &Place<'tcx>) -> J {
        let tcx = self.tcx;
        let mut pty = mir::PlaceTy::from_ty(self.body.local_decls[p.local].ty);
        let mut proj = vec![];
        for elem in p.projection.iter() {
            let j = match elem {
                ProjectionElem::Deref => J::Obj(vec![("k", J::s("deref"))]),
                ProjectionElem::Field(f, fty) => {
                    let mut name = format!("{}", f.index());
                    let mut of = ty_s(pty.ty);
                    match pty.ty.kind() {
                        ty::Adt(adt, _) => {
                            let v = if adt.is_enum() {
                                pty.variant_index.map(|vi| adt.variant(vi))
                            } else {
                                Some(adt.non_enum_variant())
                            };
                            if let Some(v) = v {
                                name = v.fields[f].name.to_string();
                            }
                            of = tcx.def_path_str(adt.did());
                        }
                        _ => {}
                    }
                    J::Obj(vec![
                        ("k", J::s("field")),
                        ("i", J::Int(f.index() as i128)),
                        ("name", J::s(name)),
                        ("of", J::s(of)),
                        ("ty", J::s(ty_s(fty))),
                    ])
                }
                ProjectionElem::Index(l) => {
                    J::Obj(vec![("k", J::s("index")), ("l", J::Int(l.index() as i128))])
                }
                ProjectionElem::ConstantIndex { offset, min_length, from_end } => J::Obj(vec![
                    ("k", J::s("cidx")),
                    ("off", J::Int(offset as i128)),
                    ("min", J::Int(min_length as i128)),
                    ("from_end", J::Bool(from_end)),
                ]),
                ProjectionElem::Subslice { from, to, from_end } => J::Obj(vec![
                    ("k", J::s("subslice")),
                    ("from", J::Int(from as i128)),
                    ("to", J::Int(to as i128)),
                    ("from_end", J::Bool(from_end)),
                ]),
                ProjectionElem::Downcast(name, vi) => {
                    let mut n = name.map(|s| s.to_string()).unwrap_or_default();
                    if n.is_empty() {
                        if let ty::Adt(adt, _) = pty.ty.kind() {
                            n = adt.variant(vi).name.to_string();
                        }
                    }
                    J::Obj(vec![
                        ("k", J::s("downcast")),
                        ("v", J::Int(vi.index() as i128)),
                        ("name", J::s(n)),
                    ])
                }
                ProjectionElem::OpaqueCast(_) => J::Obj(vec![("k", J::s("opaque"))]),
                ProjectionElem::UnwrapUnsafeBinder(_) => J::Obj(vec![("k", J::s("unwrapbinder"))]),
            };
            proj.push(j);
            pty = pty.projection_ty(tcx, elem);
        }
        J::Obj(vec![
            ("l", J::Int(p.local.index() as i128)),
            ("proj", J::Arr(proj)),
            ("ty", J::s(ty_s(pty.ty))),
        ])
    }

    fn fn_ref(&self, def: DefId, args: ty::GenericArgsRef<'tcx>) -> J {
        let tcx = self.tcx;
        let mut v = vec![
            ("path", J::s(tcx.def_path_str(def))),
            ("full", J::s(tcx.def_path_str_with_args(def, args))),
            ("krate", J::s(tcx.crate_name(def.krate).to_string())),
            ("local", J::Bool(def.is_local())),
            ("foreign", J::Bool(tcx.is_foreign_item(def))),
            ("gargs", J::Arr(args.iter().map(|a| J::s(format!("{:?}", a))).collect())),
        ];
        // resolve trait methods / closures where the body's own typing environment allows it
        let res = std::panic::catch_unwind(std::panic::AssertUnwindSafe(|| {
            Instance::try_resolve(tcx, self.env, def, args)
        }));
        if let Ok(Ok(Some(inst))) = res {
            let rd = inst.def_id();
            v.push(("rpath", J::s(tcx.def_path_str(rd))));
            v.push(("rfull", J::s(tcx.def_path_str_with_args(rd, inst.args))));
            v.push(("rlocal", J::Bool(rd.is_local())));
            v.push(("rkrate", J::s(tcx.crate_name(rd.krate).to_string())));
            v.push(("rforeign", J::Bool(tcx.is_foreign_item(rd))));
            v.push(("rkind", J::s(graph::inst_kind(&inst))));
        }
        J::Obj(v)
    }

    fn constant(&self, c: &mir::ConstOperand<'tcx>) -> J {
        let tcx = self.tcx;
        let ty = c.const_.ty();
        let mut v = vec![("k", J::s("const")), ("ty", J::s(ty_s(ty)))];
        if let ty::FnDef(def, args) = ty.kind() {
            v.push(("fn", self.fn_ref(*def, args)));
            return J::Obj(v);
        }
        if let mir::Const::Unevaluated(uv, _) = c.const_ {
            v.push(("name", J::s(tcx.def_path_str(uv.def))));
            if let Some(p) = uv.promoted {
                v.push(("promoted", J::Int(p.index() as i128)));
            }
        }
        v.push(("dbg", J::s(format!("{}", c.const_))));
        let evaluated = std::panic::catch_unwind(std::panic::AssertUnwindSafe(|| {
            c.const_.eval(tcx, self.env, c.span)
        }));
        if let Ok(Ok(val)) = evaluated {
            match val {
                mir::ConstValue::Scalar(s) => {
                    // `&[u8; N]` literals (b"...") are pointers into a constant allocation
                    if let (ty::Ref(_, inner, _), rustc_middle::mir::interpret::Scalar::Ptr(ptr, _)) = (ty.kind(), s) {
                        if let ty::Array(elem, len) = inner.kind() {
                            if *elem == tcx.types.u8 {
                                if let Some(n) = len.try_to_target_usize(tcx) {
                                    let (prov, off) = ptr.prov_and_relative_offset();
                                    if let Some(rustc_middle::mir::interpret::GlobalAlloc::Memory(alloc)) = tcx.try_get_global_alloc(prov.alloc_id()) {
                                        let a = alloc.inner();
                                        let lo = off.bytes() as usize;
                                        let hi = lo + n as usize;
                                        if hi <= a.len() {
                                            let bytes = a.inspect_with_uninit_and_ptr_outside_interpreter(lo..hi);
                                            v.push(("bytes", J::Arr(bytes.iter().map(|b| J::Int(*b as i128)).collect())));
                                        }
                                    }
                                }
                            }
                        }
                    }
                    if let Ok(si) = s.try_to_scalar_int() {
                        let bits = si.to_bits(si.size());
                        let signed = matches!(ty.kind(), ty::Int(_));
                        let val: i128 = if signed {
                            si.to_int(si.size())
                        } else if bits <= i128::MAX as u128 {
                            bits as i128
                        } else {
                            -1
                        };
                        v.push(("int", J::Int(val)));
                        v.push(("size", J::Int(si.size().bytes() as i128)));
                    }
                }
                mir::ConstValue::ZeroSized => v.push(("zst", J::Bool(true))),
                mir::ConstValue::Slice { .. } | mir::ConstValue::Indirect { .. } => {
                    let is_slice_ref = match ty.kind() {
                        ty::Ref(_, inner, _) => {
                            matches!(inner.kind(), ty::Str)
                                || matches!(inner.kind(), ty::Slice(e) if *e == tcx.types.u8)
                        }
                        _ => false,
                    };
                    if is_slice_ref {
                        if let Some(bytes) = val.try_get_slice_bytes_for_diagnostics(tcx) {
                            v.push((
                                "bytes",
                                J::Arr(bytes.iter().map(|b| J::Int(*b as i128)).collect()),
                            ));
                            if let Ok(s) = std::str::from_utf8(bytes) {
                                v.push(("str", J::s(s)));
                            }
                        }
                    }
                }
            }
        }
        J::Obj(v)
    }

    fn operand(&self, o: &Operand<'tcx>) -> J {
        match o {
            Operand::Copy(p) => J::Obj(vec![("k", J::s("copy")), ("p", self.place(p))]),
            Operand::Move(p) => J::Obj(vec![("k", J::s("move")), ("p", self.place(p))]),
            Operand::Constant(c) => self.constant(c),
            #[allow(unreachable_patterns)]
            _ => J::Obj(vec![("k", J::s("otherop")), ("dbg", J::s(format!("{:?}", o)))]),
        }
    }

    fn rvalue(&self, r: &Rvalue<'tcx>) -> J {
        let tcx = self.tcx;
        match r {
            Rvalue::Use(op, ..) => J::Obj(vec![("k", J::s("use")), ("op", self.operand(op))]),
            Rvalue::Repeat(op, n) => J::Obj(vec![
                ("k", J::s("repeat")),
                ("op", self.operand(op)),
                ("n", J::s(format!("{}", n))),
            ]),
            Rvalue::Ref(_, bk, p) => J::Obj(vec![
                ("k", J::s("ref")),
                ("mut", J::Bool(matches!(bk, BorrowKind::Mut { .. }))),
                ("p", self.place(p)),
            ]),
            Rvalue::RawPtr(kind, p) => J::Obj(vec![
                ("k", J::s("rawptr")),
                ("kind", J::s(format!("{:?}", kind))),
                ("p", self.place(p)),
            ]),
            Rvalue::Cast(kind, op, ty) => {
                let ks = match kind {
                    CastKind::PointerCoercion(PointerCoercion::Unsize, _) => "Unsize".to_string(),
                    CastKind::PointerCoercion(PointerCoercion::ReifyFnPointer(_), _) => {
                        "ReifyFnPointer".to_string()
                    }
                    CastKind::PointerCoercion(pc, _) => format!("{:?}", pc),
                    k => format!("{:?}", k),
                };
                J::Obj(vec![
                    ("k", J::s("cast")),
                    ("kind", J::s(ks)),
                    ("op", self.operand(op)),
                    ("from", J::s(ty_s(op.ty(self.body, tcx)))),
                    ("ty", J::s(ty_s(*ty))),
                ])
            }
            Rvalue::BinaryOp(op, ab) => {
                let (a, b) = &**ab;
                let name = match op {
                    BinOp::AddWithOverflow => "AddWithOverflow".into(),
                    BinOp::SubWithOverflow => "SubWithOverflow".into(),
                    BinOp::MulWithOverflow => "MulWithOverflow".into(),
                    o => format!("{:?}", o),
                };
                J::Obj(vec![
                    ("k", J::s("bin")),
                    ("op", J::s(name)),
                    ("a", self.operand(a)),
                    ("b", self.operand(b)),
                ])
            }
            Rvalue::UnaryOp(op, a) => J::Obj(vec![
                ("k", J::s("un")),
                ("op", J::s(format!("{:?}", op))),
                ("a", self.operand(a)),
            ]),
            Rvalue::Discriminant(p) => J::Obj(vec![("k", J::s("discr")), ("p", self.place(p))]),
            Rvalue::Aggregate(kind, ops) => {
                let mut v = vec![("k", J::s("agg"))];
                match &**kind {
                    AggregateKind::Array(t) => {
                        v.push(("kind", J::s("array")));
                        v.push(("elem", J::s(ty_s(*t))));
                    }
                    AggregateKind::Tuple => v.push(("kind", J::s("tuple"))),
                    AggregateKind::Adt(did, vi, _, _, active) => {
                        let adt = tcx.adt_def(*did);
                        let var = adt.variant(*vi);
                        v.push(("kind", J::s("adt")));
                        v.push(("adt", J::s(tcx.def_path_str(*did))));
                        v.push(("variant", J::s(var.name.to_string())));
                        v.push(("vidx", J::Int(vi.index() as i128)));
                        v.push((
                            "fields",
                            J::Arr(var.fields.iter().map(|f| J::s(f.name.to_string())).collect()),
                        ));
                        if let Some(a) = active {
                            v.push(("active", J::Int(a.index() as i128)));
                        }
                    }
                    AggregateKind::Closure(did, _) => {
                        v.push(("kind", J::s("closure")));
                        v.push(("closure", J::s(tcx.def_path_str(*did))));
                    }
                    AggregateKind::RawPtr(..) => v.push(("kind", J::s("rawptr"))),
                    _ => v.push(("kind", J::s("other"))),
                }
                v.push(("ops", J::Arr(ops.iter().map(|o| self.operand(o)).collect())));
                J::Obj(v)
            }
            Rvalue::CopyForDeref(p) => {
                J::Obj(vec![("k", J::s("use")), ("op", J::Obj(vec![("k", J::s("copy")), ("p", self.place(p))]))])
            }
            Rvalue::ThreadLocalRef(d) => {
                J::Obj(vec![("k", J::s("tlsref")), ("def", J::s(tcx.def_path_str(*d)))])
            }
            other => J::Obj(vec![("k", J::s("other")), ("dbg", J::s(format!("{:?}", other)))]),
        }
    }

    fn unwind(&self, u: &UnwindAction) -> J {
        match u {
            UnwindAction::Cleanup(b) => J::Int(b.index() as i128),
            _ => J::Null,
        }
    }

    fn dump(&self) -> J {
        let tcx = self.tcx;
        let body = self.body;
        let mut names: Vec<Option<String>> = vec![None; body.local_decls.len()];
        for vdi in &body.var_debug_info {
            if let mir::VarDebugInfoContents::Place(p) = &vdi.value {
                if p.projection.is_empty() {
                    names[p.local.index()] = Some(vdi.name.to_string());
                }
            }
        }
        let locals: Vec<J> = body
            .local_decls
            .iter_enumerated()
            .map(|(l, d)| {
                J::Obj(vec![
                    ("ty", J::s(ty_s(d.ty))),
                    (
                        "name",
                        match &names[l.index()] {
                            Some(n) => J::s(n.clone()),
                            None => J::Null,
                        },
                    ),
                    ("mut", J::Bool(d.mutability.is_mut())),
                ])
            })
            .collect();
        // upvar debug names (closures): name -> projection from _1
        let mut upvars = vec![];
        for vdi in &body.var_debug_info {
            if let mir::VarDebugInfoContents::Place(p) = &vdi.value {
                if !p.projection.is_empty() {
                    upvars.push(J::Obj(vec![("name", J::s(vdi.name.to_string())), ("p", self.place(p))]));
                }
            }
        }
        let mut blocks = vec![];
        for (_bb, data) in body.basic_blocks.iter_enumerated() {
            let mut stmts = vec![];
            for st in &data.statements {
                let (_, ln) = line_of(tcx, st.source_info.span);
                match &st.kind {
                    StatementKind::Assign(b) => {
                        let (p, r) = &**b;
                        stmts.push(J::Obj(vec![
                            ("k", J::s("assign")),
                            ("p", self.place(p)),
                            ("r", self.rvalue(r)),
                            ("ln", J::Int(ln as i128)),
                        ]));
                    }
                    StatementKind::SetDiscriminant { place, variant_index } => {
                        stmts.push(J::Obj(vec![
                            ("k", J::s("setdiscr")),
                            ("p", self.place(place)),
                            ("v", J::Int(variant_index.index() as i128)),
                            ("ln", J::Int(ln as i128)),
                        ]));
                    }
                    StatementKind::Intrinsic(i) => {
                        stmts.push(J::Obj(vec![
                            ("k", J::s("intrinsic")),
                            ("dbg", J::s(format!("{:?}", i))),
                            ("ln", J::Int(ln as i128)),
                        ]));
                    }
                    _ => {}
                }
            }
            let term = data.terminator();
            let (_, ln) = line_of(tcx, term.source_info.span);
            let exp = term.source_info.span.from_expansion();
            let mut t = match &term.kind {
                TerminatorKind::Goto { target } => {
                    vec![("k", J::s("goto")), ("t", J::Int(target.index() as i128))]
                }
                TerminatorKind::SwitchInt { discr, targets } => {
                    let tg: Vec<J> = targets
                        .iter()
                        .map(|(v, b)| {
                            let vv = if v <= i128::MAX as u128 { v as i128 } else { -1 };
                            J::Arr(vec![J::Int(vv), J::Int(b.index() as i128)])
                        })
                        .collect();
                    vec![
                        ("k", J::s("switch")),
                        ("d", self.operand(discr)),
                        ("dty", J::s(ty_s(discr.ty(body, tcx)))),
                        ("targets", J::Arr(tg)),
                        ("otherwise", J::Int(targets.otherwise().index() as i128)),
                    ]
                }
                TerminatorKind::Return => vec![("k", J::s("return"))],
                TerminatorKind::Unreachable => vec![("k", J::s("unreachable"))],
                TerminatorKind::UnwindResume => vec![("k", J::s("resume"))],
                TerminatorKind::UnwindTerminate(_) => vec![("k", J::s("terminate"))],
                TerminatorKind::Drop { place, target, unwind, .. } => vec![
                    ("k", J::s("drop")),
                    ("p", self.place(place)),
                    ("t", J::Int(target.index() as i128)),
                    ("unwind", self.unwind(unwind)),
                ],
                TerminatorKind::Call { func, args, destination, target, unwind, .. } => {
                    let f = match func {
                        Operand::Constant(c) => match c.const_.ty().kind() {
                            ty::FnDef(def, ga) => self.fn_ref(*def, ga),
                            _ => J::Obj(vec![("indirect", self.operand(func))]),
                        },
                        _ => J::Obj(vec![("indirect", self.operand(func))]),
                    };
                    vec![
                        ("k", J::s("call")),
                        ("f", f),
                        ("args", J::Arr(args.iter().map(|a| self.operand(&a.node)).collect())),
                        ("dest", self.place(destination)),
                        ("t", J::opt_int(target.map(|b| b.index()))),
                        ("unwind", self.unwind(unwind)),
                    ]
                }
                TerminatorKind::TailCall { func, args, .. } => {
                    let f = match func {
                        Operand::Constant(c) => match c.const_.ty().kind() {
                            ty::FnDef(def, ga) => self.fn_ref(*def, ga),
                            _ => J::Obj(vec![("indirect", self.operand(func))]),
                        },
                        _ => J::Obj(vec![("indirect", self.operand(func))]),
                    };
                    vec![
                        ("k", J::s("tailcall")),
                        ("f", f),
                        ("args", J::Arr(args.iter().map(|a| self.operand(&a.node)).collect())),
                    ]
                }
                TerminatorKind::Assert { cond, expected, target, unwind, msg } => vec![
                    ("k", J::s("assert")),
                    ("cond", self.operand(cond)),
                    ("expected", J::Bool(*expected)),
                    ("t", J::Int(target.index() as i128)),
                    ("unwind", self.unwind(unwind)),
                    ("msg", J::s(format!("{:?}", msg).chars().take(60).collect::<String>())),
                ],
                TerminatorKind::FalseEdge { real_target, .. } => {
                    vec![("k", J::s("goto")), ("t", J::Int(real_target.index() as i128))]
                }
                TerminatorKind::FalseUnwind { real_target, .. } => {
                    vec![("k", J::s("goto")), ("t", J::Int(real_target.index() as i128))]
                }
                other => vec![("k", J::s("other")), ("dbg", J::s(format!("{:?}", other)))],
            };
            t.push(("ln", J::Int(ln as i128)));
            t.push(("exp", J::Bool(exp)));
            blocks.push(J::Obj(vec![
                ("cleanup", J::Bool(data.is_cleanup)),
                ("stmts", J::Arr(stmts)),
                ("term", J::Obj(t)),
            ]));
        }
        J::Obj(vec![
            ("arg_count", J::Int(body.arg_count as i128)),
            ("locals", J::Arr(locals)),
            ("upvars", J::Arr(upvars)),
            ("blocks", J::Arr(blocks)),
        ])
    }
}

fn const_value_json<'tcx>(tcx: TyCtxt<'tcx>, val: mir::ConstValue, ty: Ty<'tcx>, depth: usize) -> J {
    if depth > 4 {
        return J::Null;
    }
    match ty.kind() {
        ty::Int(_) | ty::Uint(_) | ty::Bool | ty::Char => {
            if let Some(si) = val.try_to_scalar_int() {
                let signed = matches!(ty.kind(), ty::Int(_));
                let v: i128 = if signed { si.to_int(si.size()) } else { si.to_bits(si.size()) as i128 };
                return J::Int(v);
            }
            J::Null
        }
        ty::Ref(_, inner, _) if matches!(inner.kind(), ty::Str) => {
            if let mir::ConstValue::Slice { .. } | mir::ConstValue::Indirect { .. } = val {
                if let Some(b) = val.try_get_slice_bytes_for_diagnostics(tcx) {
                    return J::s(String::from_utf8_lossy(b).to_string());
                }
            }
            J::Null
        }
        ty::Array(..) | ty::Tuple(..) => {
            let d = std::panic::catch_unwind(std::panic::AssertUnwindSafe(|| {
                tcx.try_destructure_mir_constant_for_user_output(val, ty)
            }));
            if let Ok(Some(d)) = d {
                return J::Arr(d.fields.iter().map(|(v, t)| const_value_json(tcx, *v, *t, depth + 1)).collect());
            }
            J::Null
        }
        ty::Pat(inner, _) => const_value_json(tcx, val, *inner, depth + 1),
        ty::Adt(def, _) if def.is_struct() || def.is_enum() => {
            // plain-data structs (Duration { secs, nanos }, newtypes): {"adt": path, "variant": index, "fields": [...]}
            let d = std::panic::catch_unwind(std::panic::AssertUnwindSafe(|| {
                tcx.try_destructure_mir_constant_for_user_output(val, ty)
            }));
            if let Ok(Some(d)) = d {
                let variant = d.variant.map(|v| v.as_u32() as i128).unwrap_or(0);
                return J::Obj(vec![
                    ("adt", J::s(tcx.def_path_str(def.did()))),
                    ("variant", J::Int(variant)),
                    ("fields", J::Arr(d.fields.iter().map(|(v, t)| const_value_json(tcx, *v, *t, depth + 1)).collect())),
                ]);
            }
            J::Null
        }
        _ => J::Null,
    }
}

fn vis_s(tcx: TyCtxt<'_>, did: DefId) -> String {
    match tcx.visibility(did) {
        ty::Visibility::Public => "pub".into(),
        ty::Visibility::Restricted(m) => format!("restricted:{}", tcx.def_path_str(m)),
    }
}

fn dump_crate<'tcx>(tcx: TyCtxt<'tcx>) -> Vec<(&'static str, J)> {
    let mut fns = vec![];
    for ldid in tcx.hir_body_owners() {
        let did = ldid.to_def_id();
        let kind = tcx.def_kind(did);
        let is_fn = matches!(kind, DefKind::Fn | DefKind::AssocFn);
        let is_closure = matches!(kind, DefKind::Closure);
        if !is_fn && !is_closure {
            continue;
        }
        if !tcx.is_mir_available(did) {
            continue;
        }
        let body = tcx.optimized_mir(did);
        let env = TypingEnv::post_analysis(tcx, did);
        let cx = BodyCx { tcx, body, env };
        let (file, line) = line_of(tcx, body.span);
        let sm = tcx.sess.source_map();
        let line_hi = sm.lookup_char_pos(body.span.hi()).line;
        let mut v = vec![
            ("path", J::s(tcx.def_path_str(did))),
            ("kind", J::s(format!("{:?}", kind))),
            ("file", J::s(file)),
            ("line", J::Int(line as i128)),
            ("line_hi", J::Int(line_hi as i128)),
            ("is_closure", J::Bool(is_closure)),
            ("generic", J::Bool(tcx.generics_of(did).requires_monomorphization(tcx))),
        ];
        if is_fn {
            v.push(("vis", J::s(vis_s(tcx, did))));
            let sig = tcx.fn_sig(did).instantiate_identity().skip_norm_wip().skip_binder();
            v.push(("inputs", J::Arr(sig.inputs().iter().map(|t| J::s(ty_s(*t))).collect())));
            v.push(("output", J::s(ty_s(sig.output()))));
            if let Some(assoc) = tcx.opt_associated_item(did) {
                v.push(("has_self", J::Bool(assoc.is_method())));
                let container = assoc.container_id(tcx);
                v.push(("container", J::s(tcx.def_path_str(container))));
                if matches!(tcx.def_kind(container), DefKind::Impl { .. }) {
                    let self_ty = tcx.type_of(container).instantiate_identity().skip_norm_wip();
                    v.push(("impl_self", J::s(ty_s(self_ty))));
                    if let Some(tr) = tcx.impl_opt_trait_ref(container) {
                        let tr = tr.instantiate_identity().skip_norm_wip();
                        v.push(("impl_trait", J::s(tcx.def_path_str(tr.def_id))));
                        v.push(("impl_trait_full", J::s(format!("{:?}", tr))));
                    }
                }
            }
        } else {
            v.push(("parent", J::s(tcx.def_path_str(tcx.typeck_root_def_id(did)))));
        }
        v.push(("body", cx.dump()));
        // promoted constants of this body (e.g. `&SHELL[1..]` promotes a copy of SHELL)
        let promoted = tcx.promoted_mir(did);
        let mut pv = vec![];
        for pb in promoted.iter() {
            let pcx = BodyCx { tcx, body: pb, env };
            pv.push(pcx.dump());
        }
        v.push(("promoted", J::Arr(pv)));
        fns.push(J::Obj(v));
    }

    // ADTs and impls
    let mut adts = vec![];
    let mut impls = vec![];
    for ldid in tcx.hir_crate_items(()).definitions() {
        let did = ldid.to_def_id();
        match tcx.def_kind(did) {
            DefKind::Struct | DefKind::Enum | DefKind::Union => {
                let adt = tcx.adt_def(did);
                let mut variants = vec![];
                let discrs: Vec<i128> = if adt.is_enum() {
                    adt.discriminants(tcx).map(|(_, d)| d.val as i128).collect()
                } else {
                    vec![0]
                };
                for (vi, var) in adt.variants().iter().enumerate() {
                    let fields: Vec<J> = var
                        .fields
                        .iter()
                        .map(|f| {
                            J::Obj(vec![
                                ("name", J::s(f.name.to_string())),
                                ("ty", J::s(ty_s(tcx.type_of(f.did).instantiate_identity().skip_norm_wip()))),
                                ("vis", J::s(match f.vis {
                                    ty::Visibility::Public => "pub".to_string(),
                                    ty::Visibility::Restricted(m) => format!("restricted:{}", tcx.def_path_str(m)),
                                })),
                            ])
                        })
                        .collect();
                    variants.push(J::Obj(vec![
                        ("name", J::s(var.name.to_string())),
                        ("discr", J::Int(discrs.get(vi).copied().unwrap_or(-1))),
                        ("fields", J::Arr(fields)),
                    ]));
                }
                let (file, line) = line_of(tcx, tcx.def_span(did));
                adts.push(J::Obj(vec![
                    ("path", J::s(tcx.def_path_str(did))),
                    ("kind", J::s(format!("{:?}", tcx.def_kind(did)))),
                    ("vis", J::s(vis_s(tcx, did))),
                    ("file", J::s(file)),
                    ("line", J::Int(line as i128)),
                    ("variants", J::Arr(variants)),
                ]));
            }
            DefKind::Impl { .. } => {
                let self_ty = tcx.type_of(did).instantiate_identity().skip_norm_wip();
                let mut v = vec![("self_ty", J::s(ty_s(self_ty)))];
                if let ty::Adt(a, _) = self_ty.kind() {
                    v.push(("self_adt", J::s(tcx.def_path_str(a.did()))));
                }
                if let Some(tr) = tcx.impl_opt_trait_ref(did) {
                    let tr = tr.instantiate_identity().skip_norm_wip();
                    v.push(("trait", J::s(tcx.def_path_str(tr.def_id))));
                    v.push(("trait_full", J::s(format!("{:?}", tr))));
                }
                let items: Vec<J> = tcx
                    .associated_item_def_ids(did)
                    .iter()
                    .map(|d| J::s(tcx.def_path_str(*d)))
                    .collect();
                v.push(("items", J::Arr(items)));
                let (file, line) = line_of(tcx, tcx.def_span(did));
                v.push(("file", J::s(file)));
                v.push(("line", J::Int(line as i128)));
                impls.push(J::Obj(v));
            }
            _ => {}
        }
    }
    // local `const` items with plain values (integers, &str, arrays/tuples of those)
    let mut consts = vec![];
    for ldid in tcx.hir_crate_items(()).definitions() {
        let did = ldid.to_def_id();
        if !matches!(tcx.def_kind(did), DefKind::Const { .. } | DefKind::AssocConst { .. }) {
            continue;
        }
        if tcx.generics_of(did).requires_monomorphization(tcx) {
            continue;
        }
        let ty = tcx.type_of(did).instantiate_identity().skip_norm_wip();
        let val = std::panic::catch_unwind(std::panic::AssertUnwindSafe(|| tcx.const_eval_poly(did)));
        if let Ok(Ok(val)) = val {
            let mut value = const_value_json(tcx, val, ty, 0);
            // `const TABLE: &[&str] = &[..]`: the table itself is the one promoted constant of the item
            if matches!(value, J::Null) && matches!(ty.kind(), ty::Ref(..)) {
                let proms = std::panic::catch_unwind(std::panic::AssertUnwindSafe(|| tcx.promoted_mir(did)));
                if let Ok(proms) = proms {
                    if proms.len() == 1 {
                        let (idx, body) = proms.iter_enumerated().next().unwrap();
                        let pty = body.return_ty();
                        let pty = match pty.kind() { ty::Ref(_, inner, _) => *inner, _ => pty };
                        let gid = rustc_middle::mir::interpret::GlobalId { instance: Instance::mono(tcx, did), promoted: Some(idx) };
                        let pv = std::panic::catch_unwind(std::panic::AssertUnwindSafe(|| {
                            tcx.const_eval_global_id(TypingEnv::fully_monomorphized(), gid, rustc_span::DUMMY_SP)
                        }));
                        if let Ok(Ok(pv)) = pv {
                            // the promoted evaluates to a reference to the array: look through it
                            let inner = match pv {
                                mir::ConstValue::Scalar(rustc_middle::mir::interpret::Scalar::Ptr(ptr, _)) => {
                                    let (prov, offset) = ptr.prov_and_relative_offset();
                                    Some(mir::ConstValue::Indirect { alloc_id: prov.alloc_id(), offset })
                                }
                                other => Some(other),
                            };
                            if let Some(inner) = inner {
                                value = const_value_json(tcx, inner, pty, 0);
                            }
                        }
                    }
                }
            }
            consts.push(J::Obj(vec![
                ("path", J::s(tcx.def_path_str(did))),
                ("ty", J::s(ty_s(ty))),
                ("value", value),
            ]));
        }
    }
    vec![("fns", J::Arr(fns)), ("adts", J::Arr(adts)), ("impls", J::Arr(impls)), ("consts", J::Arr(consts))]
}

impl rustc_driver::Callbacks for Cb {
    fn after_analysis<'tcx>(
        &mut self,
        _c: &rustc_interface::interface::Compiler,
        tcx: TyCtxt<'tcx>,
    ) -> Compilation {
        if tcx.crate_name(LOCAL_CRATE).as_str() != "subprocess" {
            return Compilation::Continue;
        }
        // only the library target (the package also has src/bin/just-echo.rs and tests)
        let Ok(out) = std::env::var("SPA_OUT") else {
            return Compilation::Continue;
        };
        if tcx.sess.dcx().has_errors().is_some() {
            return Compilation::Continue;
        }
        let mut doc = vec![
            ("nonce", J::s(std::env::var("SPA_NONCE").unwrap_or_default())),
            ("crate", J::s("subprocess")),
            ("target", J::s(tcx.sess.target.llvm_target.to_string())),
            ("rustc", J::s(rustc_interface::util::rustc_version_str().unwrap_or("?"))),
            ("pointer_bits", J::Int(tcx.data_layout.pointer_size().bits() as i128)),
        ];
        doc.extend(dump_crate(tcx));
        if std::env::var("SPA_DEEP").ok().as_deref() == Some("1") {
            doc.push(("graph", graph::dump_graph(tcx)));
        }
        let mut s = String::new();
        J::Obj(doc).write(&mut s);
        let tmp = format!("{}.tmp.{}", out, std::process::id());
        std::fs::write(&tmp, s).expect("write SPA_OUT");
        std::fs::rename(&tmp, &out).expect("rename SPA_OUT");
        Compilation::Continue
    }
}

fn main() {
    let mut args: Vec<String> = std::env::args().collect();
    // RUSTC_WORKSPACE_WRAPPER passes the real rustc path as argv[1]
    args.remove(1);
    rustc_driver::run_compiler(&args, &mut Cb);
}
