//! Minimal JSON value + writer (the driver has no dependencies).

pub enum J {
    Null,
    Bool(bool),
    Int(i128),
    Str(String),
    Arr(Vec<J>),
    Obj(Vec<(&'static str, J)>),
}

impl J {
    pub fn s(x: impl Into<String>) -> J {
        J::Str(x.into())
    }
    pub fn opt_int(x: Option<usize>) -> J {
        match x {
            Some(v) => J::Int(v as i128),
            None => J::Null,
        }
    }
    pub fn write(&self, out: &mut String) {
        match self {
            J::Null => out.push_str("null"),
            J::Bool(b) => out.push_str(if *b { "true" } else { "false" }),
            J::Int(i) => {
                // JSON numbers beyond 2^53 lose precision in many readers; python is fine.
                out.push_str(&i.to_string())
            }
            J::Str(s) => write_str(s, out),
            J::Arr(v) => {
                out.push('[');
                for (i, x) in v.iter().enumerate() {
                    if i > 0 {
                        out.push(',');
                    }
                    x.write(out);
                }
                out.push(']');
            }
            J::Obj(v) => {
                out.push('{');
                for (i, (k, x)) in v.iter().enumerate() {
                    if i > 0 {
                        out.push(',');
                    }
                    write_str(k, out);
                    out.push(':');
                    x.write(out);
                }
                out.push('}');
            }
        }
    }
}

fn write_str(s: &str, out: &mut String) {
    out.push('"');
    for c in s.chars() {
        match c {
            '"' => out.push_str("\\\""),
            '\\' => out.push_str("\\\\"),
            '\n' => out.push_str("\\n"),
            '\r' => out.push_str("\\r"),
            '\t' => out.push_str("\\t"),
            c if (c as u32) < 0x20 => out.push_str(&format!("\\u{:04x}", c as u32)),
            c => out.push(c),
        }
    }
    out.push('"');
}
