//! A1: monomorphic whole-program instance graph (calls, drop glue, vtable methods of
//! unsize casts, reified function pointers), rooted at every non-generic local function.
//! Only meaningful when std's MIR is available (-Zbuild-std + -Zalways-encode-mir).

use crate::json::J;
use crate::line_of;
use rustc_hir::def::DefKind;
use rustc_middle::mir::{CastKind, Rvalue, StatementKind, TerminatorKind};
use rustc_middle::ty::adjustment::PointerCoercion;
use rustc_middle::ty::{self, EarlyBinder, Instance, Ty, TyCtxt, TypingEnv};
use std::collections::HashMap;

pub fn inst_kind(inst: &Instance<'_>) -> &'static str {
    match inst.def {
        ty::InstanceKind::Item(_) => "item",
        ty::InstanceKind::Intrinsic(_) => "intrinsic",
        ty::InstanceKind::Virtual(..) => "virtual",
        ty::InstanceKind::DropGlue(..) => "dropglue",
        ty::InstanceKind::ClosureOnceShim { .. } => "closure_once_shim",
        ty::InstanceKind::FnPtrShim(..) => "fnptr_shim",
        ty::InstanceKind::VTableShim(..) => "vtable_shim",
        ty::InstanceKind::ReifyShim(..) => "reify_shim",
        ty::InstanceKind::CloneShim(..) => "clone_shim",
        ty::InstanceKind::ThreadLocalShim(..) => "tls_shim",
        _ => "other_shim",
    }
}

struct G<'tcx> {
    tcx: TyCtxt<'tcx>,
    ids: HashMap<Instance<'tcx>, usize>,
    nodes: Vec<Instance<'tcx>>,
    edges: Vec<Vec<(usize, usize, &'static str, usize, String)>>, // to, bb, kind, line, file
    notes: Vec<Vec<String>>,
    work: Vec<usize>,
}

impl<'tcx> G<'tcx> {
    fn id(&mut self, i: Instance<'tcx>) -> usize {
        if let Some(x) = self.ids.get(&i) {
            return *x;
        }
        let n = self.nodes.len();
        self.ids.insert(i, n);
        self.nodes.push(i);
        self.edges.push(vec![]);
        self.notes.push(vec![]);
        self.work.push(n);
        n
    }

    fn process(&mut self, n: usize) {
        let tcx = self.tcx;
        let inst = self.nodes[n];
        let did = inst.def_id();
        if tcx.is_foreign_item(did) {
            return;
        }
        match inst.def {
            ty::InstanceKind::Intrinsic(_) | ty::InstanceKind::Virtual(..) => return,
            ty::InstanceKind::Item(_) => {
                if !tcx.is_mir_available(did) {
                    self.notes[n].push("nomir".into());
                    return;
                }
            }
            _ => {}
        }
        let env = TypingEnv::fully_monomorphized();
        let body = tcx.instance_mir(inst.def);
        let mono = |t: Ty<'tcx>| -> Option<Ty<'tcx>> {
            std::panic::catch_unwind(std::panic::AssertUnwindSafe(|| {
                inst.instantiate_mir_and_normalize_erasing_regions(tcx, env, EarlyBinder::bind(t))
            }))
            .ok()
        };
        for (bb, data) in body.basic_blocks.iter_enumerated() {
            if data.is_cleanup {
                continue;
            }
            for st in &data.statements {
                if let StatementKind::Assign(b) = &st.kind {
                    match &b.1 {
                        Rvalue::Cast(CastKind::PointerCoercion(PointerCoercion::Unsize, _), op, target) => {
                            let (Some(src), Some(dst)) = (mono(op.ty(body, tcx)), mono(*target)) else {
                                continue;
                            };
                            let (file, ln) = line_of(tcx, st.source_info.span);
                            self.unsize(n, bb.index(), src, dst, ln, file);
                        }
                        Rvalue::Cast(CastKind::PointerCoercion(PointerCoercion::ReifyFnPointer(_), _), op, _) => {
                            let Some(t) = mono(op.ty(body, tcx)) else { continue };
                            if let ty::FnDef(cd, args) = t.kind() {
                                if let Ok(Some(ci)) = Instance::try_resolve(tcx, env, *cd, args) {
                                    let (file, ln) = line_of(tcx, st.source_info.span);
                                    let to = self.id(ci);
                                    self.edges[n].push((to, bb.index(), "reify", ln, file));
                                }
                            }
                        }
                        Rvalue::Cast(CastKind::PointerCoercion(PointerCoercion::ClosureFnPointer(_), _), op, _) => {
                            let Some(t) = mono(op.ty(body, tcx)) else { continue };
                            if let ty::Closure(cd, args) = t.kind() {
                                let ci = Instance::resolve_closure(tcx, *cd, args, ty::ClosureKind::FnOnce);
                                let (file, ln) = line_of(tcx, st.source_info.span);
                                let to = self.id(ci);
                                self.edges[n].push((to, bb.index(), "reify", ln, file));
                            }
                        }
                        _ => {}
                    }
                }
            }
            let term = data.terminator();
            let (file, ln) = line_of(tcx, term.source_info.span);
            match &term.kind {
                TerminatorKind::Call { func, .. } | TerminatorKind::TailCall { func, .. } => {
                    let Some(t) = mono(func.ty(body, tcx)) else {
                        self.notes[n].push(format!("mono-failed bb{}", bb.index()));
                        continue;
                    };
                    if let ty::FnDef(cd, args) = t.kind() {
                        match Instance::try_resolve(tcx, env, *cd, args) {
                            Ok(Some(ci)) => {
                                let to = self.id(ci);
                                self.edges[n].push((to, bb.index(), "call", ln, file));
                            }
                            _ => self.notes[n].push(format!("unresolved {}", tcx.def_path_str(*cd))),
                        }
                    } else {
                        // call through a fn pointer / dyn: targets are covered by reify / vtable edges
                        self.notes[n].push(format!("indirect-call bb{} {:?}", bb.index(), t));
                    }
                }
                TerminatorKind::Drop { place, .. } => {
                    let Some(t) = mono(place.ty(body, tcx).ty) else { continue };
                    let di = Instance::resolve_drop_in_place(tcx, t);
                    let to = self.id(di);
                    self.edges[n].push((to, bb.index(), "drop", ln, file));
                }
                _ => {}
            }
        }
    }

    fn unsize(&mut self, n: usize, bb: usize, src: Ty<'tcx>, dst: Ty<'tcx>, ln: usize, file: String) {
        // peel one level of pointer / Box
        let inner = |t: Ty<'tcx>| -> Option<Ty<'tcx>> {
            if let Some(x) = t.builtin_deref(true) {
                return Some(x);
            }
            if let ty::Adt(def, args) = t.kind() {
                if def.is_box() {
                    return Some(args.type_at(0));
                }
            }
            None
        };
        let (Some(s), Some(d)) = (inner(src), inner(dst)) else {
            // struct-to-struct coercions (Rc<T> -> Rc<dyn ..>): look at first type argument
            if let (ty::Adt(_, sa), ty::Adt(_, da)) = (src.kind(), dst.kind()) {
                if let (Some(s), Some(d)) = (sa.types().next(), da.types().next()) {
                    self.unsize_inner(n, bb, s, d, ln, file);
                }
            }
            return;
        };
        self.unsize_inner(n, bb, s, d, ln, file);
    }

    fn unsize_inner(&mut self, n: usize, bb: usize, s: Ty<'tcx>, d: Ty<'tcx>, ln: usize, file: String) {
        let tcx = self.tcx;
        if let ty::Dynamic(preds, ..) = d.kind() {
            if let Some(pr) = preds.principal() {
                let tr = pr.with_self_ty(tcx, s);
                let tr = tcx.instantiate_bound_regions_with_erased(tr);
                let entries = std::panic::catch_unwind(std::panic::AssertUnwindSafe(|| tcx.vtable_entries(tr)));
                if let Ok(entries) = entries {
                    for e in entries {
                        if let ty::VtblEntry::Method(mi) = e {
                            let to = self.id(*mi);
                            self.edges[n].push((to, bb, "vtable", ln, file.clone()));
                        }
                    }
                }
            }
            // the drop glue of the concrete type is in the vtable too
            let di = Instance::resolve_drop_in_place(tcx, s);
            let to = self.id(di);
            self.edges[n].push((to, bb, "vtable", ln, file));
        }
    }
}

pub fn dump_graph<'tcx>(tcx: TyCtxt<'tcx>) -> J {
    let mut g = G { tcx, ids: HashMap::new(), nodes: vec![], edges: vec![], notes: vec![], work: vec![] };
    let mut roots = vec![];
    for ldid in tcx.hir_body_owners() {
        let did = ldid.to_def_id();
        if !matches!(tcx.def_kind(did), DefKind::Fn | DefKind::AssocFn) {
            continue;
        }
        if tcx.generics_of(did).requires_monomorphization(tcx) {
            continue;
        }
        let inst = Instance::mono(tcx, did);
        let n = g.id(inst);
        roots.push(J::Int(n as i128));
    }
    while let Some(n) = g.work.pop() {
        g.process(n);
    }
    let mut nodes = vec![];
    for (i, inst) in g.nodes.iter().enumerate() {
        let did = inst.def_id();
        let edges: Vec<J> = g.edges[i]
            .iter()
            .map(|(to, bb, kind, ln, file)| {
                J::Arr(vec![
                    J::Int(*to as i128),
                    J::Int(*bb as i128),
                    J::s(*kind),
                    J::Int(*ln as i128),
                    J::s(file.clone()),
                ])
            })
            .collect();
        nodes.push(J::Obj(vec![
            ("name", J::s(tcx.def_path_str_with_args(did, inst.args))),
            ("path", J::s(tcx.def_path_str(did))),
            ("krate", J::s(tcx.crate_name(did.krate).to_string())),
            ("local", J::Bool(did.is_local())),
            ("foreign", J::Bool(tcx.is_foreign_item(did))),
            ("kind", J::s(inst_kind(inst))),
            ("notes", J::Arr(g.notes[i].iter().map(|s| J::s(s.clone())).collect())),
            ("edges", J::Arr(edges)),
        ]));
    }
    J::Obj(vec![("roots", J::Arr(roots)), ("nodes", J::Arr(nodes))])
}
