"""Behaviour-preserving edits of /repo: every check must stay silent on each of them
(section 9 of DESIGN.md, direction 3).  Each entry: (name, file, old, new)."""
REFACTORS = [
 ("fork-as-match", "src/posix.rs",
  """    let pid = check_err(libc::fork())?;
    if pid == 0 {
        Ok(None) // child
    } else {
        Ok(Some(pid as u32)) // parent
    }""",
  """    match check_err(libc::fork())? {
        0 => Ok(None),
        pid => Ok(Some(pid as u32)),
    }"""),
 ("do_read-clip-with-min", "src/communicate.rs",
  """                if size_limit - total_read < buf.len() {
                    buf = &mut buf[0..size_limit - total_read];
                }""",
  """                let allowed = min(buf.len(), size_limit - total_read);
                buf = &mut buf[..allowed];"""),
 ("status-codec-le-bytes", "src/popen.rs",
  """                                .write_all(&[
                                    error_code as u8,
                                    (error_code >> 8) as u8,
                                    (error_code >> 16) as u8,
                                    (error_code >> 24) as u8,
                                ])""",
  """                                .write_all(&error_code.to_le_bytes())"""),
 ("status-decode-le-bytes", "src/popen.rs",
  """                let error_code: u32 = error_buf[0] as u32
                    | (error_buf[1] as u32) << 8
                    | (error_buf[2] as u32) << 16
                    | (error_buf[3] as u32) << 24;""",
  """                let error_code: u32 = u32::from_le_bytes(error_buf);"""),
 ("waitpid-flags-local", "src/popen.rs",
  """                    match posix::waitpid(pid, if block { 0 } else { posix::WNOHANG }) {""",
  """                    let flags = if block { 0 } else { posix::WNOHANG };
                    match posix::waitpid(pid, flags) {"""),
 ("echild-option-eq", "src/popen.rs",
  """                            if let Some(errno) = e.raw_os_error() {
                                if errno == posix::ECHILD {""",
  """                            if e.raw_os_error() == Some(posix::ECHILD) {
                                {"""),
 ("all-none-with-is_none", "src/communicate.rs",
  """                if let (None, None, None) = (self.stdin.as_ref(), stdout_ref, stderr_ref) {""",
  """                if self.stdin.is_none() && stdout_ref.is_none() && stderr_ref.is_none() {"""),
 ("drop-nested-ifs", "src/popen.rs",
  """        if let (false, &Running { .. }) = (self.detached, &self.child_state) {""",
  """        if self.detached {
            return;
        }
        if let Running { .. } = self.child_state {"""),
 ("set_inheritable-early-return", "src/popen.rs",
  """        if inheritable {
            // Unix pipes are inheritable by default.
        } else {
            let fd = f.as_raw_fd();
            let old = posix::fcntl(fd, posix::F_GETFD, None)?;
            posix::fcntl(fd, posix::F_SETFD, Some(old | posix::FD_CLOEXEC))?;
        }
        Ok(())""",
  """        if inheritable {
            // Unix pipes are inheritable by default.
            return Ok(());
        }
        let fd = f.as_raw_fd();
        let old = posix::fcntl(fd, posix::F_GETFD, None)?;
        posix::fcntl(fd, posix::F_SETFD, Some(old | posix::FD_CLOEXEC))?;
        Ok(())"""),
 ("pipeline-is_last-local", "src/builder.rs",
  """                if idx != cnt - 1 {
                    runner = runner.stdout(Redirection::Pipe);
                }""",
  """                let is_last = idx == cnt - 1;
                if !is_last {
                    runner = runner.stdout(Redirection::Pipe);
                }"""),
 ("assemble_exe-clear", "src/posix.rs",
  """        storage.truncate(0);""",
  """        storage.clear();"""),
 ("write-size-smaller", "src/communicate.rs",
  """            const WRITE_SIZE: usize = 4096;""",
  """            const WRITE_SIZE: usize = 2048;"""),
 ("status-pipe-destructured", "src/popen.rs",
  """            drop(exec_fail_pipe.1);
            let mut error_buf = [0u8; 4];
            let read_cnt = exec_fail_pipe.0.read(&mut error_buf)?;""",
  """            let (mut status_read, status_write) = exec_fail_pipe;
            drop(status_write);
            let mut error_buf = [0u8; 4];
            let read_cnt = status_read.read(&mut error_buf)?;"""),
 ("poll-masks-named", "src/communicate.rs",
  """        Ok((
            fds[0].test(posix::POLLOUT | posix::POLLHUP | posix::POLLERR),
            fds[1].test(posix::POLLIN | posix::POLLHUP),
            fds[2].test(posix::POLLIN | posix::POLLHUP),
        ))""",
  """        const WRITABLE: i16 = posix::POLLOUT | posix::POLLHUP | posix::POLLERR;
        const READABLE: i16 = posix::POLLIN | posix::POLLHUP;
        Ok((
            fds[0].test(WRITABLE),
            fds[1].test(READABLE),
            fds[2].test(READABLE),
        ))"""),
 ("send_signal-if-let", "src/popen.rs",
  """                match self.child_state {
                    Preparing => panic!("child_state == Preparing"),
                    Running { pid, .. } => posix::kill(pid, signal),
                    Finished(..) => Ok(()),
                }""",
  """                if let Running { pid, .. } = self.child_state {
                    return posix::kill(pid, signal);
                }
                if let Preparing = self.child_state {
                    panic!("child_state == Preparing");
                }
                Ok(())"""),
 ("display_escape-reordered", "src/builder.rs",
  """            if s.is_empty() || !s.chars().all(nice_char) || reserved_word(s) {
                Cow::Owned(format!("'{}'", s.replace("'", r#"'\\''"#)))
            } else {
                Cow::Borrowed(s)
            }""",
  """            if !s.is_empty() && s.chars().all(nice_char) && !reserved_word(s) {
                return Cow::Borrowed(s);
            }
            Cow::Owned(format!("'{}'", s.replace("'", r#"'\\''"#)))"""),
 ("display_escape-reserved-inline-contains", "src/builder.rs",
  """            if s.is_empty() || !s.chars().all(nice_char) || reserved_word(s) {""",
  """            if s.is_empty() || !s.chars().all(nice_char) || s == "case" || s == "do" || s == "done" || s == "elif"
                || s == "else" || s == "esac" || s == "fi" || s == "for" || s == "if" || s == "in" || s == "then"
                || s == "until" || s == "while" || reserved_word(s)
            {"""),
 ("nice_char-matches", "src/builder.rs",
  """                match c {
                    '-' | '_' | '.' | ',' | '/' => true,
                    c if c.is_ascii_alphanumeric() => true,
                    _ => false,
                }""",
  """                matches!(c, '-' | '_' | '.' | ',' | '/') || c.is_ascii_alphanumeric()"""),
 ("os_wait-loop-form", "src/popen.rs",
  """            while let Running { .. } = self.child_state {
                self.waitpid(true)?;
            }
            Ok(self.exit_status().unwrap())""",
  """            loop {
                if let Finished(exit_status) = self.child_state {
                    return Ok(exit_status);
                }
                self.waitpid(true)?;
            }"""),
 ("comments-shift-lines", "src/popen.rs",
  """use ChildState::*;
""",
  """// (a few
//  comment lines
//  that only shift
//  line numbers)
use ChildState::*;
"""),
 ("env_remove-local-key", "src/builder.rs",
  """            self.config
                .env
                .as_mut()
                .unwrap()
                .retain(|(k, _v)| k != key.as_ref());""",
  """            let key = key.as_ref();
            let env = self.config.env.as_mut().unwrap();
            env.retain(|(k, _v)| k != key);"""),
 ("capture-out-err-locals", "src/builder.rs",
  """            let (maybe_out, maybe_err) = result?;
            Ok(CaptureData {
                stdout: maybe_out.unwrap_or_else(Vec::new),
                stderr: maybe_err.unwrap_or_else(Vec::new),
                exit_status: p.wait()?,
            })""",
  """            let (maybe_out, maybe_err) = result?;
            let stdout = maybe_out.unwrap_or_default();
            let stderr = maybe_err.unwrap_or_default();
            let exit_status = p.wait()?;
            Ok(CaptureData {
                stdout,
                stderr,
                exit_status,
            })"""),
 ("deadline-check-helper-closure", "src/communicate.rs",
  """                if let Some(deadline) = deadline {
                    // Check the deadline after every exchange.  poll() only
                    // times out when no stream is ready, so a subprocess
                    // that keeps a stream ready all the time (e.g. by
                    // writing faster than we read) would never let us
                    // notice that the time is up.
                    if Instant::now() >= deadline {
                        return Err(io::Error::new(io::ErrorKind::TimedOut, "timeout"));
                    }
                }""",
  """                match deadline {
                    Some(deadline) if Instant::now() >= deadline => {
                        return Err(io::Error::new(io::ErrorKind::TimedOut, "timeout"));
                    }
                    _ => (),
                }"""),
 ("set_inheritable-skip-if-set", "src/popen.rs",
  """            let old = posix::fcntl(fd, posix::F_GETFD, None)?;
            posix::fcntl(fd, posix::F_SETFD, Some(old | posix::FD_CLOEXEC))?;""",
  """            let old = posix::fcntl(fd, posix::F_GETFD, None)?;
            let new = old | posix::FD_CLOEXEC;
            if new != old {
                posix::fcntl(fd, posix::F_SETFD, Some(new))?;
            }"""),
 ("pipeline-start-if-let-err", "src/builder.rs",
  """                match runner.popen() {
                    Ok(popen) => ret.push(popen),
                    Err(err) => return Err((err, ret)),
                }""",
  """                let popen = match runner.popen() {
                    Ok(popen) => popen,
                    Err(err) => {
                        let started = ret;
                        return Err((err, started));
                    }
                };
                ret.push(popen);"""),
 ("pipeline-popen-map_err", "src/builder.rs",
  """            match self.start() {
                Ok(started) => Ok(started),
                Err((err, started)) => {
                    // dropping the commands started so far waits for them
                    drop(started);
                    Err(err)
                }
            }""",
  """            self.start().map_err(|(err, started)| {
                // dropping the commands started so far waits for them
                drop(started);
                err
            })"""),
 ("input-exhausted-ge", "src/communicate.rs",
  """                    if self.input_pos == self.input_data.len() {""",
  """                    if self.input_pos >= self.input_data.len() {"""),
 ("os_start-child-branch-extracted", "src/popen.rs",
  """                        None => {
                            drop(exec_fail_pipe.0);
                            let result = Popen::do_exec(
                                just_exec,
                                child_ends,
                                child_cwd.as_deref(),
                                config.setuid,
                                config.setgid,
                                config.setpgid,
                            );
                            // If we are here, it means that exec has failed.  Notify
                            // the parent and exit.
                            let error_code = match result {
                                Ok(()) => unreachable!(),
                                Err(e) => e.raw_os_error().unwrap_or(-1),
                            } as u32;
                            exec_fail_pipe
                                .1
                                .write_all(&[
                                    error_code as u8,
                                    (error_code >> 8) as u8,
                                    (error_code >> 16) as u8,
                                    (error_code >> 24) as u8,
                                ])
                                .ok();
                            posix::_exit(127);
                        }""",
  """                        None => {
                            drop(exec_fail_pipe.0);
                            let result = Popen::do_exec(
                                just_exec,
                                child_ends,
                                child_cwd.as_deref(),
                                config.setuid,
                                config.setgid,
                                config.setpgid,
                            );
                            report_exec_failure(result, &mut exec_fail_pipe.1)
                        }"""),
 ("rename-locals-read_into", "src/communicate.rs",
  """                let (in_ready, out_ready, err_ready) =
                    maybe_poll(self.stdin.as_ref(), stdout_ref, stderr_ref, deadline)?;
                if !in_ready && !out_ready && !err_ready {
                    return Err(io::Error::new(io::ErrorKind::TimedOut, "timeout"));
                }
                if in_ready {""",
  """                let (can_write, out_ready, err_ready) =
                    maybe_poll(self.stdin.as_ref(), stdout_ref, stderr_ref, deadline)?;
                if !can_write && !out_ready && !err_ready {
                    return Err(io::Error::new(io::ErrorKind::TimedOut, "timeout"));
                }
                if can_write {"""),
 ("reorder-cloexec-of-status-pipe", "src/popen.rs",
  """            set_inheritable(&exec_fail_pipe.0, false)?;
            set_inheritable(&exec_fail_pipe.1, false)?;""",
  """            set_inheritable(&exec_fail_pipe.1, false)?;
            set_inheritable(&exec_fail_pipe.0, false)?;"""),
 ("stage-stdin-from-last_mut", "src/builder.rs",
  """                    let prev_stdout = ret[idx - 1].stdout.take().unwrap();""",
  """                    let prev_stdout = ret.last_mut().unwrap().stdout.take().unwrap();"""),
 ("popen-drop-stdin-assign-none", "src/popen.rs",
  """            self.stdin.take();
            // Should we log error""",
  """            self.stdin = None;
            // Should we log error"""),
 ("adapter-drop-assign-none", "src/builder.rs",
  """        fn drop(&mut self) {
            self.0.stdout.take();
        }""",
  """        fn drop(&mut self) {
            self.0.stdout = None;
        }"""),
 ("cvec-push-null", "src/posix.rs",
  """        let ptrs: Vec<_> = strings
            .iter()
            .map(|s| s.as_bytes_with_nul().as_ptr() as _)
            .chain(iter::once(ptr::null()))
            .collect();""",
  """        let mut ptrs: Vec<*const c_char> = strings
            .iter()
            .map(|s| s.as_bytes_with_nul().as_ptr() as _)
            .collect();
        ptrs.push(ptr::null());"""),
 ("shell-arg-instead-of-args", "src/builder.rs",
  """            Exec::cmd(SHELL[0]).args(&SHELL[1..]).arg(cmdstr)""",
  """            Exec::cmd(SHELL[0]).arg(SHELL[1]).arg(cmdstr)"""),
 ("decode-signaled-first", "src/posix.rs",
  """    if libc::WIFEXITED(status) {
        ExitStatus::Exited(libc::WEXITSTATUS(status) as u32)
    } else if libc::WIFSIGNALED(status) {
        ExitStatus::Signaled(libc::WTERMSIG(status) as u8)
    } else {""",
  """    if libc::WIFSIGNALED(status) {
        ExitStatus::Signaled(libc::WTERMSIG(status) as u8)
    } else if libc::WIFEXITED(status) {
        ExitStatus::Exited(libc::WEXITSTATUS(status) as u32)
    } else {"""),
 ("prealloc-capacity-reordered", "src/posix.rs",
  """            max_exe_len += 1 + split_path(search_path).map(OsStr::len).max().unwrap_or(0);""",
  """            let longest = split_path(search_path).map(OsStr::len).max().unwrap_or(0);
            max_exe_len += longest + 1;"""),
 ("prepare_pipe-if-else-assign", "src/popen.rs",
  """            let (parent_end, child_end) = if parent_writes {
                (write, read)
            } else {
                (read, write)
            };""",
  """            let parent_end;
            let child_end;
            if parent_writes {
                parent_end = write;
                child_end = read;
            } else {
                parent_end = read;
                child_end = write;
            }"""),
 ("exec-stdin-arms-reordered", "src/builder.rs",
  """                (&Redirection::None, InputRedirection::AsRedirection(new)) => {
                    self.config.stdin = new
                }
                (&Redirection::Pipe, InputRedirection::AsRedirection(Redirection::Pipe)) => (),
                (&Redirection::None, InputRedirection::FeedData(data)) => {
                    self.config.stdin = Redirection::Pipe;
                    self.stdin_data = Some(data);
                }""",
  """                (&Redirection::None, InputRedirection::FeedData(data)) => {
                    self.stdin_data = Some(data);
                    self.config.stdin = Redirection::Pipe;
                }
                (&Redirection::Pipe, InputRedirection::AsRedirection(Redirection::Pipe)) => (),
                (&Redirection::None, InputRedirection::AsRedirection(new)) => {
                    self.config.stdin = new
                }"""),
 ("wait_timeout-saturating-remaining", "src/popen.rs",
  """                let remaining = deadline.duration_since(now);""",
  """                let remaining = deadline.saturating_duration_since(now);"""),
 ("communicator-deadline-match", "src/communicate.rs",
  """        let deadline = self
            .time_limit
            .and_then(|timeout| Instant::now().checked_add(timeout));
        match self.inner.read(deadline, self.size_limit) {""",
  """        let deadline = match self.time_limit {
            Some(timeout) => Instant::now().checked_add(timeout),
            None => None,
        };
        match self.inner.read(deadline, self.size_limit) {"""),
 ("capture-comm-in-inner-scope", "src/builder.rs",
  """            let (mut comm, mut p) = self.setup_communicate()?;
            let result = comm.read();
            // Close our ends of the pipes before the process is waited for
            // (also when p is dropped on error): if it is blocked writing
            // output that will not be read any more, it would never exit.
            drop(comm);
            let (maybe_out, maybe_err) = result?;""",
  """            let (comm, mut p) = self.setup_communicate()?;
            // the communicator (and with it our ends of the pipes) is gone
            // before anything can wait for the process
            let result = {
                let mut comm = comm;
                comm.read()
            };
            let (maybe_out, maybe_err) = result?;"""),
 ("maybe_poll-saturating-timeout", "src/communicate.rs",
  """        let timeout = deadline.map(|deadline| {
            let now = Instant::now();
            if now >= deadline {
                Duration::from_secs(0)
            } else {
                deadline - now
            }
        });""",
  """        let timeout = deadline.map(|deadline| deadline.saturating_duration_since(Instant::now()));"""),
 ("popen-drop-matches", "src/popen.rs",
  """        if let (false, &Running { .. }) = (self.detached, &self.child_state) {""",
  """        if !self.detached && matches!(self.child_state, Running { .. }) {"""),
 ("append_quoted-repeat-take", "src/popen.rs",
  """            if i == arg.len() {
                for _ in 0..num_backslashes * 2 {
                    cmdline.push('\\\\' as u16);
                }
                break;""",
  """            if i == arg.len() {
                cmdline.extend(std::iter::repeat('\\\\' as u16).take(num_backslashes * 2));
                break;"""),
 ("maybe_poll-shortcut-nested-is_none", "src/communicate.rs",
  """            match (&fin, &fout, &ferr) {
                (None, None, Some(..)) => return Ok((false, false, true)),
                (None, Some(..), None) => return Ok((false, true, false)),
                (Some(..), None, None) => return Ok((true, false, false)),
                _ => (),
            }""",
  """            if fin.is_none() {
                match (&fout, &ferr) {
                    (Some(..), None) => return Ok((false, true, false)),
                    (None, Some(..)) => return Ok((false, false, true)),
                    _ => (),
                }
            } else if fout.is_none() && ferr.is_none() {
                return Ok((true, false, false));
            }"""),
 ("prep_exec-slash-contains", "src/posix.rs",
  """!cmd.as_bytes().iter().any(|&b| b == b'/')""",
  """!cmd.as_bytes().contains(&b'/')"""),
 ("display_escape-single-pass", "src/builder.rs",
  """                Cow::Owned(format!("'{}'", s.replace("'", r#"'\\''"#)))""",
  """                let mut quoted = String::with_capacity(s.len() + 2);
                quoted.push('\\'');
                for c in s.chars() {
                    match c {
                        '\\'' => quoted.push_str(r"'\\''"),
                        c => quoted.push(c),
                    }
                }
                quoted.push('\\'');
                Cow::Owned(quoted)"""),
 ("os_start-fork-result-bound-and-pretested", "src/popen.rs",
  """                    match posix::fork()? {""",
  """                    let forked = posix::fork();
                    let in_child = matches!(forked, Ok(None));
                    if !in_child {
                        // (nothing to do on the parent side)
                    }
                    match forked? {"""),
]

# additional edits (same file) belonging to a refactor: (old, new) pairs
EXTRA = {
 "os_start-child-branch-extracted": [
  ("""    fn format_env(env: &[(OsString, OsString)]) -> Vec<OsString> {""",
   """    // Runs in the forked child after exec has failed: tell the parent why and exit.
    fn report_exec_failure(result: io::Result<()>, status_pipe: &mut File) -> ! {
        let error_code = match result {
            Ok(()) => unreachable!(),
            Err(e) => e.raw_os_error().unwrap_or(-1),
        } as u32;
        status_pipe
            .write_all(&[
                error_code as u8,
                (error_code >> 8) as u8,
                (error_code >> 16) as u8,
                (error_code >> 24) as u8,
            ])
            .ok();
        posix::_exit(127);
    }

    fn format_env(env: &[(OsString, OsString)]) -> Vec<OsString> {"""),
 ],
}
