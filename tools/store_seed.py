#!/usr/bin/env python3
"""store_seed.py <out-dir-of-agent> <seed-name> <property> <caught-by> <initially: caught|missed> <needs...>
copies a verified seeded change into /verif/seeded/<seed-name>/ with a meta.json"""
import json, os, shutil, sys
out, name, prop, caught, initially = sys.argv[1:6]
needs = " ".join(sys.argv[6:])
dst = os.path.join("/verif/seeded", name)
os.makedirs(dst, exist_ok=True)
for f in os.listdir(out):
    if f.endswith(".log") or f.endswith(".txt") and f not in ("demo_cmd.txt",) or f == "verify.json":
        continue
    shutil.copy(os.path.join(out, f), os.path.join(dst, f))
ver = json.load(open(os.path.join(out, "verify.json")))
cmd = [l for l in open(os.path.join(out, "demo_cmd.txt")).read().splitlines() if l.strip() and not l.startswith("#")]
meta = {
    "property": prop,
    "breaks": open(os.path.join(out, "notes.md")).read()[:1500],
    "needs_to_manifest": needs,
    "author": "independent sub-agent given only the property text and a scratch worktree",
    "confirmed_by_me": {
        "how": "tools/verify_seed.sh in the scratch worktree: apply patch, run the existing suite (demo files hidden), run the demo with and without the change",
        "suite_with_change": ver["suite_with_change"],
        "demo_exit_with_change": ver["demo_exit_with_change"],
        "demo_exit_without_change": ver["demo_exit_without_change"],
        "demo_cmd": cmd[:1],
        "note": ver.get("note", ""),
    },
    "detection": {"caught_by": caught, "initially": initially,
                  "how_run": "git -C /repo apply seeded/%s/patch.diff; ./check %s; git -C /repo checkout -- ." % (name, prop)},
}
json.dump(meta, open(os.path.join(dst, "meta.json"), "w"), indent=1)
print("stored", dst, sorted(os.listdir(dst)))
