#!/bin/bash
# verify_seed.sh <worktree> <out-dir-of-agent> <demo command (run inside the worktree)>
# Confirms, in the scratch worktree: (1) with the change the existing suite passes, (2) the demonstration
# fails with the change, (3) passes without it.  Prints a JSON summary.
set -u
WT=$1; OUT=$2; shift 2; DEMO="$*"
cd "$WT" || exit 2
export CARGO_TARGET_DIR="$WT/target" CARGO_NET_OFFLINE=true
git checkout -q -- src 2>/dev/null
git apply "$OUT/patch.diff" || { echo '{"error":"patch does not apply"}'; exit 2; }
# existing suite only: hide the demo files (untracked tests/examples) while running it
mkdir -p "$WT/.demo-stash"; for f in $(git ls-files --others --exclude-standard tests examples 2>/dev/null); do mkdir -p "$WT/.demo-stash/$(dirname $f)"; mv "$f" "$WT/.demo-stash/$f"; done
SUITE=$(timeout 600 cargo test --offline --no-fail-fast 2>&1 | grep -E "^test result" | awk '{p+=$4; f+=$6} END {print p" passed "f" failed"}')
for f in $(cd "$WT/.demo-stash" && find . -type f); do mv "$WT/.demo-stash/$f" "$WT/$f"; done; rm -rf "$WT/.demo-stash"
timeout 300 bash -c "$DEMO" > "$WT/.demo_with.log" 2>&1; WITH=$?
git checkout -q -- src
timeout 300 bash -c "$DEMO" > "$WT/.demo_without.log" 2>&1; WITHOUT=$?
git apply "$OUT/patch.diff"
echo "{\"suite_with_change\": \"$SUITE\", \"demo_exit_with_change\": $WITH, \"demo_exit_without_change\": $WITHOUT}"
