#!/usr/bin/env python3
"""run every behaviour-preserving refactor of selftest/refactors.py against all checks: any VIOLATION is a false alarm.
Also confirms the refactored tree still compiles (the check's cargo run) — use --tests to also run the repository tests."""
import subprocess, sys, os
sys.path.insert(0, '/verif/selftest')
from refactors import REFACTORS
only = [a for a in sys.argv[1:] if not a.startswith('--')]
bad = 0
from refactors import EXTRA
for name, f, old, new in REFACTORS:
    if only and name not in only:
        continue
    path = os.path.join('/repo', f)
    src = open(path).read()
    if src.count(old) != 1:
        print("%-32s PATTERN occurs %d times" % (name, src.count(old))); bad += 1; continue
    try:
        new_src = src.replace(old, new)
        for (o2, n2) in EXTRA.get(name, []):
            assert new_src.count(o2) == 1, (name, o2[:40])
            new_src = new_src.replace(o2, n2)
        open(path, 'w').write(new_src)
        r = subprocess.run(['./check', '--all'], cwd='/verif', text=True, stdout=subprocess.PIPE, stderr=subprocess.STDOUT)
        viol = [l for l in r.stdout.splitlines() if l.startswith('VIOLATION') or l.startswith('    rule') or l.startswith('INFRA')]
        if '--tests' in sys.argv and not viol:
            t = subprocess.run('cargo test --offline --no-fail-fast 2>&1 | grep -E "^test result" | grep -v " 0 failed"', shell=True, cwd='/repo', text=True, stdout=subprocess.PIPE)
            if t.stdout.strip():
                viol.append("TESTS FAIL: " + t.stdout.strip())
        print("%-32s %s" % (name, "clean" if not viol and r.returncode == 0 else "ALARM rc=%d" % r.returncode))
        for l in viol[:8]:
            print("      " + l[:260])
        if viol or r.returncode:
            bad += 1
    finally:
        open(path, 'w').write(src)
subprocess.run(['git', '-C', '/repo', 'status', '--short'])
sys.exit(1 if bad else 0)
