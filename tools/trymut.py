#!/usr/bin/env python3
"""trymut.py FILE OLD NEW ID... — apply a one-off textual edit to /repo (development aid for
validating the checkers), run the given checks, and always restore the file."""
import subprocess, sys, os
f, old, new = sys.argv[1:4]
ids = sys.argv[4:]
path = os.path.join('/repo', f)
src = open(path).read()
if src.count(old) != 1:
    print("pattern occurs %d times" % src.count(old)); sys.exit(2)
try:
    open(path, 'w').write(src.replace(old, new))
    r = subprocess.run(['./check'] + ids, cwd='/verif', text=True, stdout=subprocess.PIPE, stderr=subprocess.STDOUT)
    print(r.stdout[-6000:])
finally:
    open(path, 'w').write(src)
    subprocess.run(['git', '-C', '/repo', 'status', '--short'])
