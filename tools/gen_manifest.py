#!/usr/bin/env python3
"""regenerate /verif/MANIFEST.json from the rule modules' SPEC blocks"""
import importlib, json, os, sys
HERE = os.path.dirname(os.path.dirname(os.path.abspath(__file__)))
sys.path.insert(0, os.path.join(HERE, "rules"))
props = [json.loads(l) for l in open(os.path.join(HERE, "properties.jsonl"))]
checks, na = [], []
for p in props:
    pid = p["id"]
    path = os.path.join(HERE, "rules", pid.lower() + ".py")
    if not os.path.exists(path):
        na.append({"property_id": pid, "reason": "no static rule set built yet for this property"})
        continue
    mod = importlib.import_module(pid.lower())
    spec = mod.SPEC
    if spec.get("not_applicable"):
        na.append({"property_id": pid, "reason": spec["not_applicable"]})
        continue
    checks.append({
        "property_id": pid,
        "quick_cmd": "./check %s --tier quick" % pid,
        "thorough_cmd": "./check %s --tier thorough" % pid,
        "evidence_file": "/verif/evidence/%s.json" % pid,
        "replay_cmd_template": "./check %s --replay {path}" % pid,
        "engine": "spa",
        "level_claimed": {
            "category": "other",
            "text": ("Static decision, on every path of the resolved program (rustc MIR of /repo's current tree), of the "
                     "structural clauses that are necessary conditions of the property; it is not a proof of the behavioural "
                     "statement. " + spec["explanation"] + " NOT decided: " + spec.get("not_decided", "")),
            "design_ref": "DESIGN.md section 5, %s" % pid,
        },
        "level_note": "Trusted base: " + "; ".join(spec.get("trusted_base", [])) + ". Assumptions: " + ("; ".join(spec.get("assumptions", [])) or "none beyond the trusted base") + ".",
        "technique": spec.get("technique", "static analysis of resolved MIR (custom rustc_private driver): call/store census, dominance, provenance, finite-domain path enumeration"),
    })
man = {
    "version": 1,
    "setup_cmd": "./check --setup",
    "hooks": {
        "guard": "subprocess_verif",
        "enable": "none needed: the analysis reads the unmodified sources (no hook commits exist)",
        "baseline_off_cmd": "cd /repo && cargo test --workspace --no-fail-fast --offline",
        "source_commits": [],
        "add_only": True,
    },
    "engines": [{
        "name": "spa",
        "path": "analyzer/ (rustc_private fact extractor) + rules/ (python rule modules) + check (orchestrator)",
        "serves_properties": [c["property_id"] for c in checks],
        "kind_free_text": "static analysis: a custom rustc driver dumps the type-checked, resolved MIR (+ whole-program instance graph incl. std for C17; the cfg(windows) half via --target x86_64-pc-windows-msvc) of /repo's current tree; rule modules decide per-property obligations by call/store census, dominance-by-removal, provenance terms, finite-domain path enumeration, cycle cover; nothing is executed",
    }],
    "checks": checks,
    "not_applicable": na,
    "notes": "All checks are static (family: static analysis). Known findings / repaired defects: known_findings.txt. See DESIGN.md.",
}
json.dump(man, open(os.path.join(HERE, "MANIFEST.json"), "w"), indent=1)
print("checks:", [c["property_id"] for c in checks], "n/a:", [x["property_id"] for x in na])
