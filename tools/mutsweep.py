#!/usr/bin/env python3
"""mutsweep.py — mutation sweep of the *checkers* (development aid, never part of a registered command).

Generates small syntactic mutants of /repo's non-test sources, and for each one, in a private copy of the
repository: (1) does it compile, (2) does the repository's own test suite still pass, (3) do the static checks
report a violation?  Mutants that compile, pass the tests and are NOT reported are written to the result file for
triage: each is either an equivalent / property-irrelevant mutant or a gap in the rules.

usage: mutsweep.py <workers> <outfile> [--limit N] [--files a.rs,b.rs]
       mutsweep.py <workers> <outfile> --rerun <earlier-results.jsonl> [--tier thorough]
           re-runs the mutants recorded as SURVIVED / timeout in an earlier result file against the current rules
           (with --tier thorough the cfg(windows) sibling rules, the witnesses and the whole-program census run too;
           for cfg(windows) code no test of the repository runs on this machine, so 'SURVIVED' there means 'not reported')
"""
import json, os, re, shutil, subprocess, sys, hashlib
from concurrent.futures import ThreadPoolExecutor

REPO = '/repo'
TIER = None
WORK = '/tmp/mut'
FILES = ['src/communicate.rs', 'src/popen.rs', 'src/posix.rs', 'src/builder.rs']

OPS = [
    (r'==', '!='), (r'!=', '=='), (r'<=', '<'), (r'>=', '>'), (r'(?<![<=\-])>(?![=>])', '>='), (r'(?<![<=])<(?![<=])', '<='),
    (r'&&', '||'), (r'\|\|', '&&'),
    (r'\btrue\b', 'false'), (r'\bfalse\b', 'true'),
    (r'\+ 1\b', '+ 0'), (r'- 1\b', '- 0'), (r'\* 2\b', '* 1'), (r'\+=', '-='),
    (r'\b0\b', '1'), (r'\b1\b', '0'), (r'\b2\b', '3'), (r'\b4096\b', '8192'), (r'\b100\b', '1000'), (r'\b127\b', '0'),
    (r'\bSome\((\w+)\)', r'None'),
    (r'\.take\(\)', '.as_ref()'),
    (r'\bstdout\b', 'stderr'), (r'\bstderr\b', 'stdout'), (r'\bstdin\b', 'stdout'),
    (r'POLLIN', 'POLLOUT'), (r'POLLOUT', 'POLLIN'), (r'\| posix::POLLHUP', ''), (r'\| posix::POLLERR', ''),
    (r'SIGTERM', 'SIGKILL'), (r'SIGKILL', 'SIGTERM'), (r'SIG_SETMASK', 'SIG_BLOCK'), (r'SIG_DFL', 'SIG_IGN'),
    (r'WNOHANG', '0'), (r'F_SETFD', 'F_GETFD'), (r'FD_CLOEXEC', '0'),
    (r'Running', 'Finished'), (r'\bmin\(', 'max('), (r'\bmax\(', 'min('),
    (r'\.rev\(\)', ''), (r'idx - 1', 'idx'), (r'insert\(0, ', 'push('),
    (r'!(\w)', r'\1'),
]


def in_test_or_comment(line):
    s = line.strip()
    return s.startswith('//') or s.startswith('#[') or s.startswith('///') or s.startswith('//!')


def gen_mutants(files):
    muts = []
    for f in files:
        src = open(os.path.join(REPO, f)).read().split('\n')
        # skip #[cfg(test)] mod at the end of posix.rs
        cut = len(src)
        for i, l in enumerate(src):
            if l.strip() == '#[cfg(test)]':
                cut = i
                break
        for i, line in enumerate(src[:cut]):
            if in_test_or_comment(line) or not line.strip():
                continue
            code = line.split('//')[0]
            for pat, rep in OPS:
                for m in re.finditer(pat, code):
                    new = code[:m.start()] + m.expand(rep) + code[m.end():] + line[len(code):]
                    if new != line:
                        muts.append((f, i, line, new, 'op:%s->%s' % (pat, rep)))
            # statement deletion: a whole-line call statement
            if re.match(r'^\s+[\w:.&\[\]\(\)\*" ,!|?-]+\(.*\)\??;\s*$', code) and 'let ' not in code and 'return' not in code and '=' not in code.replace('==', '').replace('!=', '').replace('>=', '').replace('<=', ''):
                muts.append((f, i, line, '', 'delete-stmt'))
    # de-duplicate
    seen = set()
    out = []
    for m in muts:
        k = (m[0], m[1], m[3])
        if k not in seen:
            seen.add(k)
            out.append(m)
    return out


def setup_worker(w):
    d = os.path.join(WORK, 'w%d' % w)
    if not os.path.exists(d):
        os.makedirs(d)
        subprocess.run(['rsync', '-a', '--exclude', 'target', '--exclude', '.git', REPO + '/', d + '/repo/'], check=True)
        subprocess.run(['cp', '-r', '/verif/.cache', d + '/cache'], check=True)
        shutil.rmtree(d + '/cache/target-witness', ignore_errors=True)
        # seed the worker's own test target dir from the repository's, to avoid a cold build per worker
        if os.path.exists(REPO + '/target'):
            subprocess.run(['cp', '-r', REPO + '/target', d + '/repo/target'], check=False)
    return d


def run_one(w, m):
    f, i, old, new, desc = m
    d = os.path.join(WORK, 'w%d' % w)
    path = os.path.join(d, 'repo', f)
    src = open(os.path.join(REPO, f)).read().split('\n')
    src[i] = new
    open(path, 'w').write('\n'.join(src))
    env = dict(os.environ, VERIF_REPO=d + '/repo', VERIF_CACHE=d + '/cache', VERIF_EVIDENCE=d + '/evidence', CARGO_NET_OFFLINE='true')
    res = {'file': f, 'line': i + 1, 'old': old.strip(), 'new': new.strip(), 'op': desc}
    try:
        r = subprocess.run(['/verif/check', '--all'] + (['--tier', TIER] if TIER else []), cwd='/verif', env=env, text=True, stdout=subprocess.PIPE, stderr=subprocess.STDOUT, timeout=300)
        out = r.stdout
        if 'INFRA-ERROR' in out or r.returncode == 2:
            res['status'] = 'no-compile'
            return res
        viol = sorted(set(re.findall(r'VIOLATION property=(C\d+)', out)))
        res['flagged'] = viol
        if viol:
            res['status'] = 'flagged'
            res['rules'] = re.findall(r'^    rule (\S+)', out, re.M)[:4]
            return res
        # not flagged: does the repository's own suite pass?
        t = subprocess.run('cargo test --offline --no-fail-fast 2>&1 | grep -E "^test result|error(\\[|:)" | head -20', shell=True, cwd=d + '/repo',
                           env=dict(env, CARGO_TARGET_DIR=d + '/repo/target'), text=True, stdout=subprocess.PIPE, timeout=900)
        lines = t.stdout.strip().splitlines()
        ok = lines and all(' 0 failed' in l for l in lines if l.startswith('test result')) and not any('error' in l for l in lines)
        res['status'] = 'SURVIVED' if ok else 'killed-by-tests'
        res['tests'] = lines[:3]
    except subprocess.TimeoutExpired:
        res['status'] = 'timeout'
    finally:
        open(path, 'w').write(open(os.path.join(REPO, f)).read())
    return res


def main():
    workers = int(sys.argv[1])
    outfile = sys.argv[2]
    limit = int(sys.argv[sys.argv.index('--limit') + 1]) if '--limit' in sys.argv else None
    files = sys.argv[sys.argv.index('--files') + 1].split(',') if '--files' in sys.argv else FILES
    muts = gen_mutants(files)
    if '--tier' in sys.argv:
        global TIER
        TIER = sys.argv[sys.argv.index('--tier') + 1]
    if '--rerun' in sys.argv:
        prev = [json.loads(l) for l in open(sys.argv[sys.argv.index('--rerun') + 1])]
        sts = sys.argv[sys.argv.index('--rerun-status') + 1].split(',') if '--rerun-status' in sys.argv else ['SURVIVED', 'timeout']
        want = {(j['file'], j['line'], j['new']) for j in prev if j['status'] in sts}
        muts = [m for m in muts if (m[0], m[1] + 1, m[3].strip()) in want]
    if limit:
        # deterministic spread
        muts = sorted(muts, key=lambda m: hashlib.md5(repr(m).encode()).hexdigest())[:limit]
    print('%d mutants' % len(muts), flush=True)
    for w in range(workers):
        setup_worker(w)
    import queue, threading
    q = queue.Queue()
    for m in muts:
        q.put(m)
    lock = threading.Lock()
    done = [0]

    def worker(w):
        while True:
            try:
                m = q.get_nowait()
            except queue.Empty:
                return
            r = run_one(w, m)
            with lock:
                done[0] += 1
                with open(outfile, 'a') as fo:
                    fo.write(json.dumps(r) + '\n')
                if done[0] % 25 == 0:
                    print('%d/%d' % (done[0], len(muts)), flush=True)
    ts = [threading.Thread(target=worker, args=(w,)) for w in range(workers)]
    for t in ts:
        t.start()
    for t in ts:
        t.join()
    print('finished', flush=True)


if __name__ == '__main__':
    main()
