#!/usr/bin/env python3
"""replay every seeded breaking change of /verif/seeded against the checks (development / self-test only, never part
of a registered command): apply the patch to /repo, run the property's own check and all checks, restore.
Prints one line per seed: caught by its own property's check? by any check?"""
import json, os, subprocess, sys
SEEDED = '/verif/seeded'
only = [a for a in sys.argv[1:] if not a.startswith('-')]
rows = []
for name in sorted(os.listdir(SEEDED)):
    if only and name not in only:
        continue
    d = os.path.join(SEEDED, name)
    meta = json.load(open(os.path.join(d, 'meta.json')))
    prop = meta['property']
    base = meta.get('base')
    if base:
        # a seed that only exists on an earlier tree (a later fix: commit removed the code it changes): replay it on a scratch
        # worktree of that commit, through VERIF_REPO, and compare with the same worktree without the patch
        import shutil, tempfile
        wt = tempfile.mkdtemp(prefix='seedbase-', dir='/tmp')
        os.rmdir(wt)
        env = dict(os.environ, VERIF_REPO=wt, VERIF_CACHE=wt + '-cache', VERIF_EVIDENCE=wt + '-ev')
        try:
            subprocess.run(['git', '-C', '/repo', 'worktree', 'add', '--detach', '-q', wt, base], check=True)
            base_out = subprocess.run(['./check', prop], cwd='/verif', env=env, text=True, stdout=subprocess.PIPE, stderr=subprocess.STDOUT).stdout
            r = subprocess.run(['git', '-C', wt, 'apply', os.path.join(d, 'patch.diff')], text=True, stdout=subprocess.PIPE, stderr=subprocess.STDOUT)
            if r.returncode:
                rows.append((name, prop, 'PATCH DOES NOT APPLY (base %s)' % base, '', '')); continue
            out = subprocess.run(['./check', '--all'], cwd='/verif', env=env, text=True, stdout=subprocess.PIPE, stderr=subprocess.STDOUT).stdout
            # violations the unpatched base already has (defects repaired since) are not credited to the seed
            base_rules = {l.split('rule ')[1].split(' at ')[0] for l in base_out.splitlines() if l.startswith('    rule ')}
            out = '\n'.join(l for l in out.splitlines() if not (l.startswith('    rule ') and l.split('rule ')[1].split(' at ')[0] in base_rules))
        finally:
            subprocess.run(['git', '-C', '/repo', 'worktree', 'remove', '--force', wt])
            shutil.rmtree(wt + '-cache', ignore_errors=True); shutil.rmtree(wt + '-ev', ignore_errors=True)
            subprocess.run(['git', '-C', '/repo', 'worktree', 'prune'])
        name = name + ' [on base %s]' % base[:7]
    else:
        subprocess.run(['git', '-C', '/repo', 'checkout', '--', '.'])
        r = subprocess.run(['git', '-C', '/repo', 'apply', os.path.join(d, 'patch.diff')], text=True, stdout=subprocess.PIPE, stderr=subprocess.STDOUT)
        if r.returncode:
            rows.append((name, prop, 'PATCH DOES NOT APPLY', '', '')); continue
        try:
            out = subprocess.run(['./check', '--all'], cwd='/verif', text=True, stdout=subprocess.PIPE, stderr=subprocess.STDOUT).stdout
        finally:
            subprocess.run(['git', '-C', '/repo', 'checkout', '--', '.'])
    viol = {}
    cur = None
    for l in out.splitlines():
        if l.startswith('VIOLATION property='):
            cur = l.split('property=')[1].split()[0]
        elif l.startswith('    rule ') and cur:
            viol.setdefault(cur, []).append(l.split('rule ')[1].split(' at ')[0])
    own = viol.get(prop, [])
    others = {k: v for k, v in viol.items() if k != prop}
    rows.append((name, prop, 'own check: ' + ('CAUGHT ' + ', '.join(own[:3]) if own else 'silent'), 'other checks: ' + (', '.join('%s(%s)' % (k, v[0]) for k, v in others.items()) or '-'), 'INFRA' if 'INFRA' in out else ''))
for r in rows:
    print(' | '.join(x for x in r if x))
subprocess.run(['git', '-C', '/repo', 'status', '--short'])
