#!/usr/bin/env python3
"""replay every seeded breaking change of /verif/seeded against the checks (development / self-test only, never part
of a registered command): apply the patch to /repo, run the property's own check and all checks, restore.
Prints one line per seed: caught by its own property's check? by any check?"""
import json, os, subprocess, sys
SEEDED = '/verif/seeded'
only = [a for a in sys.argv[1:] if not a.startswith('-')]
rows = []
for name in sorted(os.listdir(SEEDED)):
    if only and name not in only:
        continue
    d = os.path.join(SEEDED, name)
    meta = json.load(open(os.path.join(d, 'meta.json')))
    prop = meta['property']
    subprocess.run(['git', '-C', '/repo', 'checkout', '--', '.'])
    r = subprocess.run(['git', '-C', '/repo', 'apply', os.path.join(d, 'patch.diff')], text=True, stdout=subprocess.PIPE, stderr=subprocess.STDOUT)
    if r.returncode:
        rows.append((name, prop, 'PATCH DOES NOT APPLY', '', '')); continue
    try:
        out = subprocess.run(['./check', '--all'], cwd='/verif', text=True, stdout=subprocess.PIPE, stderr=subprocess.STDOUT).stdout
    finally:
        subprocess.run(['git', '-C', '/repo', 'checkout', '--', '.'])
    viol = {}
    cur = None
    for l in out.splitlines():
        if l.startswith('VIOLATION property='):
            cur = l.split('property=')[1].split()[0]
        elif l.startswith('    rule ') and cur:
            viol.setdefault(cur, []).append(l.split('rule ')[1].split(' at ')[0])
    own = viol.get(prop, [])
    others = {k: v for k, v in viol.items() if k != prop}
    rows.append((name, prop, 'own check: ' + ('CAUGHT ' + ', '.join(own[:3]) if own else 'silent'), 'other checks: ' + (', '.join('%s(%s)' % (k, v[0]) for k, v in others.items()) or '-'), 'INFRA' if 'INFRA' in out else ''))
for r in rows:
    print(' | '.join(x for x in r if x))
subprocess.run(['git', '-C', '/repo', 'status', '--short'])
