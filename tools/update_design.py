#!/usr/bin/env python3
"""refresh the generated parts of DESIGN.md (seed table)"""
import subprocess, re
p = '/verif/DESIGN.md'
s = open(p).read()
tab = subprocess.run(['/verif/tools/seed_table.py'], text=True, stdout=subprocess.PIPE).stdout
a = s.index('<!-- SEED-TABLE-BEGIN -->') + len('<!-- SEED-TABLE-BEGIN -->')
b = s.index('<!-- SEED-TABLE-END -->')
s = s[:a] + '\n' + tab + s[b:]
import sys
sys.path.insert(0, '/verif/selftest')
from refactors import REFACTORS
s = re.sub(r'<!-- NREF -->\d+', '<!-- NREF -->%d' % len(REFACTORS), s)
open(p, 'w').write(s)
print('updated')
