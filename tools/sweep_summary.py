#!/usr/bin/env python3
"""sweep_summary.py <results.jsonl> — counts and the triaged survivor table for DESIGN.md section 12 (development aid)"""
import json, sys, collections
rows = [json.loads(l) for l in open(sys.argv[1])]
c = collections.Counter(j['status'] for j in rows)
def win(j):
    f, l = j['file'], j['line']
    return (f == 'src/communicate.rs' and 210 <= l <= 470) or (f == 'src/popen.rs' and 1005 <= l <= 1320)
print("total", len(rows), dict(c))
comp = [j for j in rows if j['status'] != 'no-compile']
print("compiling", len(comp), "flagged", c['flagged'], "= %.0f%%" % (100.0 * c['flagged'] / max(1, len(comp))))
byprop = collections.Counter()
for j in rows:
    for p in j.get('flagged') or []:
        byprop[p] += 1
print("flagged by property:", dict(sorted(byprop.items())))
sv = [j for j in rows if j['status'] in ('SURVIVED', 'timeout')]
print("survivors", len(sv), "in cfg(windows) code", sum(win(j) for j in sv))
kt = [j for j in rows if j['status'] == 'killed-by-tests']
print("not reported by the checks, killed by the repository tests:", len(kt))
if '-v' in sys.argv:
    for j in sv + kt:
        print(j['status'][:4], "W" if win(j) else " ", "%s:%d  %s  ->  %s" % (j['file'], j['line'], j['old'][:70], j['new'][:70]))
