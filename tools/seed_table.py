#!/usr/bin/env python3
"""print the markdown table of seeded changes (for DESIGN.md section 9) from seeded/*/meta.json"""
import json, os
rows = []
for name in sorted(os.listdir('/verif/seeded')):
    m = json.load(open(os.path.join('/verif/seeded', name, 'meta.json')))
    rows.append((name, m['property'], m['needs_to_manifest'], m['detection']['caught_by'], m['detection']['initially']))
print("| seeded change | property | needs, to manifest | check / rule that reports it | first run |")
print("|---|---|---|---|---|")
for r in rows:
    print("| `%s` | %s | %s | %s | %s |" % (r[0], r[1], r[2].replace("|", "\\|"), r[3].replace("|", "\\|"), r[4]))
print()
print("%d seeded changes.  First run: %d reported by their own property's check, %d only by the check of another property (the one whose clause they break), %d missed.  "
      "After strengthening the rules: %d reported, %d not (value-level, declared not decided)." % (
    len(rows), sum(1 for r in rows if r[4] == 'caught'), sum(1 for r in rows if r[4] == 'other-check'), sum(1 for r in rows if r[4] == 'missed'),
    sum(1 for r in rows if not r[3].startswith('NOT CAUGHT')), sum(1 for r in rows if r[3].startswith('NOT CAUGHT'))))
