#!/usr/bin/env python3
"""run_patches.py <dir> [--tier thorough] — apply each *.diff of <dir> to /repo in turn, run all checks, restore.
Used with independently authored behaviour-preserving refactorings: any VIOLATION is a false alarm to be examined
(development / self-test only, never part of a registered command)."""
import os, subprocess, sys
d = os.path.abspath(sys.argv[1])
tier = ['--tier', sys.argv[sys.argv.index('--tier') + 1]] if '--tier' in sys.argv else []
bad = 0
for f in sorted(os.listdir(d)):
    if not f.endswith('.diff'):
        continue
    subprocess.run(['git', '-C', '/repo', 'checkout', '--', '.'])
    r = subprocess.run(['git', '-C', '/repo', 'apply', os.path.join(d, f)], text=True, stdout=subprocess.PIPE, stderr=subprocess.STDOUT)
    if r.returncode:
        print('%-44s PATCH DOES NOT APPLY' % f); bad += 1; continue
    try:
        out = subprocess.run(['./check', '--all'] + tier, cwd='/verif', text=True, stdout=subprocess.PIPE, stderr=subprocess.STDOUT).stdout
    finally:
        subprocess.run(['git', '-C', '/repo', 'checkout', '--', '.'])
    viol = [l for l in out.splitlines() if l.startswith('    rule') or 'INFRA' in l]
    print('%-44s %s' % (f, 'clean' if not viol else 'ALARM'))
    for l in viol[:6]:
        print('      ' + l[:250])
    bad += bool(viol)
sys.exit(1 if bad else 0)
