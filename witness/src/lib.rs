//! Type-level witnesses (A8): clauses of C09 / C10 / C12 that are enforced by the type system itself.
//!
//! Every `compile_fail,E0xxx` block is a violating program that must be rejected with exactly that
//! error; the block right after it is its *compiling twin*, differing only in the offending line, so
//! that a witness whose paths are merely wrong cannot pass by failing for another reason.
//! Run with `cargo +nightly test --doc` (the stable toolchain ignores the error code).

/// C09/R09.6 — the state cannot be forged: `child_state` is private.
/// ```compile_fail,E0616
/// let mut p = subprocess::Popen::create(&["true"], subprocess::PopenConfig::default()).unwrap();
/// let _ = &p.child_state; // private field
/// p.detach();
/// ```
/// twin:
/// ```no_run
/// let mut p = subprocess::Popen::create(&["true"], subprocess::PopenConfig::default()).unwrap();
/// let _ = &p.stdin; // public field
/// p.detach();
/// ```
pub struct PrivateChildState;

/// C09/R09.6, C12/R12.1 — `detached` is private too: it can only be set through `detach()`.
/// ```compile_fail,E0616
/// let mut p = subprocess::Popen::create(&["true"], subprocess::PopenConfig::default()).unwrap();
/// p.detached = true;
/// ```
/// twin:
/// ```no_run
/// let mut p = subprocess::Popen::create(&["true"], subprocess::PopenConfig::default()).unwrap();
/// p.detach();
/// ```
pub struct PrivateDetached;

/// C09/R09.6 — a Popen cannot be duplicated (two handles could disagree about the final status and reap twice).
/// ```compile_fail,E0599
/// let p = subprocess::Popen::create(&["true"], subprocess::PopenConfig::default()).unwrap();
/// let _q = p.clone();
/// ```
/// twin:
/// ```no_run
/// let p = subprocess::Popen::create(&["true"], subprocess::PopenConfig::default()).unwrap();
/// let _q = p.pid();
/// ```
pub struct NoClone;

/// C09/R09.6 — a Popen cannot be built from its parts outside the crate (no forged `Finished`/`Running`).
/// ```compile_fail,E0451
/// let _p = subprocess::Popen { stdin: None, stdout: None, stderr: None, child_state: unimplemented!(), detached: false };
/// ```
/// twin:
/// ```no_run
/// let _c = subprocess::PopenConfig { detached: false, ..Default::default() };
/// ```
pub struct NoLiteral;

/// C09/R09.6 — status queries need exclusive access: `wait` through a shared reference is rejected.
/// ```compile_fail,E0596
/// let p = subprocess::Popen::create(&["true"], subprocess::PopenConfig::default()).unwrap();
/// let r = &p;
/// let _ = r.wait();
/// ```
/// twin:
/// ```no_run
/// let mut p = subprocess::Popen::create(&["true"], subprocess::PopenConfig::default()).unwrap();
/// let r = &mut p;
/// let _ = r.wait();
/// ```
pub struct WaitNeedsMut;

/// C10/R10.5 — a signal cannot be sent through a shared borrow that is alive across a `wait`:
/// the borrow checker excludes the "reaped while being signalled" interleaving.
/// ```compile_fail,E0502
/// use subprocess::unix::PopenExt;
/// let mut p = subprocess::Popen::create(&["true"], subprocess::PopenConfig::default()).unwrap();
/// let r = &p;
/// let _ = p.wait();
/// let _ = r.send_signal(15);
/// ```
/// twin:
/// ```no_run
/// use subprocess::unix::PopenExt;
/// let mut p = subprocess::Popen::create(&["true"], subprocess::PopenConfig::default()).unwrap();
/// let _ = p.wait();
/// let r = &p;
/// let _ = r.send_signal(15);
/// ```
pub struct SignalVsWait;

/// C12/R12.3 — the adapters returned by stream_stdout() own the process: the Popen cannot be moved out of
/// them (they are opaque `impl Read`), so their Drop — which closes the stream before waiting — always runs.
/// ```compile_fail,E0609
/// let a = subprocess::Exec::cmd("true").stream_stdout().unwrap();
/// let _p = a.0;
/// ```
/// twin:
/// ```no_run
/// use std::io::Read;
/// let mut a = subprocess::Exec::cmd("true").stream_stdout().unwrap();
/// let mut s = String::new();
/// let _ = a.read_to_string(&mut s);
/// ```
pub struct AdapterIsOpaque;

/// C16/R16.5 — `Exec` holds no shared mutable state observable from outside: its fields are private.
/// ```compile_fail,E0616
/// let e = subprocess::Exec::cmd("true");
/// let _ = &e.config;
/// ```
/// twin:
/// ```no_run
/// let e = subprocess::Exec::cmd("true");
/// let _ = e.clone();
/// ```
pub struct ExecFieldsPrivate;
