// OBSERVATION ONLY (outside the C01-C04 quantifiers: it needs a read() after a
// non-timeout error, and the error itself is known item (4)).
// cfg(windows) RawCommunicator copy: after a helper reported Payload::Err the
// helper's bit stays in helper_set, so a resumed read() waits for a helper that
// is gone and panics on the disconnected channel instead of returning the rest.
#![allow(dead_code, unused_must_use, clippy::all)]
include!("r1_winraw/mod.rs");

use subprocess::{Popen, PopenConfig, Redirection};

#[test]
fn resumed_read_after_stdin_error_panics() {
    let mut p = Popen::create(
        &["sh", "-c", "exec 0<&-; sleep 0.3; echo out"],
        PopenConfig {
            stdin: Redirection::Pipe,
            stdout: Redirection::Pipe,
            ..Default::default()
        },
    )
    .unwrap();
    let mut c = raw::RawCommunicator::new(p.stdin.take(), p.stdout.take(), None, Some(vec![b'x'; 500_000]));
    let (e, (o, _)) = c.read(None, None);
    eprintln!("first read: error {:?}, stdout {:?}", e.as_ref().map(|e| e.kind()), o);
    assert!(e.is_some()); // known item (4): BrokenPipe
    let r = std::panic::catch_unwind(std::panic::AssertUnwindSafe(|| c.read(None, None)));
    match &r {
        Ok((e, (o, _))) => eprintln!("second read: error {:?}, stdout {:?}", e.as_ref().map(|e| e.kind()), o),
        Err(_) => eprintln!("second read: PANIC"),
    }
    p.wait().unwrap();
    assert!(r.is_ok(), "resumed read panicked");
}
