// R1 defect 1 demonstration (C04: "for any t from zero up to durations far
// beyond the OS poll limit" a time-limited read returns; quantifier "for all
// limits t").
//
// Communicator::read() computes  deadline = Instant::now().checked_add(t)
// (src/communicate.rs:510-512) and treats an unrepresentable deadline as "no
// limit".  But for a limit that is *just* representable, maybe_poll() computes
// `deadline - now1` and posix::poll() (src/posix.rs:354) adds that back to a
// LATER clock reading with the unchecked `Instant::now() + timeout`:
//     now2 + (deadline - now1) = deadline + (now2 - now1)  >  deadline
// which overflows Instant and panics ("overflow when adding duration to
// instant") when `deadline` lies within (now2 - now1) of the largest Instant.
//
// The test computes such limits from CLOCK_MONOTONIC (which is what Instant
// is on Linux) and sweeps the sub-microsecond offset, because the width of the
// window is the time between two clock readings.
use std::time::Duration;
use subprocess::{Exec, Redirection};

fn mono_now() -> (i64, i64) {
    let mut ts = libc::timespec { tv_sec: 0, tv_nsec: 0 };
    unsafe { libc::clock_gettime(libc::CLOCK_MONOTONIC, &mut ts) };
    (ts.tv_sec as i64, ts.tv_nsec as i64)
}

#[test]
fn limit_just_below_largest_deadline() {
    std::panic::set_hook(Box::new(|_| ())); // keep the output readable
    let mut panics = 0;
    let mut ok = 0;
    let mut first: Option<(i64, Duration, String)> = None;
    for delta in (0..3000i64).step_by(10) {
        for _ in 0..3 {
            // the child exits at once, so a read that does not panic returns quickly
            let comm = Exec::cmd("true").stdout(Redirection::Pipe).communicate().unwrap();
            let mut used = Duration::from_secs(0);
            let r = std::panic::catch_unwind(std::panic::AssertUnwindSafe(|| {
                let (s, ns) = mono_now();
                // limit = (largest Instant) - now - delta nanoseconds
                let mut secs = (i64::MAX - s) as u64;
                let mut nanos = 999_999_999 - ns - delta;
                if nanos < 0 {
                    nanos += 1_000_000_000;
                    secs -= 1;
                }
                let limit = Duration::new(secs, nanos as u32);
                used = limit;
                let mut comm = comm.limit_time(limit);
                comm.read().map(|_| ()).map_err(|e| e.kind())
            }));
            match r {
                Ok(res) => {
                    assert_eq!(res, Ok(()));
                    ok += 1;
                }
                Err(payload) => {
                    panics += 1;
                    if first.is_none() {
                        let msg = payload
                            .downcast_ref::<&str>()
                            .map(|s| s.to_string())
                            .or_else(|| payload.downcast_ref::<String>().cloned())
                            .unwrap_or_default();
                        first = Some((delta, used, msg));
                    }
                }
            }
        }
    }
    let _ = std::panic::take_hook();
    eprintln!("{} reads returned Ok, {} reads panicked", ok, panics);
    if let Some((delta, limit, msg)) = &first {
        eprintln!(
            "first panic: limit_time({:?}) [= largest Instant - now - {} ns] -> panic: {}",
            limit, delta, msg
        );
    }
    assert_eq!(panics, 0, "Communicator::read() panicked for {} representable time limits", panics);
}
