// R1: randomized check of properties C01-C04 against
//  (a) the real Communicator (unix poll loop), and
//  (b) a verbatim copy of the cfg(windows) helper-thread RawCommunicator,
//      run on Linux over the pipes of a real child.
// The child is tests/r1_child.pl, which follows a little script.
#![allow(dead_code, unused_must_use, clippy::all)]

include!("r1_winraw/mod.rs");

use std::io;
use std::sync::{Arc, Mutex};
use std::time::{Duration, Instant};
use subprocess::{Communicator, Popen, PopenConfig, Redirection};

type ReadResult = (Option<io::Error>, (Option<Vec<u8>>, Option<Vec<u8>>));

trait Comm {
    fn read(&mut self, t: Option<Duration>, n: Option<usize>) -> ReadResult;
}

struct Real(Option<Communicator>);
impl Comm for Real {
    fn read(&mut self, t: Option<Duration>, n: Option<usize>) -> ReadResult {
        let mut c = self.0.take().unwrap();
        if let Some(t) = t {
            c = c.limit_time(t);
        }
        if let Some(n) = n {
            c = c.limit_size(n);
        }
        let r = c.read();
        self.0 = Some(c);
        match r {
            Ok(cap) => (None, cap),
            Err(e) => (Some(e.error), e.capture),
        }
    }
}

struct Win(raw::RawCommunicator);
impl Comm for Win {
    fn read(&mut self, t: Option<Duration>, n: Option<usize>) -> ReadResult {
        // same deadline computation as Communicator::read
        let deadline = t.and_then(|timeout| Instant::now().checked_add(timeout));
        self.0.read(deadline, n)
    }
}

struct Rng(u64);
impl Rng {
    fn next(&mut self) -> u64 {
        let mut x = self.0;
        x ^= x << 13;
        x ^= x >> 7;
        x ^= x << 17;
        self.0 = x;
        x
    }
    fn below(&mut self, n: usize) -> usize {
        (self.next() % n as u64) as usize
    }
    fn pick<T: Copy>(&mut self, v: &[T]) -> T {
        v[self.below(v.len())]
    }
    fn chance(&mut self, pct: usize) -> bool {
        self.below(100) < pct
    }
}

fn out_pattern(n: usize) -> Vec<u8> {
    (0..n).map(|i| (i % 251) as u8).collect()
}
fn err_pattern(n: usize) -> Vec<u8> {
    (0..n).map(|i| 255 - (i % 241) as u8).collect()
}
fn in_pattern(n: usize) -> Vec<u8> {
    (0..n).map(|i| ((i % 239) as u8) ^ 0xa5).collect()
}

#[derive(Debug, Clone)]
struct Scenario {
    seed: u64,
    pipe_in: bool,
    pipe_out: bool,
    pipe_err: bool,
    input_len: usize,
    prog: String,
    out_total: usize,
    err_total: usize,
    use_size: bool,
    use_time: bool,
}

fn gen(seed: u64) -> Scenario {
    let mut r = Rng(seed.wrapping_mul(0x9E3779B97F4A7C15) | 1);
    for _ in 0..4 {
        r.next();
    }
    let pipe_in = r.chance(60);
    let mut pipe_out = r.chance(75);
    let pipe_err = r.chance(60);
    if !pipe_in && !pipe_out && !pipe_err {
        pipe_out = true;
    }
    let input_len = if pipe_in {
        r.pick(&[0, 1, 100, 4095, 4096, 4097, 65536, 65537, 200_000, 1_000_000])
    } else {
        0
    };
    let sizes = [1usize, 10, 4095, 4096, 4097, 10000, 65536, 70000, 300000];
    let chunks = [0usize, 0, 100, 4096, 5000, 1];
    let nops = 2 + r.below(9);
    let mut ops = vec![];
    let (mut out_total, mut err_total) = (0, 0);
    let mut stdin_done = !pipe_in;
    let mut out_open = pipe_out;
    let mut err_open = pipe_err;
    for _ in 0..nops {
        match r.below(8) {
            0 | 1 if out_open => {
                let n = r.pick(&sizes);
                let mut c = r.pick(&chunks);
                if c == 1 && n > 10000 {
                    c = 0;
                }
                out_total += n;
                ops.push(if c == 0 { format!("o{}", n) } else { format!("o{}/{}", n, c) });
            }
            2 | 3 if err_open => {
                let n = r.pick(&sizes);
                let mut c = r.pick(&chunks);
                if c == 1 && n > 10000 {
                    c = 0;
                }
                err_total += n;
                ops.push(if c == 0 { format!("e{}", n) } else { format!("e{}/{}", n, c) });
            }
            4 => ops.push(format!("s{}", r.pick(&[1, 3, 10, 30]))),
            5 if !stdin_done => ops.push(format!("r{}", r.pick(&sizes))),
            6 if !stdin_done => {
                ops.push("R".to_string());
                stdin_done = true;
                if r.chance(50) {
                    ops.push("ci".to_string());
                }
            }
            7 => {
                // close an output stream early
                if out_open && r.chance(30) {
                    ops.push("co".to_string());
                    out_open = false;
                } else if err_open && r.chance(30) {
                    ops.push("ce".to_string());
                    err_open = false;
                }
            }
            _ => (),
        }
    }
    if !stdin_done {
        ops.push("R".to_string());
    }
    if r.chance(30) {
        // close everything, then linger a bit before exiting
        if out_open {
            ops.push("co".to_string());
        }
        if err_open {
            ops.push("ce".to_string());
        }
        ops.push("s20".to_string());
    }
    Scenario {
        seed,
        pipe_in,
        pipe_out,
        pipe_err,
        input_len,
        prog: ops.join(","),
        out_total,
        err_total,
        use_size: r.chance(60),
        use_time: r.chance(60),
    }
}

fn child_script() -> String {
    format!("{}/tests/r1_child.pl", env!("CARGO_MANIFEST_DIR"))
}

fn run_scenario(sc: &Scenario, windows_copy: bool) -> Result<(), String> {
    let mut r = Rng(sc.seed.wrapping_mul(0xD1B54A32D192ED03) | 1);
    for _ in 0..4 {
        r.next();
    }
    let dir = tempfile::tempdir().unwrap();
    let recv_path = dir.path().join("recv");
    let pipe = |b| if b { Redirection::Pipe } else { Redirection::None };
    let mut p = Popen::create(
        &["perl", &child_script(), recv_path.to_str().unwrap(), &sc.prog],
        PopenConfig {
            stdin: pipe(sc.pipe_in),
            stdout: pipe(sc.pipe_out),
            stderr: pipe(sc.pipe_err),
            ..Default::default()
        },
    )
    .unwrap();
    let input = in_pattern(sc.input_len);
    let input_opt = if sc.pipe_in { Some(input.clone()) } else { None };
    let mut comm: Box<dyn Comm> = if windows_copy {
        Box::new(Win(raw::RawCommunicator::new(
            p.stdin.take(),
            p.stdout.take(),
            p.stderr.take(),
            input_opt,
        )))
    } else {
        Box::new(Real(Some(p.communicate_start(input_opt))))
    };

    let size_choices = [1usize, 2, 100, 4095, 4096, 4097, 8192, 10000, 100000, 10_000_000];
    let time_choices = [
        Duration::from_secs(0),
        Duration::from_micros(300),
        Duration::from_millis(1),
        Duration::from_millis(5),
        Duration::from_millis(20),
        Duration::from_millis(50),
        Duration::from_secs(3_000_000), // > 2^31 ms
        Duration::from_secs(u64::MAX),  // not representable as a deadline
    ];

    let mut got_out = vec![];
    let mut got_err = vec![];
    let mut log = vec![];
    let mut nreads = 0;
    let result = (|| -> Result<(), String> {
        loop {
            nreads += 1;
            if nreads > 3_000_000 {
                return Err("too many reads".into());
            }
            let n = if sc.use_size { Some(r.pick(&size_choices)) } else { None };
            let t = if sc.use_time { Some(r.pick(&time_choices)) } else { None };
            let start = Instant::now();
            let (err, (o, e)) = comm.read(t, n);
            let elapsed = start.elapsed();
            if log.len() < 40 {
                log.push(format!(
                    "read(t={:?}, n={:?}) -> err={:?} out={:?} err={:?} in {:?}",
                    t,
                    n,
                    err.as_ref().map(|e| e.kind()),
                    o.as_ref().map(|v| v.len()),
                    e.as_ref().map(|v| v.len()),
                    elapsed
                ));
            }
            if o.is_some() != sc.pipe_out || e.is_some() != sc.pipe_err {
                return Err(format!("presence of streams wrong: out {:?} err {:?}", o.is_some(), e.is_some()));
            }
            let (o, e) = (o.unwrap_or_default(), e.unwrap_or_default());
            if let Some(n) = n {
                if o.len() + e.len() > n {
                    return Err(format!("C03: read returned {} > limit {}", o.len() + e.len(), n));
                }
            }
            let piece_empty = o.is_empty() && e.is_empty();
            got_out.extend_from_slice(&o);
            got_err.extend_from_slice(&e);
            if let Some(t) = t {
                if t < Duration::from_secs(1000) && elapsed > t + Duration::from_millis(700) {
                    return Err(format!("C04: read with limit {:?} took {:?}", t, elapsed));
                }
            }
            match err {
                Some(err) if err.kind() == io::ErrorKind::TimedOut => {
                    match t {
                        None => return Err("C04: timeout without a limit".into()),
                        Some(t) => {
                            if elapsed + Duration::from_millis(1) < t {
                                return Err(format!(
                                    "C04: timeout reported after {:?} with limit {:?}",
                                    elapsed, t
                                ));
                            }
                        }
                    }
                    continue;
                }
                Some(err) => return Err(format!("unexpected error {:?}", err)),
                None => {
                    if n.is_none() {
                        break; // complete
                    }
                    if piece_empty {
                        break; // marks EOF
                    }
                }
            }
        }
        // everything must have been delivered when a read says "complete"
        if got_out != out_pattern(sc.out_total) {
            return Err(format!(
                "stdout mismatch: got {} bytes, expected {}",
                got_out.len(),
                sc.out_total
            ));
        }
        if got_err != err_pattern(sc.err_total) {
            return Err(format!(
                "stderr mismatch: got {} bytes, expected {}",
                got_err.len(),
                sc.err_total
            ));
        }
        // and further reads stay empty
        let (err, (o, e)) = comm.read(None, None);
        if err.is_some() || !o.unwrap_or_default().is_empty() || !e.unwrap_or_default().is_empty() {
            return Err("read after the end not empty".into());
        }
        Ok(())
    })();
    drop(comm);
    if result.is_err() {
        p.kill().ok();
    }
    let status = p.wait().unwrap();
    let result = result.and_then(|()| {
        if !status.success() {
            return Err(format!("child failed: {:?}", status));
        }
        if sc.pipe_in {
            let recv = std::fs::read(&recv_path).map_err(|e| format!("recv file: {}", e))?;
            if recv != input {
                return Err(format!("C02: child received {} bytes, expected {}", recv.len(), input.len()));
            }
        }
        Ok(())
    });
    result.map_err(|e| format!("{}\n  scenario: {:?}\n  reads:\n    {}", e, sc, log.join("\n    ")))
}

fn run_all(windows_copy: bool, count: u64) {
    let current = Arc::new(Mutex::new((String::new(), Instant::now(), false)));
    {
        let current = Arc::clone(&current);
        std::thread::spawn(move || loop {
            std::thread::sleep(Duration::from_millis(500));
            let c = current.lock().unwrap();
            if c.2 {
                break;
            }
            if c.1.elapsed() > Duration::from_secs(60) {
                eprintln!("WATCHDOG: scenario hangs (C01): {}", c.0);
                std::process::abort();
            }
        });
    }
    let mut failures = vec![];
    for seed in 1..=count {
        let sc = gen(seed);
        *current.lock().unwrap() = (format!("{:?}", sc), Instant::now(), false);
        if let Err(e) = run_scenario(&sc, windows_copy) {
            eprintln!("FAIL seed {}: {}", seed, e);
            failures.push(seed);
            if failures.len() >= 5 {
                break;
            }
        }
    }
    current.lock().unwrap().2 = true;
    assert!(failures.is_empty(), "failing seeds: {:?}", failures);
}

fn count() -> u64 {
    std::env::var("R1_COUNT").ok().and_then(|s| s.parse().ok()).unwrap_or(300)
}

#[test]
fn stress_real_unix() {
    run_all(false, count());
}

#[test]
fn stress_windows_copy() {
    run_all(true, count());
}
