// C02: end-of-file on the child's stdin right after the last input byte, even
// while output is still being produced.  Checked for the real (unix)
// Communicator and for the verbatim copy of the cfg(windows) implementation.
#![allow(dead_code, unused_must_use, clippy::all)]
include!("r1_winraw/mod.rs");

use std::time::{Duration, Instant, SystemTime, UNIX_EPOCH};
use subprocess::{Popen, PopenConfig, Redirection};

const CHILD: &str = r#"use Time::HiRes qw(time); $f=shift;
if (fork()==0) { close(STDOUT); $n=0; while($r=sysread(STDIN,$b,65536)){$n+=$r}; open F,">$f"; print F time()," ",$n; close F; exit 0 }
close(STDIN); $end=time()+1.5; $blk="x" x 65536; while(time()<$end){syswrite(STDOUT,$blk)} wait;"#;

fn run(windows_copy: bool, input_len: usize) {
    let dir = tempfile::tempdir().unwrap();
    let f = dir.path().join("eof");
    let mut p = Popen::create(
        &["perl", "-e", CHILD, f.to_str().unwrap()],
        PopenConfig {
            stdin: Redirection::Pipe,
            stdout: Redirection::Pipe,
            ..Default::default()
        },
    )
    .unwrap();
    let input = vec![b'i'; input_len];
    let t0 = SystemTime::now().duration_since(UNIX_EPOCH).unwrap().as_secs_f64();
    let start = Instant::now();
    let out_len = if windows_copy {
        let mut c = raw::RawCommunicator::new(p.stdin.take(), p.stdout.take(), None, Some(input));
        let (e, (o, _)) = c.read(None, None);
        assert!(e.is_none());
        o.unwrap().len()
    } else {
        let (o, _) = p.communicate_bytes(Some(&input)).unwrap();
        o.unwrap().len()
    };
    let total = start.elapsed();
    p.wait().unwrap();
    let s = std::fs::read_to_string(&f).unwrap();
    let mut it = s.split(' ');
    let teof: f64 = it.next().unwrap().parse().unwrap();
    let n: usize = it.next().unwrap().parse().unwrap();
    eprintln!(
        "windows_copy={} input={}: child saw EOF {:.3}s after start having read {} bytes; exchange took {:?}, {} bytes of output",
        windows_copy, input_len, teof - t0, n, total, out_len
    );
    assert_eq!(n, input_len);
    assert!(teof - t0 < 0.7, "EOF only after {:.3}s", teof - t0);
    assert!(total >= Duration::from_millis(1400));
}

#[test]
fn eof_prompt_real_small() { run(false, 10) }
#[test]
fn eof_prompt_real_large() { run(false, 1_000_000) }
#[test]
fn eof_prompt_real_empty() { run(false, 0) }
#[test]
fn eof_prompt_wincopy_small() { run(true, 10) }
#[test]
fn eof_prompt_wincopy_large() { run(true, 1_000_000) }
#[test]
fn eof_prompt_wincopy_empty() { run(true, 0) }
