// VERBATIM copy of lines 211-425 of src/communicate.rs: the cfg(windows)
// `mod raw` (helper-thread RawCommunicator).  Only the #[cfg(windows)]
// attribute line is dropped.  The module uses nothing but std (File, threads,
// mpsc), so it compiles and runs unchanged on Linux over real pipes.
mod raw {
    use std::fs::File;
    use std::io::{self, Read, Write};
    use std::sync::mpsc::{self, RecvTimeoutError, SyncSender};
    use std::thread;
    use std::time::Instant;

    #[derive(Debug, Copy, Clone)]
    enum StreamIdent {
        In = 1 << 0,
        Out = 1 << 1,
        Err = 1 << 2,
    }

    enum Payload {
        Data(Vec<u8>),
        EOF,
        Err(io::Error),
    }

    // Messages exchanged between RawCommunicator's helper threads.
    type Message = (StreamIdent, Payload);

    fn read_and_transmit(mut outfile: File, ident: StreamIdent, sink: SyncSender<Message>) {
        let mut chunk = [0u8; 4096];
        // Note: failing to send to the sink means we're done.  Sending will
        // fail if the main thread drops the RawCommunicator (and with it the
        // receiver) prematurely e.g. because a limit was reached or another
        // helper encountered an IO error.
        loop {
            match outfile.read(&mut chunk) {
                Ok(0) => {
                    let _ = sink.send((ident, Payload::EOF));
                    break;
                }
                Ok(nread) => {
                    if let Err(_) = sink.send((ident, Payload::Data(chunk[..nread].to_vec()))) {
                        break;
                    }
                }
                Err(e) => {
                    let _ = sink.send((ident, Payload::Err(e)));
                    break;
                }
            }
        }
    }

    fn spawn_with_arg<T: Send + 'static>(f: impl FnOnce(T) + Send + 'static, arg: T) {
        thread::spawn(move || f(arg));
    }

    #[derive(Debug)]
    pub struct RawCommunicator {
        rx: mpsc::Receiver<Message>,
        helper_set: u8,
        requested_streams: u8,
        leftover: Option<(StreamIdent, Vec<u8>)>,
    }

    struct Timeout;

    impl RawCommunicator {
        pub fn new(
            stdin: Option<File>,
            stdout: Option<File>,
            stderr: Option<File>,
            input_data: Option<Vec<u8>>,
        ) -> RawCommunicator {
            let mut helper_set = 0u8;
            let mut requested_streams = 0u8;

            let read_stdout = stdout.map(|stdout| {
                helper_set |= StreamIdent::Out as u8;
                requested_streams |= StreamIdent::Out as u8;
                |tx| read_and_transmit(stdout, StreamIdent::Out, tx)
            });
            let read_stderr = stderr.map(|stderr| {
                helper_set |= StreamIdent::Err as u8;
                requested_streams |= StreamIdent::Err as u8;
                |tx| read_and_transmit(stderr, StreamIdent::Err, tx)
            });
            let write_stdin = stdin.map(|mut stdin| {
                let input_data = input_data.expect("must provide input to redirected stdin");
                helper_set |= StreamIdent::In as u8;
                move |tx: SyncSender<_>| match stdin.write_all(&input_data) {
                    Ok(()) => drop(tx.send((StreamIdent::In, Payload::EOF))),
                    Err(e) => drop(tx.send((StreamIdent::In, Payload::Err(e)))),
                }
            });

            let (tx, rx) = mpsc::sync_channel(0);

            read_stdout.map(|f| spawn_with_arg(f, tx.clone()));
            read_stderr.map(|f| spawn_with_arg(f, tx.clone()));
            write_stdin.map(|f| spawn_with_arg(f, tx.clone()));

            RawCommunicator {
                rx,
                helper_set,
                requested_streams,
                leftover: None,
            }
        }

        fn recv_until(&self, deadline: Option<Instant>) -> Result<Message, Timeout> {
            if let Some(deadline) = deadline {
                match self
                    .rx
                    .recv_timeout(deadline.saturating_duration_since(Instant::now()))
                {
                    Ok(message) => Ok(message),
                    Err(RecvTimeoutError::Timeout) => Err(Timeout),
                    // should never be disconnected, the helper threads always
                    // announce their exit beforehand
                    Err(RecvTimeoutError::Disconnected) => unreachable!(),
                }
            } else {
                Ok(self.rx.recv().unwrap())
            }
        }

        fn read_into(
            &mut self,
            deadline: Option<Instant>,
            size_limit: Option<usize>,
            outvec: &mut Vec<u8>,
            errvec: &mut Vec<u8>,
        ) -> io::Result<()> {
            let mut grow_result =
                |ident, mut data: &[u8], leftover: &mut Option<(StreamIdent, Vec<u8>)>| {
                    if let Some(size_limit) = size_limit {
                        let total_read = outvec.len() + errvec.len();
                        if total_read >= size_limit {
                            return false;
                        }
                        let remaining = size_limit - total_read;
                        if data.len() > remaining {
                            *leftover = Some((ident, data[remaining..].to_vec()));
                            data = &data[..remaining];
                        }
                    }
                    match ident {
                        StreamIdent::Out => outvec.extend_from_slice(data),
                        StreamIdent::Err => errvec.extend_from_slice(data),
                        StreamIdent::In => unreachable!(),
                    }
                    if let Some(size_limit) = size_limit {
                        if outvec.len() + errvec.len() >= size_limit {
                            return false;
                        }
                    }
                    return true;
                };

            if let Some((ident, data)) = self.leftover.take() {
                if !grow_result(ident, &data, &mut self.leftover) {
                    return Ok(());
                }
            }

            while self.helper_set != 0 {
                match self.recv_until(deadline) {
                    Ok((ident, Payload::EOF)) => {
                        self.helper_set &= !(ident as u8);
                        continue;
                    }
                    Ok((ident, Payload::Data(data))) => {
                        assert!(data.len() != 0);
                        if !grow_result(ident, &data, &mut self.leftover) {
                            break;
                        }
                    }
                    Ok((_ident, Payload::Err(e))) => {
                        return Err(e);
                    }
                    Err(Timeout) => {
                        return Err(io::Error::new(io::ErrorKind::TimedOut, "timeout"));
                    }
                }
            }
            Ok(())
        }

        pub fn read(
            &mut self,
            deadline: Option<Instant>,
            size_limit: Option<usize>,
        ) -> (Option<io::Error>, (Option<Vec<u8>>, Option<Vec<u8>>)) {
            // Create both vectors immediately.  This doesn't allocate, and if
            // one of those is not needed, it just won't get resized.
            let mut outvec = vec![];
            let mut errvec = vec![];

            let err = self
                .read_into(deadline, size_limit, &mut outvec, &mut errvec)
                .err();
            let output = {
                let (mut o, mut e) = (None, None);
                if self.requested_streams & StreamIdent::Out as u8 != 0 {
                    o = Some(outvec);
                } else {
                    assert!(outvec.len() == 0);
                }
                if self.requested_streams & StreamIdent::Err as u8 != 0 {
                    e = Some(errvec);
                } else {
                    assert!(errvec.len() == 0);
                }
                (o, e)
            };
            (err, output)
        }
    }
}
