#!/usr/bin/perl
# Scripted child for the R1 communicate tests.
# usage: r1_child.pl <file-for-received-stdin> <op,op,...>
#   o<N>[/<chunk>]  write N bytes of the stdout pattern (in chunk-sized writes)
#   e<N>[/<chunk>]  write N bytes of the stderr pattern
#   s<ms>           sleep
#   r<N>            read N bytes of stdin (or up to EOF)
#   R               read stdin up to EOF
#   co ce ci        close stdout / stderr / stdin
# Everything read from stdin is written to the file when the script ends.
use strict;
use warnings;
use Time::HiRes qw(usleep);

my $file = shift @ARGV;
my $prog = shift @ARGV;
my ($opos, $epos) = (0, 0);
my $recv = '';
my $PO = join('', map { chr($_ % 251) } 0 .. 250);
my $PE = join('', map { chr(255 - ($_ % 241)) } 0 .. 240);
$SIG{PIPE} = 'IGNORE';

sub emit {
    my ($fh, $pat, $posref, $n, $chunk) = @_;
    my $plen = length($pat);
    my $big  = $pat x (int($n / $plen) + 2);
    my $data = substr($big, $$posref % $plen, $n);
    $$posref += $n;
    my $off = 0;
    while ($off < $n) {
        my $len = $n - $off;
        $len = $chunk if $chunk && $len > $chunk;
        my $w = syswrite($fh, $data, $len, $off);
        die "write failed: $!" unless defined $w;
        $off += $w;
    }
}

sub slurp {
    my ($n) = @_;    # undef = to EOF
    while (!defined($n) || $n > 0) {
        my $want = defined($n) ? ($n > 65536 ? 65536 : $n) : 65536;
        my $r = sysread(STDIN, my $buf, $want);
        die "read failed: $!" unless defined $r;
        last if $r == 0;
        $recv .= $buf;
        $n -= $r if defined $n;
    }
}

for my $op (split /,/, $prog) {
    if    ($op =~ /^o(\d+)(?:\/(\d+))?$/) { emit(\*STDOUT, $PO, \$opos, $1, $2) }
    elsif ($op =~ /^e(\d+)(?:\/(\d+))?$/) { emit(\*STDERR, $PE, \$epos, $1, $2) }
    elsif ($op =~ /^s(\d+)$/)             { usleep($1 * 1000) }
    elsif ($op =~ /^r(\d+)$/)             { slurp($1) }
    elsif ($op eq 'R')                    { slurp(undef) }
    elsif ($op eq 'co')                   { close(STDOUT) }
    elsif ($op eq 'ce')                   { close(STDERR) }
    elsif ($op eq 'ci')                   { close(STDIN) }
    else                                  { die "bad op $op" }
}
if ($file ne "-") {
    no warnings;
    open(my $fh, '>', $file) or die "open $file: $!";
    binmode($fh);
    print $fh $recv;
    close($fh);
}
exit 0;
