// Pipeline / Exec communicate with limits, Merge, and the text variants.
use std::time::Duration;
use subprocess::{Exec, Popen, PopenConfig, Redirection};

fn in_pattern(n: usize) -> Vec<u8> {
    (0..n).map(|i| ((i % 239) as u8) ^ 0xa5).collect()
}

fn watchdog(secs: u64) {
    std::thread::spawn(move || {
        std::thread::sleep(Duration::from_secs(secs));
        eprintln!("WATCHDOG: hang");
        std::process::abort();
    });
}

#[test]
fn pipeline_limits_and_timeouts() {
    watchdog(120);
    let input = in_pattern(3_000_000);
    // first command copies stdin to stdout and, per 64K block, 100 bytes to stderr
    let first = Exec::cmd("perl").arg("-e").arg(
        r#"$|=1; while(($r=sysread(STDIN,$b,65536))){ syswrite(STDOUT,$b); syswrite(STDERR,"E" x 100); select(undef,undef,undef,0.002) }"#,
    );
    let second = Exec::cmd("cat");
    let mut comm = (first | second).stdin(input.clone()).communicate().unwrap();
    let mut out = vec![];
    let mut err = vec![];
    let mut limits = [1usize, 4095, 4096, 4097, 100_000, 7].iter().cycle();
    let mut timeouts = 0;
    loop {
        comm = comm.limit_size(*limits.next().unwrap()).limit_time(Duration::from_millis(3));
        match comm.read() {
            Ok((o, e)) => {
                let (o, e) = (o.unwrap(), e.unwrap());
                if o.is_empty() && e.is_empty() {
                    break;
                }
                out.extend(o);
                err.extend(e);
            }
            Err(ce) => {
                assert_eq!(ce.kind(), std::io::ErrorKind::TimedOut);
                timeouts += 1;
                out.extend(ce.capture.0.unwrap());
                err.extend(ce.capture.1.unwrap());
            }
        }
    }
    eprintln!("timeouts {} out {} err {}", timeouts, out.len(), err.len());
    assert!(out == input);
    assert!(err.iter().all(|&b| b == b'E'));
    assert!(err.len() >= 100 * (3_000_000 / 65536));
}

#[test]
fn merge_and_text_variants() {
    watchdog(120);
    // invalid UTF-8 in the output, split multi-byte sequences
    let mut p = Popen::create(
        &["perl", "-e", r#"$|=1; print "a\xff\xfeb\xc3"; print STDERR "\xa9c\x00d"; print "\xe2\x82";"#],
        PopenConfig {
            stdout: Redirection::Pipe,
            stderr: Redirection::Merge,
            ..Default::default()
        },
    )
    .unwrap();
    let (o, e) = p.communicate(None).unwrap();
    assert!(e.is_none());
    let expect = b"a\xff\xfeb\xc3\xa9c\x00d\xe2\x82";
    assert_eq!(o.unwrap(), String::from_utf8_lossy(expect));

    let cap = Exec::cmd("perl")
        .arg("-e")
        .arg(r#"binmode STDIN; binmode STDOUT; local $/; $d=<STDIN>; print $d; print STDERR scalar reverse $d"#)
        .stdin(b"\x00\xffxyz\xc3".to_vec())
        .stdout(Redirection::Pipe)
        .stderr(Redirection::Pipe)
        .capture()
        .unwrap();
    assert_eq!(cap.stdout, b"\x00\xffxyz\xc3");
    assert_eq!(cap.stderr, b"\xc3zyx\xff\x00");
    assert_eq!(cap.stdout_str(), String::from_utf8_lossy(b"\x00\xffxyz\xc3"));
    assert_eq!(cap.stderr_str(), String::from_utf8_lossy(b"\xc3zyx\xff\x00"));

    // read_string with limits: each piece is the lossy decoding of the bytes of that piece
    let mut comm = Exec::cmd("perl")
        .arg("-e")
        .arg(r#"print "\xe2\x82\xac" x 1000"#)
        .stdout(Redirection::Pipe)
        .communicate()
        .unwrap()
        .limit_size(4);
    let mut total = 0;
    loop {
        let (o, _) = comm.read_string().unwrap();
        let o = o.unwrap();
        if o.is_empty() {
            break;
        }
        total += 1;
        assert!(o.chars().count() <= 4);
    }
    assert_eq!(total, 750);
}

#[test]
fn grandchild_keeps_stream_open_time_limit() {
    watchdog(120);
    // child exits at once, a grandchild keeps stdout open for 1 s and then writes
    let mut comm = Exec::cmd("sh")
        .arg("-c")
        .arg("(sleep 1; echo late) & echo early")
        .stdout(Redirection::Pipe)
        .stderr(Redirection::Pipe)
        .communicate()
        .unwrap()
        .limit_time(Duration::from_millis(200));
    let mut out = vec![];
    let mut timeouts = 0;
    let start = std::time::Instant::now();
    loop {
        match comm.read() {
            Ok((o, _)) => {
                out.extend(o.unwrap());
                break;
            }
            Err(ce) => {
                assert_eq!(ce.kind(), std::io::ErrorKind::TimedOut);
                out.extend(ce.capture.0.unwrap());
                timeouts += 1;
            }
        }
    }
    assert_eq!(out, b"early\nlate\n");
    assert!(timeouts >= 3 && timeouts <= 6, "timeouts {}", timeouts);
    assert!(start.elapsed() < Duration::from_millis(1500));
}

#[test]
fn flooding_child_time_limit_real_and_resume() {
    watchdog(120);
    // floods both streams; 100 ms limit per read, three reads, streams stay consistent
    let mut comm = Exec::cmd("sh")
        .arg("-c")
        .arg("yes eeeeeee >&2 & exec yes ooooooo")
        .stdout(Redirection::Pipe)
        .stderr(Redirection::Pipe)
        .communicate()
        .unwrap()
        .limit_time(Duration::from_millis(100));
    let (mut out, mut err) = (vec![], vec![]);
    for _ in 0..3 {
        let start = std::time::Instant::now();
        let ce = comm.read().unwrap_err();
        let el = start.elapsed();
        assert_eq!(ce.kind(), std::io::ErrorKind::TimedOut);
        assert!(el >= Duration::from_millis(99) && el < Duration::from_millis(400), "{:?}", el);
        out.extend(ce.capture.0.unwrap());
        err.extend(ce.capture.1.unwrap());
    }
    drop(comm);
    assert!(out.len() > 100_000 && err.len() > 100_000);
    assert!(out.chunks(8).all(|c| b"ooooooo\n".starts_with(c)));
    assert!(err.chunks(8).all(|c| b"eeeeeee\n".starts_with(c)));
}
