// H2 demonstration: the exec-status ("exec_fail") pipe of Popen::create is an
// ordinary pipe() and can land on descriptors 0/1/2 when the parent runs with
// some of its standard descriptors closed (daemon-style).  The child then
// clobbers it with dup2() while wiring the requested redirections, or hands
// it to the program as a standard stream.
//
// Run:
//   cd /tmp/seeds/H2 && CARGO_TARGET_DIR=/tmp/seeds/H2/target \
//     cargo test --offline --test h2_closed_std_fds -- --test-threads=1

use std::io::Read;
use std::sync::Mutex;
use std::time::{Duration, Instant};

use subprocess::{Popen, PopenConfig, Redirection};

static LOCK: Mutex<()> = Mutex::new(());

/// Run `f` with the given standard descriptors closed in this process, then
/// put them back.  Whatever `f` returns is handed back so that assertions (and
/// their output) happen with the standard descriptors restored.
fn with_closed<T>(fds: &[i32], f: impl FnOnce() -> T) -> T {
    let _guard = LOCK.lock().unwrap_or_else(|e| e.into_inner());
    let saved: Vec<(i32, i32)> = fds
        .iter()
        .map(|&fd| {
            let copy = unsafe { libc::fcntl(fd, libc::F_DUPFD_CLOEXEC, 100) };
            assert!(copy >= 100, "cannot save fd {}", fd);
            (fd, copy)
        })
        .collect();
    for &fd in fds {
        unsafe { libc::close(fd) };
    }
    let ret = std::panic::catch_unwind(std::panic::AssertUnwindSafe(f));
    for &(fd, copy) in &saved {
        unsafe {
            libc::dup2(copy, fd);
            libc::close(copy);
        }
    }
    match ret {
        Ok(v) => v,
        Err(p) => std::panic::resume_unwind(p),
    }
}

/// Watchdog: abort the whole test binary if something hangs.
fn watchdog(secs: u64) {
    std::thread::spawn(move || {
        std::thread::sleep(Duration::from_secs(secs));
        eprintln!("watchdog: test binary still running after {}s", secs);
        std::process::abort();
    });
}

// Sanity check: with all standard descriptors open, a missing program is an
// error (this passes).
#[test]
fn a_control_missing_program_is_an_error() {
    watchdog(60);
    let r = with_closed(&[], || {
        Popen::create(
            &["/nonexistent/h2-no-such-program"],
            PopenConfig {
                stdout: Redirection::Pipe,
                ..Default::default()
            },
        )
        .map(|_| ())
        .map_err(|e| format!("{:?}", e))
    });
    assert!(r.is_err(), "control: expected an error, got {:?}", r);
}

// C07: "Creating a process returns a handle only when the program image was
// actually started ... [otherwise] the call returns an error carrying the
// operating-system error of the step that failed".
//
// Parent has fds 0 and 1 closed -> exec_fail_pipe = (fd 0, fd 1).  The child
// dup2()s its stdout pipe end onto fd 1, destroying the write end of the
// status pipe; the parent reads EOF and reports success although exec failed.
// The 4 errno bytes are written into the child's *stdout* instead.
#[test]
fn b_missing_program_with_stdin_stdout_closed_and_stdout_pipe() {
    watchdog(60);
    let (created, stdout_bytes, exit) = with_closed(&[0, 1], || {
        let r = Popen::create(
            &["/nonexistent/h2-no-such-program"],
            PopenConfig {
                stdout: Redirection::Pipe,
                ..Default::default()
            },
        );
        match r {
            Ok(mut p) => {
                let mut out = Vec::new();
                p.stdout.take().unwrap().read_to_end(&mut out).unwrap();
                let exit = p.wait().ok();
                (Ok(()), out, exit)
            }
            Err(e) => (Err(format!("{:?}", e)), Vec::new(), None),
        }
    });
    println!(
        "create() -> {:?}; bytes that appeared on child's stdout: {:?}; exit: {:?}",
        created, stdout_bytes, exit
    );
    assert!(
        created.is_err(),
        "Popen::create returned Ok(Popen) for a program that does not exist; \
         stdout carried {:?} (ENOENT as LE u32), exit status {:?}",
        stdout_bytes,
        exit
    );
}

// Same thing with stdout/stderr closed (fd 0 open): exec_fail_pipe = (1, 2)
// and any stderr redirection clobbers the write end.
#[test]
fn c_missing_program_with_stdout_stderr_closed_and_stderr_pipe() {
    watchdog(60);
    let (created, stderr_bytes) = with_closed(&[1, 2], || {
        let r = Popen::create(
            &["/nonexistent/h2-no-such-program"],
            PopenConfig {
                stderr: Redirection::Pipe,
                ..Default::default()
            },
        );
        match r {
            Ok(mut p) => {
                let mut out = Vec::new();
                p.stderr.take().unwrap().read_to_end(&mut out).unwrap();
                p.wait().ok();
                (Ok(()), out)
            }
            Err(e) => (Err(format!("{:?}", e)), Vec::new()),
        }
    });
    assert!(
        created.is_err(),
        "Popen::create returned Ok(Popen) for a program that does not exist; \
         stderr carried {:?}",
        stderr_bytes
    );
}

// With stdout redirected to a user's file the errno bytes end up in that file.
#[test]
fn d_missing_program_with_stdin_stdout_closed_and_stdout_file() {
    watchdog(60);
    let tmp = std::env::temp_dir().join(format!("h2-out-{}", std::process::id()));
    let file = std::fs::File::create(&tmp).unwrap();
    let created = with_closed(&[0, 1], || {
        Popen::create(
            &["/nonexistent/h2-no-such-program"],
            PopenConfig {
                stdout: Redirection::File(file),
                ..Default::default()
            },
        )
        .map(|mut p| p.wait().ok())
        .map_err(|e| format!("{:?}", e))
    });
    let contents = std::fs::read(&tmp).unwrap();
    std::fs::remove_file(&tmp).ok();
    assert!(
        created.is_err(),
        "create() returned {:?} for a missing program; the user's output file now contains {:?}",
        created,
        contents
    );
}

// C08: "A child never holds a descriptor ... for the launch-status channel".
// C07: create "returns only after that [the program started] is known" - and
// it must not misreport a started program.
//
// Parent has fds 0 and 1 closed -> exec_fail_pipe = (0, 1).  stderr: Merge
// with stdout: None takes "the parent's stdout", i.e. fd 1, which now IS the
// status pipe's write end, and dup2()s it onto fd 2 (no CLOEXEC).  The exec'd
// program holds the status channel as its stderr: create() blocks until the
// program (and every descendant holding fd 2) exits.
#[test]
fn e_status_channel_leaks_into_child_as_stderr() {
    watchdog(60);
    let (elapsed, res) = with_closed(&[0, 1], || {
        let t = Instant::now();
        let r = Popen::create(
            &["sleep", "3"],
            PopenConfig {
                stderr: Redirection::Merge,
                ..Default::default()
            },
        );
        let elapsed = t.elapsed();
        let res = match r {
            Ok(mut p) => {
                p.kill().ok();
                p.wait().ok();
                Ok(())
            }
            Err(e) => Err(format!("{:?}", e)),
        };
        (elapsed, res)
    });
    println!("create() took {:?}, result {:?}", elapsed, res);
    assert!(
        elapsed < Duration::from_millis(1500),
        "Popen::create blocked for {:?} (the whole lifetime of `sleep 3`): the child \
         holds the exec-status pipe as its fd 2; result {:?}",
        elapsed,
        res
    );
}

// Same leak, other symptom: what the started program prints on its stderr is
// read by the parent as an "exec failed" errno.
#[test]
fn f_child_stderr_output_is_taken_for_an_exec_failure() {
    watchdog(60);
    let res = with_closed(&[0, 1], || {
        Popen::create(
            &["sh", "-c", "echo abc >&2"],
            PopenConfig {
                stderr: Redirection::Merge,
                ..Default::default()
            },
        )
        .map(|mut p| p.wait().ok())
        .map_err(|e| format!("{:?}", e))
    });
    assert!(
        res.is_ok(),
        "`sh -c 'echo abc >&2'` started and ran fine, yet Popen::create returned {:?} \
         (0x0a636261 = \"abc\\n\" read from the status pipe)",
        res
    );
}
