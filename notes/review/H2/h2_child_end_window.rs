// H2 note (C08, same family as the already-known pipe()/CLOEXEC window, NOT
// claimed as a new defect): the CHILD ends of the pipes made by setup_streams
// are never marked close-on-exec at all; they stay inheritable in the parent
// from pipe() until the Rc is dropped after fork().  A spawn on another thread
// in that (longer) window hands the write end of child B's stdout pipe to an
// unrelated long-lived child, and B's reader sees EOF only when that one exits.
// A leaked *parent* end (the known defect) cannot produce this symptom for a
// stdout pipe, because the parent end there is the read end.
//
// Run:
//   cd /tmp/seeds/H2 && CARGO_TARGET_DIR=/tmp/seeds/H2/target \
//     cargo test --offline --test h2_child_end_window -- --test-threads=1 --nocapture

use std::io::Read;
use std::sync::atomic::{AtomicBool, Ordering};
use std::sync::Arc;
use std::time::{Duration, Instant};

use subprocess::{Popen, PopenConfig, Redirection};

#[test]
fn stdout_eof_delayed_by_unrelated_child_spawned_on_other_thread() {
    std::thread::spawn(|| {
        std::thread::sleep(Duration::from_secs(90));
        eprintln!("watchdog");
        std::process::abort();
    });
    let stop = Arc::new(AtomicBool::new(false));
    let stop2 = stop.clone();
    let spawner = std::thread::spawn(move || {
        let mut n = 0;
        while !stop2.load(Ordering::Relaxed) && n < 2000 {
            let p = Popen::create(
                &["sleep", "2"],
                PopenConfig {
                    detached: true,
                    ..Default::default()
                },
            )
            .unwrap();
            drop(p);
            n += 1;
        }
        n
    });
    let mut worst = Duration::from_secs(0);
    let mut rounds = 0;
    let start = Instant::now();
    while start.elapsed() < Duration::from_secs(20) && worst < Duration::from_secs(1) {
        let mut p = Popen::create(
            &["true"],
            PopenConfig {
                stdout: Redirection::Pipe,
                ..Default::default()
            },
        )
        .unwrap();
        let t = Instant::now();
        let mut out = vec![];
        p.stdout.take().unwrap().read_to_end(&mut out).unwrap();
        worst = worst.max(t.elapsed());
        p.wait().unwrap();
        rounds += 1;
    }
    stop.store(true, Ordering::Relaxed);
    let n = spawner.join().unwrap();
    println!(
        "{} rounds against {} unrelated spawns; slowest EOF on `true`'s stdout: {:?}",
        rounds, n, worst
    );
    assert!(
        worst < Duration::from_secs(1),
        "EOF on the stdout of `true` took {:?}: an unrelated `sleep 2` inherited the write end",
        worst
    );
}
