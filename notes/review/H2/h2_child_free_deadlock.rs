// H2 demonstration (C17, borderline - it is a DEallocation, not an allocation):
// between fork() and exec() the child drops the `Rc<File>` child ends of the
// pipes (popen.rs do_exec: `if let Some(stdin) = stdin { ... }` moves the Rc
// and drops it), which frees the Rc box through the global allocator.  On the
// exec-failure path it additionally drops the whole PrepExec (cmd, argv, env
// CStrings, the exe buffer).  free() needs the allocator lock just like
// malloc(), so with an allocator whose lock is not reset by an atfork handler
// the child deadlocks when another thread of the parent held the lock at the
// moment of the fork - exactly the hazard C17 exists to exclude.
//
// The allocator below is System behind a plain spin lock (what many simple
// `#[global_allocator]`s look like).  A second thread keeps the lock busy.
//
// Run (output to a file, NOT through a pipe: a stuck child would keep a pipe open):
//   cd /tmp/seeds/H2 && CARGO_TARGET_DIR=/tmp/seeds/H2/target \
//     cargo test --offline --test h2_child_free_deadlock -- --test-threads=1 --nocapture \
//     > /tmp/seeds/out/H2/child_free_deadlock.output.txt 2>&1

use std::alloc::{GlobalAlloc, Layout, System};
use std::sync::atomic::{AtomicBool, Ordering};
use std::sync::mpsc;
use std::time::{Duration, Instant};

use subprocess::{Popen, PopenConfig, Redirection};

struct Locked;
static LOCK: AtomicBool = AtomicBool::new(false);
const SLOW_SIZE: usize = 12345;

fn lock() {
    while LOCK.swap(true, Ordering::Acquire) {
        std::hint::spin_loop();
    }
}
fn unlock() {
    LOCK.store(false, Ordering::Release);
}

unsafe impl GlobalAlloc for Locked {
    unsafe fn alloc(&self, l: Layout) -> *mut u8 {
        lock();
        if l.size() == SLOW_SIZE {
            // the hammer thread's allocations hold the lock a bit longer so
            // that a fork() on another thread lands inside the critical section
            for _ in 0..20_000 {
                std::hint::spin_loop();
            }
        }
        let p = System.alloc(l);
        unlock();
        p
    }
    unsafe fn dealloc(&self, p: *mut u8, l: Layout) {
        lock();
        System.dealloc(p, l);
        unlock();
    }
}

#[global_allocator]
static A: Locked = Locked;

/// SIGKILL every direct child of this process (the stuck, spinning ones).
fn kill_children() {
    let me = unsafe { libc::getpid() };
    let mut buf = [0u8; 512];
    // no allocation-heavy code here on purpose; a simple /proc scan
    if let Ok(dir) = std::fs::read_dir("/proc") {
        for e in dir.flatten() {
            let name = e.file_name();
            let pid: i32 = match name.to_str().and_then(|s| s.parse().ok()) {
                Some(p) => p,
                None => continue,
            };
            if let Ok(stat) = std::fs::read(format!("/proc/{}/stat", pid)) {
                let n = stat.len().min(buf.len());
                buf[..n].copy_from_slice(&stat[..n]);
                let s = String::from_utf8_lossy(&buf[..n]).into_owned();
                if let Some(rest) = s.rsplit(')').next() {
                    let f: Vec<&str> = rest.split_whitespace().collect();
                    if f.len() > 1 && f[1].parse::<i32>().ok() == Some(me) {
                        unsafe { libc::kill(pid, libc::SIGKILL) };
                    }
                }
            }
        }
    }
}

/// Spawn `true` up to `n` times on a helper thread; returns how many spawns
/// completed and whether the time limit expired first.
fn spawn_many(n: usize, with_pipe: bool, limit: Duration) -> (usize, bool) {
    let (tx, rx) = mpsc::channel();
    std::thread::spawn(move || {
        for i in 0..n {
            let cfg = PopenConfig {
                stdout: if with_pipe { Redirection::Pipe } else { Redirection::None },
                ..Default::default()
            };
            let mut p = Popen::create(&["true"], cfg).unwrap();
            p.wait().ok();
            if tx.send(i).is_err() {
                return;
            }
        }
    });
    let deadline = Instant::now() + limit;
    let mut done = 0;
    while done < n {
        let left = deadline.saturating_duration_since(Instant::now());
        match rx.recv_timeout(left) {
            Ok(_) => done += 1,
            Err(_) => return (done, true),
        }
    }
    (done, false)
}

#[test]
fn child_frees_memory_between_fork_and_exec() {
    // hard watchdog: whatever happens, kill stuck children and leave
    std::thread::spawn(|| {
        std::thread::sleep(Duration::from_secs(60));
        kill_children();
        eprintln!("watchdog: giving up after 60s");
        std::process::abort();
    });

    // hammer thread: keeps the allocator lock held most of the time
    static STOP: AtomicBool = AtomicBool::new(false);
    std::thread::spawn(|| {
        while !STOP.load(Ordering::Relaxed) {
            let v: Vec<u8> = Vec::with_capacity(SLOW_SIZE);
            std::hint::black_box(&v);
            drop(v);
            std::thread::yield_now();
        }
    });
    std::thread::sleep(Duration::from_millis(50));

    // Control: no pipes -> the child does not touch the allocator at all on
    // the success path -> every spawn completes although the lock is contended.
    let (done_ctl, hung_ctl) = spawn_many(100, false, Duration::from_secs(20));
    println!("control (no pipes):  {} / 100 spawns completed, hung = {}", done_ctl, hung_ctl);

    // With a stdout pipe the child drops an Rc<File> before exec -> dealloc ->
    // spins forever on the lock that the hammer thread (which does not exist
    // in the child) held at fork time; Popen::create never returns.
    let (done, hung) = if hung_ctl {
        (0, false)
    } else {
        spawn_many(100, true, Duration::from_secs(10))
    };
    println!("stdout: Pipe:        {} / 100 spawns completed, hung = {}", done, hung);

    // stop the hammer first so that no further child can get stuck, then
    // kill the stuck one(s); the helper thread then sees EOF, fails to send
    // and returns.
    STOP.store(true, Ordering::Relaxed);
    std::thread::sleep(Duration::from_millis(200));
    kill_children();
    std::thread::sleep(Duration::from_millis(200));
    kill_children();
    assert!(!hung_ctl, "control hung - test setup is wrong");
    assert!(
        !hung,
        "Popen::create hung after {} successful spawns: the forked child called dealloc() \
         before exec and deadlocked on the allocator lock",
        done
    );
}
