// H2 exploratory checks (C06, C07, C15).  These are checks that found NOTHING
// wrong; kept as a record of what was exercised.
//
// Run:
//   cd /tmp/seeds/H2 && CARGO_TARGET_DIR=/tmp/seeds/H2/target \
//     cargo test --offline --test h2_explore -- --test-threads=1 --nocapture

use std::ffi::{OsStr, OsString};
use std::io::Read;
use std::os::unix::ffi::{OsStrExt, OsStringExt};
use std::os::unix::fs::PermissionsExt;

use subprocess::{Popen, PopenConfig, PopenError, Redirection};

struct Rng(u64);
impl Rng {
    fn next(&mut self) -> u64 {
        self.0 ^= self.0 << 13;
        self.0 ^= self.0 >> 7;
        self.0 ^= self.0 << 17;
        self.0
    }
    fn below(&mut self, n: u64) -> u64 {
        self.next() % n
    }
    fn bytes(&mut self, maxlen: u64, forbid: &[u8]) -> Vec<u8> {
        let len = match self.below(10) {
            0 => 0,
            1 => self.below(maxlen),
            _ => self.below(12),
        };
        (0..len)
            .map(|_| loop {
                let b = match self.below(4) {
                    0 => b"\"'\\ \t\n=$*"[self.below(9) as usize],
                    _ => (self.below(255) + 1) as u8,
                };
                if b != 0 && !forbid.contains(&b) {
                    break b;
                }
            })
            .collect()
    }
}

fn out_of(argv: &[OsString], cfg: PopenConfig) -> Vec<u8> {
    let mut p = Popen::create(
        argv,
        PopenConfig {
            stdout: Redirection::Pipe,
            ..cfg
        },
    )
    .unwrap();
    let mut out = vec![];
    p.stdout.take().unwrap().read_to_end(&mut out).unwrap();
    assert!(p.wait().unwrap().success());
    out
}

#[test]
fn argv_is_byte_exact() {
    let mut rng = Rng(0x1234_5678_9abc_def1);
    for round in 0..300 {
        let n = if round % 50 == 0 { 400 } else { rng.below(8) };
        let maxlen = if round % 7 == 0 && n < 50 { 40_000 } else { 200 };
        let mut argv: Vec<OsString> = vec![OsString::from_vec({
            let mut v = rng.bytes(50, b"/");
            if v.is_empty() || v[0] == b'-' {
                v.insert(0, b'a');
            }
            v
        })];
        argv.push("-c".into());
        argv.push("cat /proc/$$/cmdline".into());
        for _ in 0..n {
            argv.push(OsString::from_vec(rng.bytes(maxlen, b"")));
        }
        let full = argv.clone();
        let out = out_of(
            &full,
            PopenConfig {
                executable: Some("/bin/sh".into()),
                ..Default::default()
            },
        );
        let mut expect = vec![];
        for a in &full {
            expect.extend_from_slice(a.as_bytes());
            expect.push(0);
        }
        assert!(out == expect, "round {}: argv mismatch for {:?}", round, full);
    }
}

#[test]
fn env_is_exact_and_later_duplicate_wins() {
    let mut rng = Rng(0xdead_beef_cafe_f00d);
    for round in 0..300 {
        let n = if round % 60 == 0 { 300 } else { rng.below(10) };
        let mut env: Vec<(OsString, OsString)> = vec![];
        for _ in 0..n {
            let key = if !env.is_empty() && rng.below(3) == 0 {
                env[rng.below(env.len() as u64) as usize].0.clone()
            } else {
                let mut k = rng.bytes(30, b"=");
                if k.is_empty() {
                    k = b"K".to_vec();
                }
                OsString::from_vec(k)
            };
            env.push((key, OsString::from_vec(rng.bytes(20_000, b""))));
        }
        let out = out_of(
            &["cat".into(), "/proc/self/environ".into()],
            PopenConfig {
                executable: Some("/bin/cat".into()),
                env: Some(env.clone()),
                ..Default::default()
            },
        );
        // expected: for each distinct key its last value, once
        let mut want: Vec<Vec<u8>> = vec![];
        for (i, (k, v)) in env.iter().enumerate() {
            if env[i + 1..].iter().any(|(k2, _)| k2 == k) {
                continue;
            }
            let mut e = k.as_bytes().to_vec();
            e.push(b'=');
            e.extend_from_slice(v.as_bytes());
            want.push(e);
        }
        let mut got: Vec<Vec<u8>> = out.split(|&b| b == 0).map(|s| s.to_vec()).collect();
        assert_eq!(got.pop(), Some(vec![]));
        got.sort();
        want.sort();
        assert!(got == want, "round {}: env mismatch", round);
    }
}

#[test]
fn nul_is_rejected_everywhere() {
    let nul = OsStr::from_bytes(b"a\0b").to_owned();
    let is_einval = |r: Result<Popen, PopenError>| match r {
        Err(PopenError::IoError(e)) => e.raw_os_error() == Some(libc::EINVAL),
        _ => false,
    };
    assert!(is_einval(Popen::create(&[nul.clone()], PopenConfig::default())));
    assert!(is_einval(Popen::create(
        &[OsString::from("true"), nul.clone()],
        PopenConfig::default()
    )));
    assert!(is_einval(Popen::create(
        &["true"],
        PopenConfig {
            env: Some(vec![(nul.clone(), "v".into())]),
            ..Default::default()
        }
    )));
    assert!(is_einval(Popen::create(
        &["true"],
        PopenConfig {
            env: Some(vec![("k".into(), nul.clone())]),
            ..Default::default()
        }
    )));
    assert!(is_einval(Popen::create(
        &["true"],
        PopenConfig {
            cwd: Some(nul.clone()),
            ..Default::default()
        }
    )));
}

#[test]
fn identity_cwd_pgid() {
    if unsafe { libc::geteuid() } != 0 {
        return;
    }
    let out = out_of(
        &["sh".into(), "-c".into(), "echo $(id -u) $(id -g) $(pwd)".into()],
        PopenConfig {
            setuid: Some(12345),
            setgid: Some(23456),
            cwd: Some("/usr".into()),
            ..Default::default()
        },
    );
    assert_eq!(String::from_utf8_lossy(&out).trim(), "12345 23456 /usr");
    let out = out_of(
        &["sh".into(), "-c".into(), "echo $(id -u) $(id -g)".into()],
        PopenConfig {
            setuid: Some(4242),
            ..Default::default()
        },
    );
    assert_eq!(String::from_utf8_lossy(&out).trim(), "4242 0");
    let out = out_of(
        &["sh".into(), "-c".into(), "echo $(id -u) $(id -g)".into()],
        PopenConfig {
            setgid: Some(777),
            ..Default::default()
        },
    );
    assert_eq!(String::from_utf8_lossy(&out).trim(), "0 777");
    // setpgid
    let mut p = Popen::create(
        &["sleep", "5"],
        PopenConfig {
            setpgid: true,
            ..Default::default()
        },
    )
    .unwrap();
    let pid = p.pid().unwrap() as i32;
    assert_eq!(unsafe { libc::getpgid(pid) }, pid);
    p.kill().unwrap();
    p.wait().unwrap();
}

fn open_fds() -> Vec<String> {
    let mut v: Vec<String> = std::fs::read_dir("/proc/self/fd")
        .unwrap()
        .flatten()
        .filter_map(|e| {
            let n = e.file_name().into_string().unwrap();
            std::fs::read_link(e.path())
                .ok()
                .map(|t| format!("{} -> {}", n, t.display()))
        })
        .filter(|s| !s.contains("/proc/"))
        .collect();
    v.sort();
    v
}

fn children() -> Vec<i32> {
    let me = std::process::id();
    let mut v = vec![];
    for e in std::fs::read_dir("/proc").unwrap().flatten() {
        if let Some(pid) = e.file_name().to_str().and_then(|s| s.parse::<i32>().ok()) {
            if let Ok(stat) = std::fs::read_to_string(format!("/proc/{}/stat", pid)) {
                if let Some(rest) = stat.rsplit(')').next() {
                    let f: Vec<&str> = rest.split_whitespace().collect();
                    if f.len() > 1 && f[1].parse::<u32>().ok() == Some(me) {
                        v.push(pid);
                    }
                }
            }
        }
    }
    v
}

#[test]
fn failed_launches_leave_nothing_behind() {
    // child-side failures x stream configs x detached
    let before = open_fds();
    for detached in [false, true] {
        for streams in 0..4 {
            for cause in 0..4 {
                let red = |i: u32| -> Redirection {
                    match (streams + i) % 4 {
                        0 => Redirection::None,
                        1 => Redirection::Pipe,
                        2 => Redirection::File(std::fs::File::open("/dev/null").unwrap()),
                        _ => Redirection::Pipe,
                    }
                };
                let mut cfg = PopenConfig {
                    stdin: red(0),
                    stdout: red(1),
                    stderr: if streams == 3 { Redirection::Merge } else { red(2) },
                    detached,
                    ..Default::default()
                };
                let mut argv = vec!["true"];
                let want = match cause {
                    0 => {
                        argv = vec!["h2-no-such-command"];
                        libc::ENOENT
                    }
                    1 => {
                        cfg.cwd = Some("/nonexistent-dir".into());
                        libc::ENOENT
                    }
                    2 => {
                        argv = vec!["/etc/passwd"];
                        libc::EACCES
                    }
                    _ => {
                        cfg.cwd = Some("/etc/passwd".into());
                        libc::ENOTDIR
                    }
                };
                match Popen::create(&argv, cfg) {
                    Err(PopenError::IoError(e)) => assert_eq!(e.raw_os_error(), Some(want)),
                    other => panic!("unexpected {:?}", other.map(|_| ())),
                }
                assert_eq!(children(), Vec::<i32>::new(), "child left behind");
                assert_eq!(open_fds(), before, "descriptor left behind");
            }
        }
    }

    // descriptor exhaustion at the k-th allocation
    let mut lim = libc::rlimit {
        rlim_cur: 0,
        rlim_max: 0,
    };
    unsafe { libc::getrlimit(libc::RLIMIT_NOFILE, &mut lim) };
    let saved = lim;
    let highest = before
        .iter()
        .map(|s| s.split(' ').next().unwrap().parse::<u64>().unwrap())
        .max()
        .unwrap();
    let mut outcomes = vec![];
    for extra in 0..10 {
        lim.rlim_cur = highest + 1 + extra;
        unsafe { libc::setrlimit(libc::RLIMIT_NOFILE, &lim) };
        let r = Popen::create(
            &["true"],
            PopenConfig {
                stdin: Redirection::Pipe,
                stdout: Redirection::Pipe,
                stderr: Redirection::Pipe,
                ..Default::default()
            },
        );
        unsafe { libc::setrlimit(libc::RLIMIT_NOFILE, &saved) };
        match r {
            Ok(mut p) => {
                outcomes.push(format!("+{}: started", extra));
                p.wait().unwrap();
                drop(p);
            }
            Err(PopenError::IoError(e)) => {
                outcomes.push(format!("+{}: {:?}", extra, e.raw_os_error()));
                assert_eq!(e.raw_os_error(), Some(libc::EMFILE));
            }
            Err(e) => panic!("{:?}", e),
        }
        assert_eq!(children(), Vec::<i32>::new(), "child left behind");
        assert_eq!(open_fds(), before, "descriptor left behind (limit +{})", extra);
    }
    println!("{:?}", outcomes);
}

fn mkexe(path: &std::path::Path, body: &str, mode: u32) {
    std::fs::write(path, body).unwrap();
    std::fs::set_permissions(path, std::fs::Permissions::from_mode(mode)).unwrap();
}

#[test]
fn path_lookup_order() {
    let tmp = tempfile::tempdir().unwrap();
    let d = |n: &str| {
        let p = tmp.path().join(n);
        std::fs::create_dir_all(&p).unwrap();
        p
    };
    let (a, b, c, e) = (d("a"), d("b"), d("c"), d("e"));
    // a: nothing; b: non-executable file; c: directory of that name;
    // e: real executable; f: another real executable (must not run)
    let f = d("f");
    mkexe(&b.join("h2cmd"), "#!/bin/sh\necho WRONG-b\n", 0o644);
    std::fs::create_dir(c.join("h2cmd")).unwrap();
    mkexe(&e.join("h2cmd"), "#!/bin/sh\necho RIGHT-e\n", 0o755);
    mkexe(&f.join("h2cmd"), "#!/bin/sh\necho WRONG-f\n", 0o755);
    let longent = format!("/{}", "L".repeat(5000));
    let saved = std::env::var_os("PATH").unwrap();
    let path = format!(
        "::{}:{}:{}::{}:{}:{}:{}:{}:",
        a.display(),
        longent,
        b.display(),
        a.display(),
        c.display(),
        e.display(),
        f.display(),
        "/bin:/usr/bin"
    );
    std::env::set_var("PATH", &path);
    let r = std::panic::catch_unwind(|| {
        let out = out_of(&["h2cmd".into()], PopenConfig::default());
        assert_eq!(out, b"RIGHT-e\n");
        // explicit executable follows the same search, argv[0] is free
        let out = out_of(
            &["whatever".into()],
            PopenConfig {
                executable: Some("h2cmd".into()),
                ..Default::default()
            },
        );
        assert_eq!(out, b"RIGHT-e\n");
        // a name with a slash: no search, relative to the child's cwd
        let out = out_of(
            &["f/h2cmd".into()],
            PopenConfig {
                cwd: Some(tmp.path().as_os_str().to_owned()),
                ..Default::default()
            },
        );
        assert_eq!(out, b"WRONG-f\n");
        let r = Popen::create(&["./h2cmd"], PopenConfig::default());
        assert!(r.is_err());
        // env PATH of the child is irrelevant; parent's counts
        let out = out_of(
            &["h2cmd".into()],
            PopenConfig {
                env: Some(vec![("PATH".into(), f.as_os_str().to_owned())]),
                ..Default::default()
            },
        );
        assert_eq!(out, b"RIGHT-e\n");
    });
    // only candidates that cannot be started
    let path2 = format!("{}:{}:{}", a.display(), b.display(), c.display());
    std::env::set_var("PATH", &path2);
    let r2 = Popen::create(&["h2cmd"], PopenConfig::default()).map(|_| ());
    std::env::set_var("PATH", ":::");
    let r3 = Popen::create(&["true"], PopenConfig::default()).map(|_| ());
    std::env::set_var("PATH", &saved);
    r.unwrap();
    println!("unstartable only: {:?}; only empty entries: {:?}", r2, r3);
    assert!(r2.is_err());
    assert!(r3.is_err());
}
