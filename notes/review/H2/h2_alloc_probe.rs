// H2 probe (C17): instrumented global allocator that counts alloc / realloc /
// dealloc calls made in a forked child (pid != test pid) into a MAP_SHARED page.
// The test asserts only on alloc+realloc (it PASSES: none are made); the
// dealloc column is printed for information.
//
// Run:
//   cd /tmp/seeds/H2 && CARGO_TARGET_DIR=/tmp/seeds/H2/target \
//     cargo test --offline --test h2_alloc_probe -- --test-threads=1 --nocapture

use std::alloc::{GlobalAlloc, Layout, System};
use std::sync::atomic::{AtomicI32, AtomicPtr, AtomicU64, Ordering};

use subprocess::{Popen, PopenConfig, Redirection};

struct Probe;

static PARENT: AtomicI32 = AtomicI32::new(0);
static SHARED: AtomicPtr<[AtomicU64; 3]> = AtomicPtr::new(std::ptr::null_mut());

fn note(idx: usize) {
    let parent = PARENT.load(Ordering::Relaxed);
    if parent == 0 {
        return;
    }
    if unsafe { libc::getpid() } != parent {
        let p = SHARED.load(Ordering::Relaxed);
        if !p.is_null() {
            unsafe { (&(*p))[idx].fetch_add(1, Ordering::SeqCst) };
        }
    }
}

unsafe impl GlobalAlloc for Probe {
    unsafe fn alloc(&self, l: Layout) -> *mut u8 {
        note(0);
        System.alloc(l)
    }
    unsafe fn realloc(&self, p: *mut u8, l: Layout, n: usize) -> *mut u8 {
        note(1);
        System.realloc(p, l, n)
    }
    unsafe fn dealloc(&self, p: *mut u8, l: Layout) {
        note(2);
        System.dealloc(p, l)
    }
}

#[global_allocator]
static A: Probe = Probe;

fn setup() -> &'static [AtomicU64; 3] {
    let m = unsafe {
        libc::mmap(
            std::ptr::null_mut(),
            4096,
            libc::PROT_READ | libc::PROT_WRITE,
            libc::MAP_SHARED | libc::MAP_ANONYMOUS,
            -1,
            0,
        )
    };
    assert!(m != libc::MAP_FAILED);
    SHARED.store(m as *mut _, Ordering::SeqCst);
    PARENT.store(unsafe { libc::getpid() }, Ordering::SeqCst);
    unsafe { &*(m as *mut [AtomicU64; 3]) }
}

fn counts(c: &[AtomicU64; 3]) -> (u64, u64, u64) {
    (
        c[0].swap(0, Ordering::SeqCst),
        c[1].swap(0, Ordering::SeqCst),
        c[2].swap(0, Ordering::SeqCst),
    )
}

#[test]
fn probe() {
    let c = setup();
    let long_name = "x".repeat(3000);
    let long_dir = format!("/tmp/{}", "d".repeat(200));
    let saved_path = std::env::var_os("PATH").unwrap();

    let mut report = vec![];
    let mut run = |label: &str, argv: &[&str], cfg: PopenConfig| {
        counts(c);
        let r = Popen::create(argv, cfg);
        let ok = r.is_ok();
        if let Ok(mut p) = r {
            p.wait().ok();
        }
        let (a, re, d) = counts(c);
        report.push(format!(
            "{:<45} started={:<5} child alloc={} realloc={} dealloc={}",
            label, ok, a, re, d
        ));
        a + re
    };

    let mut bad = 0;

    bad += run("true, defaults", &["true"], PopenConfig::default());
    bad += run(
        "true, 3 pipes",
        &["true"],
        PopenConfig {
            stdin: Redirection::Pipe,
            stdout: Redirection::Pipe,
            stderr: Redirection::Pipe,
            ..Default::default()
        },
    );
    bad += run(
        "true, stderr merge, cwd, env, setpgid",
        &["true"],
        PopenConfig {
            stdout: Redirection::Pipe,
            stderr: Redirection::Merge,
            cwd: Some("/tmp".into()),
            env: Some(vec![("A".into(), "B".into()), ("A".into(), "C".into())]),
            setpgid: true,
            ..Default::default()
        },
    );
    bad += run("missing (PATH search fails)", &["h2-no-such-cmd"], PopenConfig::default());
    bad += run("missing long name", &[&long_name], PopenConfig::default());
    bad += run("missing with slash", &["/nonexistent/x"], PopenConfig::default());
    bad += run(
        "bad cwd",
        &["true"],
        PopenConfig {
            cwd: Some("/nonexistent".into()),
            ..Default::default()
        },
    );
    // PATH shapes: longest entry first / last / empty entries / relative
    for path in [
        format!("{}:/bin:/usr/bin", long_dir),
        format!("/bin:/usr/bin:{}", long_dir),
        format!("::{}::/nonexistent:", long_dir),
        ":::".to_string(),
        "a".to_string(),
    ] {
        std::env::set_var("PATH", &path);
        let label = format!("PATH={:.25}.. true", path);
        bad += run(&label, &["true"], PopenConfig::default());
        let label = format!("PATH={:.25}.. missing", path);
        bad += run(&label, &["h2-no-such-cmd"], PopenConfig::default());
        let label = format!("PATH={:.25}.. long missing", path);
        bad += run(&label, &[&long_name], PopenConfig::default());
    }
    std::env::set_var("PATH", &saved_path);
    bad += run(
        "explicit executable",
        &["argv0-name"],
        PopenConfig {
            executable: Some("true".into()),
            ..Default::default()
        },
    );

    for line in &report {
        println!("{}", line);
    }
    assert_eq!(bad, 0, "alloc/realloc calls were made in the forked child");
}
