// H2 (Windows-only code, shown by a COPY of the function): C15 "Program lookup
// follows PATH order and never runs something else ... A name containing a
// slash is used as given with no search, the same rules apply to an explicitly
// named executable".
//
// src/popen.rs, `mod os` for cfg(windows):
//
//     fn locate_in_path(executable: OsString) -> OsString {
//         if let Some(path) = env::var_os("PATH") {
//             for path in env::split_paths(&path) {
//                 let path = path
//                     .join(&executable)
//                     .with_extension(::std::env::consts::EXE_EXTENSION);
//                 if fs::metadata(&path).is_ok() {
//                     return path.into_os_string();
//                 }
//             }
//         }
//         executable
//     }
//
// The copy below differs only in that PATH and EXE_EXTENSION ("exe" on
// Windows, "" here) are parameters, so it can run on Linux.  `Path::join` and
// `Path::with_extension` behave identically on both platforms for these inputs
// (the names contain no separators other than the one `join` inserts, except
// in the sub-directory case where '/' is a separator on Windows as well).
//
// Run:
//   cd /tmp/seeds/H2 && CARGO_TARGET_DIR=/tmp/seeds/H2/target \
//     cargo test --offline --test h2_win_locate_in_path_copy -- --test-threads=1

use std::env;
use std::ffi::{OsStr, OsString};
use std::fs;

fn locate_in_path(executable: OsString, path_var: Option<&OsStr>, exe_extension: &str) -> OsString {
    if let Some(path) = path_var {
        for path in env::split_paths(&path) {
            let path = path.join(&executable).with_extension(exe_extension);
            if fs::metadata(&path).is_ok() {
                return path.into_os_string();
            }
        }
    }
    executable
}

#[test]
fn dotted_name_resolves_to_a_different_program() {
    let tmp = tempfile::tempdir().unwrap();
    let bin = tmp.path().join("bin");
    fs::create_dir(&bin).unwrap();
    fs::write(bin.join("python3.exe"), b"the WRONG program").unwrap();
    fs::write(bin.join("python3.9.exe"), b"the requested program").unwrap();

    // PopenConfig { executable: Some("python3.9".into()), .. }
    let got = locate_in_path("python3.9".into(), Some(bin.as_os_str()), "exe");
    println!("executable \"python3.9\" resolved to {:?}", got);
    assert_ne!(
        got,
        bin.join("python3.exe").into_os_string(),
        "with_extension() REPLACED the \".9\" of the requested name: a different program \
         (python3.exe) is handed to CreateProcess as lpApplicationName"
    );
}

#[test]
fn bat_name_resolves_to_the_exe_next_to_it() {
    let tmp = tempfile::tempdir().unwrap();
    let bin = tmp.path().join("bin");
    fs::create_dir(&bin).unwrap();
    fs::write(bin.join("tool.bat"), b"requested").unwrap();
    fs::write(bin.join("tool.exe"), b"WRONG").unwrap();
    let got = locate_in_path("tool.bat".into(), Some(bin.as_os_str()), "exe");
    println!("executable \"tool.bat\" resolved to {:?}", got);
    assert_ne!(got, bin.join("tool.exe").into_os_string());
}

#[test]
fn name_with_a_separator_is_searched_in_path() {
    let tmp = tempfile::tempdir().unwrap();
    let bin = tmp.path().join("bin");
    fs::create_dir_all(bin.join("sub")).unwrap();
    fs::write(bin.join("sub").join("tool.exe"), b"found through PATH").unwrap();
    // "sub/tool.exe" names a file relative to the (child's) working directory;
    // it must be used as given, not looked up under the PATH entries.
    let got = locate_in_path("sub/tool.exe".into(), Some(bin.as_os_str()), "exe");
    println!("executable \"sub/tool.exe\" resolved to {:?}", got);
    assert_eq!(
        got,
        OsString::from("sub/tool.exe"),
        "a name containing a separator was searched for in PATH"
    );
}

#[test]
fn a_directory_counts_as_a_hit() {
    let tmp = tempfile::tempdir().unwrap();
    let first = tmp.path().join("first");
    let second = tmp.path().join("second");
    fs::create_dir_all(first.join("tool.exe")).unwrap(); // a DIRECTORY called tool.exe
    fs::create_dir_all(&second).unwrap();
    fs::write(second.join("tool.exe"), b"the startable one").unwrap();
    let path = env::join_paths([&first, &second]).unwrap();
    let got = locate_in_path("tool".into(), Some(&path), "exe");
    println!("executable \"tool\" resolved to {:?}", got);
    assert_eq!(
        got,
        second.join("tool.exe").into_os_string(),
        "the search stopped at a directory candidate instead of skipping it"
    );
}
