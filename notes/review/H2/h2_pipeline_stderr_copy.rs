// H2 demonstration (C08): Pipeline::capture()/communicate() give every stage
// the shared stderr pipe as `Redirection::RcFile`.  The write end is created
// with make_pipe() and never marked close-on-exec, and because the Rc is
// shared the child cannot close the original descriptor after dup2()ing it
// onto fd 2.  Every stage but the last therefore runs with TWO descriptors for
// the stderr pipe: fd 2 and a stray high-numbered one.  A stage (or a
// descendant of it) that closes/redirects all of its standard streams still
// holds the pipe, so the parent does not see end-of-file "as soon as that
// child and its descendants have closed it".
//
// Run:
//   cd /tmp/seeds/H2 && CARGO_TARGET_DIR=/tmp/seeds/H2/target \
//     cargo test --offline --test h2_pipeline_stderr_copy -- --test-threads=1

use std::time::{Duration, Instant};

use subprocess::{Exec, Redirection};

fn watchdog(secs: u64) {
    std::thread::spawn(move || {
        std::thread::sleep(Duration::from_secs(secs));
        eprintln!("watchdog: test binary still running after {}s", secs);
        std::process::abort();
    });
}

// A background descendant that has redirected stdin, stdout and stderr away
// from the pipes.  It has closed every stream the library gave it.
const BG: &str = "sleep 3 </dev/null >/dev/null 2>&1 &";

// Control: a single Exec with stdout+stderr captured returns at once (the
// child ends are closed in the child after dup2, so `sleep` holds nothing).
#[test]
fn a_control_single_exec_capture_returns_immediately() {
    watchdog(60);
    let t = Instant::now();
    let c = Exec::shell(BG)
        .stdout(Redirection::Pipe)
        .stderr(Redirection::Pipe)
        .capture()
        .unwrap();
    let elapsed = t.elapsed();
    println!("single Exec capture took {:?}, status {:?}", elapsed, c.exit_status);
    assert!(elapsed < Duration::from_millis(1500), "took {:?}", elapsed);
}

// The same command as a pipeline stage: capture() blocks until the unrelated
// background `sleep` exits, because it inherited the stray copy of the shared
// stderr pipe.
#[test]
fn b_pipeline_capture_blocks_on_descendant_that_closed_its_streams() {
    watchdog(60);
    let t = Instant::now();
    let c = (Exec::shell(BG) | Exec::shell("true")).capture().unwrap();
    let elapsed = t.elapsed();
    println!("pipeline capture took {:?}, status {:?}", elapsed, c.exit_status);
    assert!(
        elapsed < Duration::from_millis(1500),
        "Pipeline::capture() took {:?}: end-of-file on the stderr pipe only arrived when \
         the background `sleep 3` (which had redirected fds 0,1,2 to /dev/null) exited",
        elapsed
    );
}

// Direct look at the descriptor table of a pipeline stage: besides 0, 1, 2
// there is an extra descriptor referring to the same pipe as fd 2.
#[test]
fn c_pipeline_stage_holds_a_second_descriptor_for_the_stderr_pipe() {
    watchdog(60);
    // the stage prints "<fd> <target>" for each of its descriptors
    let script = r#"for f in /proc/$$/fd/*; do echo "${f##*/} $(readlink $f)"; done"#;
    // (every stage but the last is affected: the last one holds the only
    // remaining Rc, so there the original descriptor does get closed)
    let c = (Exec::shell(script) | Exec::cmd("cat")).capture().unwrap();
    let listing = c.stdout_str();
    println!("descriptor table of the first stage:\n{}", listing);
    let mut stderr_target = None;
    let mut extra = vec![];
    for line in listing.lines() {
        let mut it = line.splitn(2, ' ');
        let fd: i32 = it.next().unwrap().parse().unwrap();
        let target = it.next().unwrap_or("").to_string();
        if fd == 2 {
            stderr_target = Some(target.clone());
        }
        if fd > 2 && target.starts_with("pipe:") {
            extra.push((fd, target));
        }
    }
    let stderr_target = stderr_target.unwrap();
    let dup: Vec<_> = extra.iter().filter(|(_, t)| *t == stderr_target).collect();
    assert!(
        dup.is_empty(),
        "stage holds extra descriptor(s) {:?} for the stderr pipe {} in addition to fd 2",
        dup,
        stderr_target
    );
}
