use std::ffi::OsString;
use std::fs;
use std::os::unix::fs::PermissionsExt;
use std::path::{Path, PathBuf};
use std::time::Duration;
use subprocess::{Exec, Popen, PopenConfig, PopenError, Redirection};

fn mkexe(dir: &Path, name: &str, tag: &str) {
    fs::create_dir_all(dir).unwrap();
    let p = dir.join(name);
    fs::write(&p, format!("#!/bin/sh\necho {}\n", tag)).unwrap();
    fs::set_permissions(&p, fs::Permissions::from_mode(0o755)).unwrap();
}
fn mknonexe(dir: &Path, name: &str) {
    fs::create_dir_all(dir).unwrap();
    let p = dir.join(name);
    fs::write(&p, "#!/bin/sh\necho NONEXEC\n").unwrap();
    fs::set_permissions(&p, fs::Permissions::from_mode(0o644)).unwrap();
}
fn mkdircand(dir: &Path, name: &str) {
    fs::create_dir_all(dir.join(name)).unwrap();
}

fn run(name: &str, cwd: Option<&Path>) -> Result<String, i32> {
    let mut e = Exec::cmd(name).stdout(Redirection::Pipe);
    if let Some(c) = cwd { e = e.cwd(c); }
    match e.capture() {
        Ok(c) => Ok(c.stdout_str().trim().to_string()),
        Err(PopenError::IoError(e)) => Err(e.raw_os_error().unwrap_or(-999)),
        Err(e) => panic!("{:?}", e),
    }
}

fn join(parts: &[&Path]) -> OsString {
    let mut s = OsString::new();
    for (i, p) in parts.iter().enumerate() {
        if i > 0 { s.push(":"); }
        s.push(p.as_os_str());
    }
    s
}

#[test]
fn c15_path() {
    std::thread::spawn(|| {
        std::thread::sleep(Duration::from_secs(120));
        eprintln!("WATCHDOG: hang");
        std::process::exit(3);
    });
    let orig_path = std::env::var_os("PATH").unwrap();
    let td = tempfile::tempdir().unwrap();
    let t = td.path();
    let (d1, d2, d3, d4, missing) = (t.join("d1"), t.join("d2"), t.join("d3"), t.join("d4"), t.join("missing"));
    let n = "r4cmd";
    mkexe(&d1, n, "D1");
    mkexe(&d2, n, "D2");
    mknonexe(&d3, n);
    mkdircand(&d4, n);
    let cwd = t.join("cwd");
    mkexe(&cwd, n, "CWD");
    mkexe(&cwd.join("sub"), n, "CWDSUB");
    fs::create_dir_all(&missing).unwrap(); // dir exists, no candidate
    let nodir = t.join("nodir");
    // need sh reachable for the scripts' interpreter (#!/bin/sh is absolute, fine)

    let mut fails: Vec<String> = vec![];
    let mut check = |desc: &str, path: OsString, name: &str, cwd: Option<&Path>, exp: Result<&str, i32>| {
        std::env::set_var("PATH", &path);
        let got = run(name, cwd);
        let exp2: Result<String, i32> = exp.map(|s| s.to_string());
        if got != exp2 {
            fails.push(format!("{}: expected {:?} got {:?}", desc, exp2, got));
        }
    };

    check("first of two", join(&[&d1, &d2]), n, None, Ok("D1"));
    check("second of two", join(&[&d2, &d1]), n, None, Ok("D2"));
    check("missing dir skipped", join(&[&nodir, &d2, &d1]), n, None, Ok("D2"));
    check("dir without candidate skipped", join(&[&missing, &d1, &d2]), n, None, Ok("D1"));
    check("nonexec skipped", join(&[&d3, &d2, &d1]), n, None, Ok("D2"));
    check("directory candidate skipped", join(&[&d4, &d1]), n, None, Ok("D1"));
    check("dup entries", join(&[&d3, &d3, &d4, &d4, &d2, &d2]), n, None, Ok("D2"));
    check("only nonexec", join(&[&d3]), n, None, Err(libc::EACCES));
    check("only dircand", join(&[&d4]), n, None, Err(libc::EACCES));
    check("nothing", join(&[&missing, &nodir]), n, None, Err(libc::ENOENT));
    // empty entries are not the cwd
    let mut p = OsString::from("::"); p.push(d1.as_os_str()); p.push("::");
    check("empty entries around", p, n, Some(&cwd), Ok("D1"));
    check("only empty entries", OsString::from(":"), n, Some(&cwd), Err(libc::ENOENT));
    check("only empty entries 3", OsString::from(":::"), n, Some(&cwd), Err(libc::ENOENT));
    let mut p = OsString::from(":"); p.push(d2.as_os_str());
    check("leading empty then d2, cwd has candidate", p, n, Some(&cwd), Ok("D2"));
    // slash names: no search, relative to child's cwd
    check("slash name rel to cwd", join(&[&d1]), "sub/r4cmd", Some(&cwd), Ok("CWDSUB"));
    check("dot slash name rel to cwd", join(&[&d1]), "./r4cmd", Some(&cwd), Ok("CWD"));
    check("slash name missing", join(&[&d1]), "nosub/r4cmd", Some(&cwd), Err(libc::ENOENT));
    check("abs", join(&[&d1]), d2.join(n).to_str().unwrap(), Some(&cwd), Ok("D2"));
    // very long entries
    let long: PathBuf = PathBuf::from(format!("/{}", "x".repeat(100_000)));
    check("very long first", join(&[&long, &d1]), n, None, Ok("D1"));
    check("very long last", join(&[&d2, &long]), n, None, Ok("D2"));
    check("very long only", join(&[&long]), n, None, Err(libc::ENAMETOOLONG));
    let longc: PathBuf = PathBuf::from(format!("/{}", "y/".repeat(3000)));
    check("very long (many comps) first", join(&[&longc, &d1]), n, None, Ok("D1"));
    // many entries
    let mut p = OsString::new();
    for i in 0..6000 { p.push(format!("/ne{}:", i)); }
    p.push(d2.as_os_str());
    check("6000 entries", p, n, None, Ok("D2"));
    // name lengths
    let n255 = "a".repeat(255);
    mkexe(&d2, &n255, "N255");
    check("255 name", join(&[&d1, &d2]), &n255, None, Ok("N255"));
    let n256 = "a".repeat(256);
    check("256 name", join(&[&d1, &d2]), &n256, None, Err(libc::ENAMETOOLONG));
    let n1 = "b";
    mkexe(&d2, n1, "N1");
    check("1 name", join(&[&d1, &d2]), n1, None, Ok("N1"));
    // long name with the longest entry not the one that matches
    check("255 name long entry first", join(&[&long, &d2]), &n255, None, Ok("N255"));
    check("255 name long entry last", join(&[&d2, &long]), &n255, None, Ok("N255"));

    // explicit executable: same rules
    let mut explicit = |desc: &str, path: OsString, exe: &str, exp: Result<&str, i32>| {
        std::env::set_var("PATH", &path);
        let r = Popen::create(&["argv0-name"], PopenConfig {
            executable: Some(OsString::from(exe)),
            stdout: Redirection::Pipe,
            cwd: Some(cwd.clone().into_os_string()),
            ..Default::default()
        });
        let got = match r {
            Ok(mut p) => {
                let (o, _) = p.communicate(None).unwrap();
                p.wait().unwrap();
                Ok(o.unwrap().trim().to_string())
            }
            Err(PopenError::IoError(e)) => Err(e.raw_os_error().unwrap_or(-999)),
            Err(e) => panic!("{:?}", e),
        };
        let exp2: Result<String, i32> = exp.map(|s| s.to_string());
        if got != exp2 { fails.push(format!("explicit {}: expected {:?} got {:?}", desc, exp2, got)); }
    };
    explicit("search", join(&[&d3, &d4, &d2, &d1]), n, Ok("D2"));
    explicit("slash", join(&[&d1]), "sub/r4cmd", Ok("CWDSUB"));
    explicit("argv0 not used", join(&[&d1]), "no-such-r4", Err(libc::ENOENT));
    explicit("only empties", OsString::from("::"), n, Err(libc::ENOENT));

    std::env::set_var("PATH", &orig_path);
    for f in &fails { eprintln!("FAIL {}", f); }
    assert!(fails.is_empty());
}
