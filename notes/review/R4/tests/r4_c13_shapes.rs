use std::fs::File;
use std::io::{Read, Write, Seek, SeekFrom};
use std::time::Duration;
use subprocess::{Exec, ExitStatus, Pipeline, Redirection};

fn stage(i: usize, code: u32) -> Exec {
    Exec::cmd("sh").arg("-c").arg(format!(
        "echo err-{i}-a >&2; sed 's/$/-{i}/'; echo err-{i}-b >&2; exit {code}",
        i = i, code = code
    ))
}

fn shapes(n: usize, codes: &[u32]) -> Vec<(&'static str, Pipeline)> {
    let mk = |i: usize| stage(i, codes[i]);
    let mut v = vec![];
    // left fold with |
    let mut p = mk(0) | mk(1);
    for i in 2..n { p = p | mk(i); }
    v.push(("fold", p));
    v.push(("iter", Pipeline::from_exec_iter((0..n).map(mk).collect::<Vec<_>>())));
    if n >= 4 {
        for split in 2..=n - 2 {
            let mut l = mk(0) | mk(1);
            for i in 2..split { l = l | mk(i); }
            let mut r = mk(split) | mk(split + 1);
            for i in split + 2..n { r = r | mk(i); }
            v.push(("pipe|pipe", l | r));
        }
    }
    v
}

fn expected(input: &str, n: usize) -> String {
    let suffix: String = (0..n).map(|i| format!("-{}", i)).collect();
    input.lines().map(|l| format!("{}{}\n", l, suffix)).collect()
}

fn check_err(err: &str, n: usize, what: &str) {
    let mut lines: Vec<&str> = err.lines().collect();
    lines.sort();
    let mut exp: Vec<String> = (0..n).flat_map(|i| vec![format!("err-{}-a", i), format!("err-{}-b", i)]).collect();
    exp.sort();
    assert_eq!(lines, exp, "stderr lines {}", what);
}

#[test]
fn c13_shapes() {
    std::thread::spawn(|| {
        std::thread::sleep(Duration::from_secs(300));
        eprintln!("WATCHDOG: hang");
        std::process::exit(3);
    });
    let inputs: Vec<String> = vec![
        String::new(),
        "x\n".to_string(),
        (0..200_000).map(|i| format!("line{}\n", i)).collect(),
    ];
    for n in 2..=6 {
        let codes: Vec<u32> = (0..n).map(|i| ((i * 7 + n) % 5) as u32).collect();
        for input in &inputs {
            let exp = expected(input, n);
            let exp_status = ExitStatus::Exited(codes[n - 1]);
            // data -> capture
            for (name, p) in shapes(n, &codes) {
                let what = format!("n={} shape={} len={} data/capture", n, name, input.len());
                let c = p.stdin(input.as_str()).capture().unwrap();
                assert!(c.stdout_str() == exp, "stdout {}", what);
                check_err(&c.stderr_str(), n, &what);
                assert_eq!(c.exit_status, exp_status, "{}", what);
            }
            // file -> file, join, stderr_to file
            for (name, p) in shapes(n, &codes) {
                let what = format!("n={} shape={} len={} file/file/join", n, name, input.len());
                let mut fin = tempfile::tempfile().unwrap();
                fin.write_all(input.as_bytes()).unwrap();
                fin.seek(SeekFrom::Start(0)).unwrap();
                let mut fout = tempfile::tempfile().unwrap();
                let mut ferr = tempfile::tempfile().unwrap();
                let st = p
                    .stdin(fin)
                    .stdout(fout.try_clone().unwrap())
                    .stderr_to(ferr.try_clone().unwrap())
                    .join()
                    .unwrap();
                assert_eq!(st, exp_status, "{}", what);
                let mut out = String::new();
                fout.seek(SeekFrom::Start(0)).unwrap();
                fout.read_to_string(&mut out).unwrap();
                assert!(out == exp, "stdout {}", what);
                let mut err = String::new();
                ferr.seek(SeekFrom::Start(0)).unwrap();
                ferr.read_to_string(&mut err).unwrap();
                check_err(&err, n, &what);
            }
            // pipe -> pipe via popen
            for (name, p) in shapes(n, &codes) {
                let what = format!("n={} shape={} len={} pipe/pipe/popen", n, name, input.len());
                let mut v = p.stdin(Redirection::Pipe).stdout(Redirection::Pipe).popen().unwrap();
                assert_eq!(v.len(), n);
                for (i, s) in v.iter().enumerate() {
                    assert_eq!(s.stdin.is_some(), i == 0, "stdin presence {} {}", i, what);
                    assert_eq!(s.stdout.is_some(), i == n - 1, "stdout presence {} {}", i, what);
                    assert!(s.stderr.is_none());
                }
                let mut w = v[0].stdin.take().unwrap();
                let data = input.clone();
                let th = std::thread::spawn(move || { w.write_all(data.as_bytes()).unwrap(); });
                let mut out = String::new();
                v[n - 1].stdout.take().unwrap().read_to_string(&mut out).unwrap();
                th.join().unwrap();
                assert!(out == exp, "stdout {}", what);
                for (i, s) in v.iter_mut().enumerate() {
                    assert_eq!(s.wait().unwrap(), ExitStatus::Exited(codes[i]), "status {} {}", i, what);
                }
            }
            // stream_stdout with file stdin
            for (name, p) in shapes(n, &codes) {
                let what = format!("n={} shape={} len={} file/stream_stdout", n, name, input.len());
                let mut fin = tempfile::tempfile().unwrap();
                fin.write_all(input.as_bytes()).unwrap();
                fin.seek(SeekFrom::Start(0)).unwrap();
                let mut out = String::new();
                p.stdin(fin).stream_stdout().unwrap().read_to_string(&mut out).unwrap();
                assert!(out == exp, "stdout {}", what);
            }
            // stream_stdin with file stdout
            for (name, p) in shapes(n, &codes) {
                let what = format!("n={} shape={} len={} stream_stdin/file", n, name, input.len());
                let mut fout = tempfile::tempfile().unwrap();
                {
                    let mut w = p.stdout(fout.try_clone().unwrap()).stream_stdin().unwrap();
                    w.write_all(input.as_bytes()).unwrap();
                }
                let mut out = String::new();
                fout.seek(SeekFrom::Start(0)).unwrap();
                fout.read_to_string(&mut out).unwrap();
                assert!(out == exp, "stdout {}", what);
            }
        }
    }
    let _ = File::open("/dev/null");
}
