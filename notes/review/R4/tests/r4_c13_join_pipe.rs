// C13: join() must return the last command's status after all commands have
// exited, for every choice of pipeline stdin/stdout, including Redirection::Pipe.
use std::sync::mpsc;
use std::time::Duration;
use subprocess::{Exec, ExitStatus, Redirection};

fn with_watchdog<F: FnOnce() -> ExitStatus + Send + 'static>(what: &str, f: F) -> Result<ExitStatus, String> {
    let (tx, rx) = mpsc::channel();
    std::thread::spawn(move || { tx.send(f()).ok(); });
    rx.recv_timeout(Duration::from_secs(5)).map_err(|_| format!("{}: join() did not return within 5s", what))
}

fn kill_children() {
    // clean up the stuck stages so that the test process can exit
    let _ = std::process::Command::new("pkill").arg("-P").arg(std::process::id().to_string()).status();
}

#[test]
fn join_with_piped_stdin_returns() {
    // Nobody can ever write to the pipe (join() consumes the pipeline and
    // hands nothing back), so the stages see an empty input.
    let r = with_watchdog("stdin=Pipe", || {
        (Exec::cmd("cat") | Exec::cmd("cat")).stdin(Redirection::Pipe).join().unwrap()
    });
    kill_children();
    assert_eq!(r, Ok(ExitStatus::Exited(0)));
}

#[test]
fn join_with_piped_stdout_returns() {
    // 200000 bytes do not fit the pipe buffer; nobody can ever read the pipe.
    let r = with_watchdog("stdout=Pipe", || {
        (Exec::cmd("head").arg("-c").arg("200000").arg("/dev/zero") | Exec::cmd("cat"))
            .stdout(Redirection::Pipe)
            .join()
            .unwrap()
    });
    kill_children();
    assert!(r.is_ok(), "{:?}", r);
}

#[test]
fn control_join_with_file_stdin_returns() {
    let r = with_watchdog("stdin=File", || {
        (Exec::cmd("cat") | Exec::cmd("cat")).stdin(std::fs::File::open("/dev/null").unwrap()).join().unwrap()
    });
    assert_eq!(r, Ok(ExitStatus::Exited(0)));
}
