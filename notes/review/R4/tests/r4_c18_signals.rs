use std::time::Duration;
use subprocess::{Exec, ExitStatus, Pipeline, Redirection};

fn parse(status: &str) -> (u64, u64) {
    let mut blk = u64::MAX; let mut ign = u64::MAX;
    for l in status.lines() {
        if let Some(v) = l.strip_prefix("SigBlk:") { blk = u64::from_str_radix(v.trim(), 16).unwrap(); }
        if let Some(v) = l.strip_prefix("SigIgn:") { ign = u64::from_str_radix(v.trim(), 16).unwrap(); }
    }
    (blk, ign)
}

extern "C" fn handler(_: i32) {}

#[test]
fn c18_signals() {
    std::thread::spawn(|| {
        std::thread::sleep(Duration::from_secs(120));
        eprintln!("WATCHDOG: hang");
        std::process::exit(3);
    });
    let mut fails = vec![];
    // run in a dedicated thread so that blocking signals does not disturb the harness
    let masks: Vec<Vec<i32>> = vec![
        vec![],
        vec![libc::SIGPIPE],
        vec![libc::SIGTERM, libc::SIGINT, libc::SIGCHLD],
        (1..=64).collect(),
    ];
    for disp in 0..3 {
        unsafe {
            match disp {
                0 => { libc::signal(libc::SIGPIPE, libc::SIG_IGN); }
                1 => { libc::signal(libc::SIGPIPE, libc::SIG_DFL); }
                _ => { libc::signal(libc::SIGPIPE, handler as usize); }
            }
        }
        for mask in &masks {
            let mask = mask.clone();
            let r: Vec<String> = std::thread::spawn(move || {
                let mut fails = vec![];
                unsafe {
                    let mut set: libc::sigset_t = std::mem::zeroed();
                    libc::sigemptyset(&mut set);
                    for s in &mask { libc::sigaddset(&mut set, *s); }
                    libc::pthread_sigmask(libc::SIG_SETMASK, &set, std::ptr::null_mut());
                }
                // single command
                let out = Exec::cmd("cat").arg("/proc/self/status").stdout(Redirection::Pipe).capture().unwrap().stdout_str();
                let (blk, ign) = parse(&out);
                if blk != 0 || ign & (1 << 12) != 0 { fails.push(format!("single disp={} mask={:?}: blk={:x} ign={:x}", disp, mask, blk, ign)); }
                // every stage of a pipeline
                for n in 2..=4 {
                    let cmds: Vec<Exec> = (0..n).map(|i| Exec::cmd("sh").arg("-c").arg(format!("cat >/dev/null; sed -n 's/^Sig\\(Blk\\|Ign\\):/{}&/p' /proc/$$/status >&2", i))).collect();
                    let c = Pipeline::from_exec_iter(cmds).stdin("x").capture().unwrap();
                    let err = c.stderr_str();
                    let mut seen = 0;
                    for l in err.lines() {
                        let (_stage, rest) = l.split_at(1);
                        let (blk, ign) = parse(rest);
                        if blk != u64::MAX { seen += 1; if blk != 0 { fails.push(format!("pipeline n={} disp={} mask={:?}: line {}", n, disp, mask, l)); } }
                        if ign != u64::MAX { seen += 1; if ign & (1 << 12) != 0 { fails.push(format!("pipeline n={} disp={} mask={:?}: line {}", n, disp, mask, l)); } }
                    }
                    if seen != 2 * n { fails.push(format!("pipeline n={} saw {} lines: {:?}", n, seen, err)); }
                }
                // functional: unbounded producer dies when the consumer leaves
                let mut v = (Exec::cmd("yes") | Exec::cmd("yes") | Exec::cmd("head").arg("-1")).stdout(Redirection::Pipe).popen().unwrap();
                let mut s = String::new();
                use std::io::Read;
                v[2].stdout.take().unwrap().read_to_string(&mut s).unwrap();
                for (i, p) in v.iter_mut().enumerate() {
                    let st = p.wait_timeout(Duration::from_secs(5)).unwrap();
                    let exp = if i == 2 { Some(ExitStatus::Exited(0)) } else { Some(ExitStatus::Signaled(libc::SIGPIPE as u8)) };
                    if st != exp { fails.push(format!("yes|yes|head disp={} mask={:?} stage {}: {:?}", disp, mask, i, st)); p.kill().ok(); }
                }
                fails
            }).join().unwrap();
            fails.extend(r);
        }
    }
    for f in &fails { eprintln!("FAIL {}", f); }
    assert!(fails.is_empty());
}
