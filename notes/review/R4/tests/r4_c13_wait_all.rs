use std::time::{Duration, Instant};
use subprocess::{Exec, ExitStatus};

fn children_left() -> bool {
    let mut st = 0;
    let r = unsafe { libc::waitpid(-1, &mut st, libc::WNOHANG) };
    r >= 0
}

#[test]
fn join_and_capture_wait_for_all() {
    for which in 0..2 {
        for pos in 0..3 {
            let mk = |i: usize| if i == pos { Exec::cmd("sh").arg("-c").arg("exec <&- >&- 2>&-; sleep 1; exit 3") } else { Exec::cmd("sh").arg("-c").arg("exit 4") };
            let p = mk(0) | mk(1) | mk(2);
            let t = Instant::now();
            let st = if which == 0 { p.join().unwrap() } else { p.capture().unwrap().exit_status };
            let el = t.elapsed();
            assert!(el >= Duration::from_millis(950), "which={} pos={} returned after {:?}", which, pos, el);
            assert_eq!(st, ExitStatus::Exited(if pos == 2 { 3 } else { 4 }));
            assert!(!children_left(), "which={} pos={}", which, pos);
        }
    }
}
