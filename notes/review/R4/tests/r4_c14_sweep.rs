// C14 sweep: pipeline failing to start part-way, all terminators / stdin kinds.
use std::fs::File;
use std::io::Write;
use std::time::{Duration, Instant};
use subprocess::{Exec, Pipeline, Redirection};

fn count_fds() -> usize {
    std::fs::read_dir("/proc/self/fd").unwrap().count()
}

// returns (zombies_reaped, still_running_children)
fn children_state() -> (Vec<i32>, bool) {
    let mut zombies = vec![];
    loop {
        let mut st = 0;
        let r = unsafe { libc::waitpid(-1, &mut st, libc::WNOHANG) };
        if r > 0 {
            zombies.push(r);
            continue;
        }
        if r == 0 {
            return (zombies, true);
        }
        return (zombies, false);
    }
}

fn build(n: usize, k: usize, detached: bool) -> Pipeline {
    let cmds: Vec<Exec> = (0..n)
        .map(|i| {
            let e = if i == k {
                match std::env::var("R4_BAD").as_deref() {
                    Ok("cwd") => Exec::cmd("cat").cwd("/no/such/dir/r4"),
                    Ok("nul") => Exec::cmd("cat").arg("a\0b"),
                    Ok("slash") => Exec::cmd("/no/such/r4"),
                    Ok("noexec") => Exec::cmd("/etc/passwd"),
                    _ => Exec::cmd("no-such-command-r4"),
                }
            } else if i == 0 && std::env::var("R4_YES").is_ok() {
                Exec::cmd("yes")
            } else {
                Exec::cmd("cat")
            };
            if detached { e.detached() } else { e }
        })
        .collect();
    Pipeline::from_exec_iter(cmds)
}

#[derive(Clone, Copy, Debug, PartialEq)]
enum Stdin { Inherit, Pipe, Data, File }
#[derive(Clone, Copy, Debug, PartialEq)]
enum Term { Popen, Join, Capture, Communicate, StreamOut, StreamIn }

fn run_one(n: usize, k: usize, sin: Stdin, term: Term) -> Result<(), String> {
    let fds_before = count_fds();
    let mut p = build(n, k, false);
    match sin {
        Stdin::Inherit => {}
        Stdin::Pipe => p = p.stdin(Redirection::Pipe),
        Stdin::Data => p = p.stdin("some data\n"),
        Stdin::File => p = p.stdin(File::open("/etc/passwd").unwrap()),
    }
    let t0 = Instant::now();
    let is_err = match term {
        Term::Popen => p.popen().is_err(),
        Term::Join => p.join().is_err(),
        Term::Capture => p.capture().is_err(),
        Term::Communicate => p.communicate().is_err(),
        Term::StreamOut => p.stream_stdout().is_err(),
        Term::StreamIn => p.stream_stdin().is_err(),
    };
    let el = t0.elapsed();
    let mut problems = vec![];
    if !is_err { problems.push("no error returned".to_string()); }
    if el > Duration::from_secs(3) { problems.push(format!("slow: {:?}", el)); }
    // give detached-ish children a moment to exit so that they would show up as zombies
    std::thread::sleep(Duration::from_millis(150));
    let (z, running) = children_state();
    if !z.is_empty() { problems.push(format!("zombies left: {:?}", z)); }
    if running { problems.push("running children left".to_string()); }
    let fds_after = count_fds();
    if fds_after != fds_before { problems.push(format!("fds {} -> {}", fds_before, fds_after)); }
    if problems.is_empty() { Ok(()) } else { Err(problems.join("; ")) }
}

#[test]
fn c14_sweep() {
    // watchdog
    std::thread::spawn(|| {
        std::thread::sleep(Duration::from_secs(120));
        eprintln!("WATCHDOG: hang");
        std::process::exit(3);
    });
    let mut failures = vec![];
    for n in 2..=4 {
        for k in 0..n {
            for &sin in &[Stdin::Inherit, Stdin::Pipe, Stdin::Data, Stdin::File] {
                for &term in &[Term::Popen, Term::Join, Term::Capture, Term::Communicate, Term::StreamOut, Term::StreamIn] {
                    // data is only legal with capture/communicate
                    if sin == Stdin::Data && !(term == Term::Capture || term == Term::Communicate) { continue; }
                    // a piped stdin with capture/communicate and no data panics by contract
                    if sin == Stdin::Pipe && (term == Term::Capture || term == Term::Communicate) { continue; }
                    if sin != Stdin::Pipe && sin != Stdin::Inherit && term == Term::StreamIn { continue; }
                    eprintln!("case n={} k={} {:?} {:?}", n, k, sin, term);
                    std::io::stderr().flush().ok();
                    if let Err(e) = run_one(n, k, sin, term) {
                        failures.push(format!("n={} k={} stdin={:?} term={:?}: {}", n, k, sin, term, e));
                    }
                }
            }
        }
    }
    for f in &failures { eprintln!("FAIL {}", f); }
    assert!(failures.is_empty(), "{} failing cases", failures.len());
}
