use std::time::Duration;
use subprocess::{Exec, Pipeline, Redirection};

#[test]
fn c13_stage_fds() {
    std::thread::spawn(|| {
        std::thread::sleep(Duration::from_secs(60));
        eprintln!("WATCHDOG: hang");
        std::process::exit(3);
    });
    // keep some unrelated parent fds around (std opens them O_CLOEXEC)
    let _keep = std::fs::File::open("/etc/passwd").unwrap();
    for n in 2..=5 {
        let cmds: Vec<Exec> = (0..n)
            .map(|i| Exec::cmd("sh").arg("-c").arg(format!("cat; ls /proc/$$/fd | sed 's/^/stage{} fd /' >&2", i)))
            .collect();
        let c = Pipeline::from_exec_iter(cmds).stdin("hello\n").capture().unwrap();
        assert_eq!(c.stdout_str(), "hello\n");
        let err = c.stderr_str();
        let mut lines: Vec<&str> = err.lines().collect();
        lines.sort();
        let mut exp = vec![];
        for i in 0..n { for fd in 0..3 { exp.push(format!("stage{} fd {}", i, fd)); } }
        assert_eq!(lines, exp, "n={}", n);

        // popen with pipes at both ends, stderr_to a file
        let f = tempfile::tempfile().unwrap();
        let cmds: Vec<Exec> = (0..n)
            .map(|i| Exec::cmd("sh").arg("-c").arg(format!("cat; ls /proc/$$/fd | sed 's/^/stage{} fd /' >&2", i)))
            .collect();
        let mut v = Pipeline::from_exec_iter(cmds).stdin(Redirection::Pipe).stdout(Redirection::Pipe).stderr_to(f.try_clone().unwrap()).popen().unwrap();
        drop(v[0].stdin.take());
        use std::io::{Read, Seek, SeekFrom};
        let mut s = String::new();
        v[n - 1].stdout.take().unwrap().read_to_string(&mut s).unwrap();
        for p in v.iter_mut() { p.wait().unwrap(); }
        let mut f = f; f.seek(SeekFrom::Start(0)).unwrap();
        let mut err = String::new(); f.read_to_string(&mut err).unwrap();
        let mut lines: Vec<&str> = err.lines().collect();
        lines.sort();
        assert_eq!(lines, exp, "popen n={}", n);
    }
}
