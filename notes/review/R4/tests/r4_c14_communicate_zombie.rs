// C14: a pipeline that fails to start part-way must leave no zombie in the
// parent, for every terminator -- including Pipeline::communicate().
// The caller never asked for detached(): communicate() detaches every command
// itself, so on a start failure the commands started before the failing one
// are dropped without ever being waited for, and since the error is all the
// caller gets back (no Communicator, no Popen, no pid), nobody can reap them.
use std::time::Duration;
use subprocess::{Exec, Pipeline};

fn reap_all() -> (Vec<i32>, bool) {
    // (pids of children that had exited but had not been waited for, any child still running)
    let mut zombies = vec![];
    loop {
        let mut st = 0;
        let r = unsafe { libc::waitpid(-1, &mut st, libc::WNOHANG) };
        if r > 0 { zombies.push(r); continue; }
        return (zombies, r == 0);
    }
}

fn pipeline(n: usize, k: usize) -> Pipeline {
    Pipeline::from_exec_iter((0..n).map(|i| if i == k { Exec::cmd("no-such-command-r4") } else { Exec::cmd("cat") }).collect::<Vec<_>>())
}

#[test]
fn control_capture_leaves_no_zombie() {
    for n in 2..=4 { for k in 0..n {
        assert!(pipeline(n, k).stdin("data").capture().is_err());
        std::thread::sleep(Duration::from_millis(200));
        assert_eq!(reap_all(), (vec![], false), "capture n={} k={}", n, k);
    } }
}

#[test]
fn communicate_leaves_no_zombie() {
    let mut bad = vec![];
    for n in 2..=4 { for k in 0..n {
        assert!(pipeline(n, k).stdin("data").communicate().is_err());
        // the started commands have seen their pipes closed and exit at once
        std::thread::sleep(Duration::from_millis(200));
        let (zombies, running) = reap_all();
        eprintln!("communicate n={} k={}: unreaped children {:?}, still running: {}", n, k, zombies, running);
        if !zombies.is_empty() || running { bad.push((n, k, zombies.len())); }
    } }
    assert!(bad.is_empty(), "(n, k, zombies left): {:?}", bad);
}
