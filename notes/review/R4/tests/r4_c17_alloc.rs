use std::alloc::{GlobalAlloc, Layout, System};
use std::ffi::OsString;
use std::sync::atomic::{AtomicI32, Ordering};
use std::time::Duration;
use subprocess::{Exec, Popen, PopenConfig, Redirection};

static PARENT: AtomicI32 = AtomicI32::new(0);
static REPORT_FD: AtomicI32 = AtomicI32::new(-1);

struct Spy;
fn report(kind: u8) {
    let parent = PARENT.load(Ordering::Relaxed);
    if parent != 0 && unsafe { libc::getpid() } != parent {
        let fd = REPORT_FD.load(Ordering::Relaxed);
        if fd >= 0 {
            let b = [kind];
            unsafe { libc::write(fd, b.as_ptr() as _, 1) };
        }
    }
}
unsafe impl GlobalAlloc for Spy {
    unsafe fn alloc(&self, l: Layout) -> *mut u8 { report(b'A'); System.alloc(l) }
    unsafe fn alloc_zeroed(&self, l: Layout) -> *mut u8 { report(b'Z'); System.alloc_zeroed(l) }
    unsafe fn realloc(&self, p: *mut u8, l: Layout, n: usize) -> *mut u8 { report(b'R'); System.realloc(p, l, n) }
    unsafe fn dealloc(&self, p: *mut u8, l: Layout) { report(b'f'); System.dealloc(p, l) }
}
#[global_allocator]
static G: Spy = Spy;

fn drain(fd: i32) -> String {
    let mut out = Vec::new();
    let mut buf = [0u8; 4096];
    loop {
        let n = unsafe { libc::read(fd, buf.as_mut_ptr() as _, buf.len()) };
        if n <= 0 { break; }
        out.extend_from_slice(&buf[..n as usize]);
    }
    String::from_utf8(out).unwrap()
}

#[test]
fn c17_alloc() {
    std::thread::spawn(|| {
        std::thread::sleep(Duration::from_secs(120));
        eprintln!("WATCHDOG: hang");
        std::process::exit(3);
    });
    let mut fds = [0i32; 2];
    assert_eq!(unsafe { libc::pipe2(fds.as_mut_ptr(), libc::O_CLOEXEC | libc::O_NONBLOCK) }, 0);
    REPORT_FD.store(fds[1], Ordering::SeqCst);
    PARENT.store(unsafe { libc::getpid() }, Ordering::SeqCst);
    let rfd = fds[0];

    let td = tempfile::tempdir().unwrap();
    let orig_path = std::env::var_os("PATH").unwrap();
    let mut fails = vec![];
    let mut note = |desc: String, rfd: i32| {
        let s = drain(rfd);
        let allocs: String = s.chars().filter(|c| *c != 'f').collect();
        eprintln!("{}: child events {:?}", desc, s);
        if !allocs.is_empty() { fails.push(format!("{}: {}", desc, allocs)); }
    };

    let long_dir = format!("/{}", "d".repeat(3000));
    let paths: Vec<(String, OsString)> = vec![
        ("orig".into(), orig_path.clone()),
        ("longest-first".into(), { let mut p = OsString::from(format!("{}:", long_dir)); p.push(&orig_path); p }),
        ("longest-last".into(), { let mut p = orig_path.clone(); p.push(format!(":{}", long_dir)); p }),
        ("many".into(), { let mut p = OsString::new(); for i in 0..3000 { p.push(format!("/ne{}:", i)); } p.push(&orig_path); p.push("::"); p }),
        ("empties".into(), { let mut p = OsString::from(":::"); p.push(&orig_path); p.push(":::"); p }),
        ("single-short".into(), OsString::from("/bin")),
        ("only-empties".into(), OsString::from("::")),
    ];
    let names: Vec<String> = vec!["true".into(), "no-such-r4".into(), "x".repeat(255), "x".repeat(5000), "".into(), "/bin/true".into(), "/no/such".into(), "./rel".into()];
    for (pd, p) in &paths {
        std::env::set_var("PATH", p);
        for name in &names {
            for variant in 0..4 {
                let mut cfg = PopenConfig::default();
                let mut args: Vec<OsString> = vec![OsString::from(name)];
                match variant {
                    0 => {}
                    1 => {
                        cfg.stdin = Redirection::Pipe; cfg.stdout = Redirection::Pipe; cfg.stderr = Redirection::Merge;
                        cfg.cwd = Some(td.path().as_os_str().to_owned());
                        for i in 0..500 { args.push(OsString::from(format!("arg{}", i))); }
                    }
                    2 => {
                        cfg.stdout = Redirection::Merge;
                        cfg.stderr = Redirection::File(tempfile::tempfile().unwrap());
                        cfg.env = Some((0..500).map(|i| (OsString::from(format!("K{}", i)), OsString::from("v".repeat(i)))).collect());
                        cfg.cwd = Some(OsString::from("/nonexistent-cwd-r4"));
                        cfg.setpgid = true;
                    }
                    _ => {
                        let f = std::rc::Rc::new(tempfile::tempfile().unwrap());
                        cfg.stdout = Redirection::RcFile(f.clone());
                        cfg.stderr = Redirection::RcFile(f);
                        cfg.stdin = Redirection::File(std::fs::File::open("/dev/null").unwrap());
                        cfg.env = Some(vec![]);
                        cfg.executable = Some(OsString::from(name));
                        args[0] = OsString::from("other-argv0");
                        cfg.cwd = Some(OsString::from(format!("{}/{}", td.path().display(), "c".repeat(200))));
                    }
                }
                let r = Popen::create(&args, cfg);
                let ok = r.is_ok();
                if let Ok(mut p) = r { p.stdin.take(); p.wait().unwrap(); }
                note(format!("path={} name={}.. len={} variant={} started={}", pd, &name.chars().take(10).collect::<String>(), name.len(), variant, ok), rfd);
            }
        }
    }
    std::env::set_var("PATH", &orig_path);
    // pipelines: several stages forked while the earlier Popens are alive
    for n in 2..=4 {
        for bad in 0..=n {
            let cmds: Vec<Exec> = (0..n).map(|i| if i == bad { Exec::cmd("no-such-r4") } else { Exec::cmd("cat") }).collect();
            let r = subprocess::Pipeline::from_exec_iter(cmds).stdin("abc").capture();
            note(format!("pipeline n={} bad={} ok={}", n, bad, r.is_ok()), rfd);
        }
    }
    for f in &fails { eprintln!("FAIL {}", f); }
    assert!(fails.is_empty());
}
