// Windows-only code cannot run here.  These tests copy the functions from
// src/popen.rs (mod os, cfg(windows)) and src/builder.rs verbatim, with the
// single change that `OsStr::encode_wide()` is replaced by `str::encode_utf16()`
// (identical for valid Unicode) so that they compile on Linux.
use std::collections::HashSet;

// ---- copy of popen.rs (windows) format_env_block ----
fn to_uppercase(s: &str) -> String {
    String::from_utf16(
        &s.encode_utf16()
            .map(|c| {
                if c < 128 {
                    (c as u8 as char).to_ascii_uppercase() as u16
                } else {
                    c
                }
            })
            .collect::<Vec<_>>(),
    )
    .unwrap()
}
fn format_env_block(env: &[(String, String)]) -> Vec<u16> {
    let mut pruned: Vec<_> = {
        let mut seen = HashSet::<String>::new();
        env.iter()
            .rev()
            .filter(|&(k, _)| seen.insert(to_uppercase(k)))
            .collect()
    };
    pruned.reverse();
    let mut block = vec![];
    for (k, v) in pruned {
        block.extend(k.encode_utf16());
        block.push('=' as u16);
        block.extend(v.encode_utf16());
        block.push(0);
    }
    block.push(0);
    block
}
// ---- copy of builder.rs Exec::env / Exec::env_remove acting on config.env ----
fn exec_env(env: &mut Vec<(String, String)>, key: &str, value: &str) {
    env.push((key.to_owned(), value.to_owned()));
}
fn exec_env_remove(env: &mut Vec<(String, String)>, key: &str) {
    env.retain(|(k, _v)| k != key);
}

// How Windows (and every consumer of an environment block) reads the block:
// NUL-terminated strings up to an empty string.  Returns None when the walk
// would have to read past the end of the buffer that was handed over.
fn parse_block(block: &[u16]) -> Option<Vec<(String, String)>> {
    // CreateProcessW finds the end of a Unicode block by looking for two
    // consecutive NUL characters
    let mut end = None;
    for i in 0..block.len().saturating_sub(1) {
        if block[i] == 0 && block[i + 1] == 0 {
            end = Some(i + 2);
            break;
        }
    }
    let end = end?;
    let mut vars = vec![];
    for s in block[..end].split(|&c| c == 0).filter(|s| !s.is_empty()) {
        let s = String::from_utf16(s).unwrap();
        let pos = s[1..].find('=').map(|p| p + 1).unwrap_or(s.len());
        vars.push((s[..pos].to_owned(), s.get(pos + 1..).unwrap_or("").to_owned()));
    }
    Some(vars)
}

fn owned(v: &[(&str, &str)]) -> Vec<(String, String)> {
    v.iter().map(|(k, v)| (k.to_string(), v.to_string())).collect()
}

#[test]
fn sanity_nonempty_block_round_trips() {
    let env = owned(&[("A", "1"), ("B", "x y")]);
    assert_eq!(parse_block(&format_env_block(&env)), Some(env));
}

// C06: "precisely the listed variables", lists of length 0 (PopenConfig { env: Some(vec![]) },
// Exec::env_clear()).  CreateProcessW requires two terminating NULs even for an empty block.
#[test]
fn win_empty_environment_block_is_not_terminated() {
    let block = format_env_block(&[]);
    println!("block for the empty environment: {:?}", block);
    assert_eq!(
        parse_block(&block),
        Some(vec![]),
        "the block is a single NUL: the double-NUL terminator CreateProcessW scans for lies outside the buffer"
    );
}

// C06: "names or values containing NUL are rejected with an error and nothing is started"
#[test]
fn win_nul_in_environment_is_not_rejected() {
    let env = owned(&[("K", "a\0INJECTED=c")]);
    // format_env_block has no way to fail and os_start (windows) passes config.env
    // straight to it; only argv is checked for NUL (assemble_cmdline)
    let block = format_env_block(&env);
    let seen = parse_block(&block).unwrap();
    println!("requested {:?}\nchild sees {:?}", env, seen);
    assert_eq!(seen, env, "a value with NUL was accepted and split into two variables");
}

// C16: "removed names are absent unless set again" - on Windows names are
// case-insensitive, which the library itself honours when setting (format_env_block
// de-duplicates case-insensitively) but not when removing.
#[test]
fn win_env_remove_is_case_sensitive_but_set_is_not() {
    // set: Foo then FOO -> one variable, as the library treats them as the same name
    let mut env = owned(&[("Other", "o")]);
    exec_env(&mut env, "Foo", "1");
    exec_env(&mut env, "FOO", "2");
    let seen = parse_block(&format_env_block(&env)).unwrap();
    assert_eq!(seen, owned(&[("Other", "o"), ("FOO", "2")]));
    // remove: Foo then env_remove("FOO") -> still there
    let mut env = owned(&[("Other", "o")]);
    exec_env(&mut env, "Foo", "1");
    exec_env_remove(&mut env, "FOO");
    let seen = parse_block(&format_env_block(&env)).unwrap();
    println!("after env(\"Foo\",\"1\").env_remove(\"FOO\") the child sees {:?}", seen);
    assert!(
        !seen.iter().any(|(k, _)| k.eq_ignore_ascii_case("foo")),
        "the removed variable is still passed to the child"
    );
}
