// C06: "Arguments, names or values containing NUL are rejected with an error
// and nothing is started."  An environment entry with a NUL that is followed by
// a duplicate of the same name is silently dropped instead, and the process runs.
use std::ffi::OsString;
use std::os::unix::ffi::OsStringExt;
use subprocess::{Exec, Popen, PopenConfig};

fn bad() -> OsString {
    OsString::from_vec(b"a\0b".to_vec())
}

#[test]
fn control_nul_value_alone_is_rejected() {
    let dir = tempfile::tempdir().unwrap();
    let marker = dir.path().join("ran");
    let env = vec![(OsString::from("K"), bad())];
    let r = Popen::create(
        &["sh", "-c", &format!(": > {}", marker.display())],
        PopenConfig { env: Some(env), ..Default::default() },
    );
    assert!(r.is_err());
    assert!(!marker.exists());
    // also when it is the later of two duplicates
    let env = vec![(OsString::from("K"), OsString::from("fine")), (OsString::from("K"), bad())];
    let r = Popen::create(
        &["sh", "-c", &format!(": > {}", marker.display())],
        PopenConfig { env: Some(env), ..Default::default() },
    );
    assert!(r.is_err());
    assert!(!marker.exists());
}

#[test]
fn nul_value_followed_by_duplicate_name_is_accepted() {
    let dir = tempfile::tempdir().unwrap();
    let marker = dir.path().join("ran");
    let env = vec![(OsString::from("K"), bad()), (OsString::from("K"), OsString::from("fine"))];
    let r = Popen::create(
        &["sh", "-c", &format!(": > {}", marker.display())],
        PopenConfig { env: Some(env), ..Default::default() },
    );
    let started = r.is_ok();
    if let Ok(mut p) = r {
        p.wait().unwrap();
    }
    println!("create returned Ok: {}, process ran: {}", started, marker.exists());
    assert!(!started && !marker.exists(), "a value containing NUL was not rejected and the process was started");
}

#[test]
fn nul_value_followed_by_duplicate_name_is_accepted_via_exec() {
    let dir = tempfile::tempdir().unwrap();
    let marker = dir.path().join("ran");
    let r = Exec::cmd("sh")
        .arg("-c")
        .arg(format!(": > {}", marker.display()))
        .env(bad(), "1")
        .env(bad(), "2")
        .join();
    println!("first result: {:?}", r.as_ref().map(|_| ()).map_err(|e| e.to_string()));
    // the last duplicate still has the NUL, so this one IS rejected; shown for contrast
    assert!(r.is_err());
    let r = Exec::cmd("sh")
        .arg("-c")
        .arg(format!(": > {}", marker.display()))
        .env("K", bad())
        .env("K", "fine")
        .join();
    println!("join returned {:?}, process ran: {}", r.as_ref().map_err(|e| e.to_string()), marker.exists());
    assert!(r.is_err() && !marker.exists(), "a value containing NUL was not rejected and the process was started");
}
