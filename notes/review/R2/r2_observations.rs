// Observation at the edge of (probably outside) the C05 quantifier: files that
// alias the parent's descriptors 1 and 2, used to swap the two streams.
use std::fs::{self, File};
use std::mem::ManuallyDrop;
use std::os::unix::io::FromRawFd;
use std::rc::Rc;
use subprocess::{Popen, PopenConfig, Redirection};

#[test]
fn swap_via_aliased_files() {
    if std::env::var_os("R2_INNER").is_some() {
        let f1 = ManuallyDrop::new(Rc::new(unsafe { File::from_raw_fd(1) }));
        let f2 = ManuallyDrop::new(Rc::new(unsafe { File::from_raw_fd(2) }));
        let mut p = Popen::create(
            &["sh", "-c", "echo written-to-1 >&1; echo written-to-2 >&2"],
            PopenConfig { stdout: Redirection::RcFile(Rc::clone(&f2)), stderr: Redirection::RcFile(Rc::clone(&f1)), ..Default::default() },
        ).unwrap();
        p.wait().unwrap();
        unsafe { libc::_exit(0) };
    }
    let dir = tempfile::tempdir().unwrap();
    let (o, e) = (dir.path().join("o"), dir.path().join("e"));
    let exe = std::env::current_exe().unwrap();
    let mut env = PopenConfig::current_env();
    env.push(("R2_INNER".into(), "1".into()));
    let mut p = Popen::create(
        &[exe.to_str().unwrap(), "swap_via_aliased_files", "--nocapture", "--test-threads=1"],
        PopenConfig { stdout: Redirection::File(File::create(&o).unwrap()), stderr: Redirection::File(File::create(&e).unwrap()), env: Some(env), ..Default::default() },
    ).unwrap();
    p.wait().unwrap();
    let (so, se) = (fs::read_to_string(&o).unwrap(), fs::read_to_string(&e).unwrap());
    println!("parent's stdout file got: {:?}\nparent's stderr file got: {:?}", so, se);
    assert!(so.contains("written-to-2") && se.contains("written-to-1"), "streams not swapped");
}
