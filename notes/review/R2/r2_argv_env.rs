use std::collections::HashMap;
use std::ffi::OsString;
use std::fs;
use std::os::unix::ffi::{OsStrExt, OsStringExt};
use subprocess::{Popen, PopenConfig, Redirection};

struct Rng(u64);
impl Rng {
    fn next(&mut self) -> u64 { self.0 ^= self.0 << 13; self.0 ^= self.0 >> 7; self.0 ^= self.0 << 17; self.0 }
    fn below(&mut self, n: u64) -> u64 { self.next() % n }
    fn bytes(&mut self, len: usize, exclude: &[u8]) -> Vec<u8> {
        let mut v = Vec::with_capacity(len);
        while v.len() < len {
            let b = match self.below(4) {
                0 => { let t = b" \t\n\"'\\$`*?[]{}()<>|&;~#%!"; t[self.below(t.len() as u64) as usize] }
                _ => (self.next() & 0xff) as u8,
            };
            if b != 0 && !exclude.contains(&b) { v.push(b); }
        }
        v
    }
    fn len(&mut self) -> usize {
        match self.below(10) { 0 => 0, 1 => 1, 2..=7 => self.below(40) as usize, 8 => self.below(5000) as usize, _ => self.below(40000) as usize }
    }
}

fn read_nul_list(path: String) -> Vec<Vec<u8>> {
    let data = fs::read(path).unwrap();
    let mut v: Vec<Vec<u8>> = data.split(|&b| b == 0).map(|s| s.to_vec()).collect();
    assert_eq!(v.pop().unwrap(), b"");
    v
}

#[test]
fn argv_env_exact() {
    let mut rng = Rng(0x9E3779B97F4A7C15);
    for iter in 0..150 {
        // argv
        let nargs = match rng.below(6) { 0 => 0, 1 => 1, 5 => 100 + rng.below(300) as usize, _ => rng.below(12) as usize };
        let mut argv: Vec<OsString> = vec![];
        let l0 = 1 + rng.below(30) as usize; let mut a0 = rng.bytes(l0, b"");
        if a0[0] == b'-' { a0[0] = b'x'; }
        argv.push(OsString::from_vec(a0));
        argv.push("-c".into());
        argv.push("read x".into());
        let mut total = 0;
        for _ in 0..nargs {
            let mut l = rng.len();
            if nargs > 50 { l = l.min(3000); }
            if total + l > 1_000_000 { l = 0; }
            total += l;
            argv.push(OsString::from_vec(rng.bytes(l, b"")));
        }
        // env
        let use_env = rng.below(4) != 0;
        let mut env: Vec<(OsString, OsString)> = vec![];
        if use_env {
            let nenv = match rng.below(5) { 0 => 0, 4 => 100 + rng.below(200) as usize, _ => rng.below(10) as usize };
            let mut names: Vec<Vec<u8>> = vec![];
            for _ in 0..nenv {
                let name = if !names.is_empty() && rng.below(3) == 0 {
                    names[rng.below(names.len() as u64) as usize].clone()
                } else {
                    let l = 1 + rng.below(20) as usize;
                    rng.bytes(l, b"=")
                };
                names.push(name.clone());
                let mut l = rng.len();
                if nenv > 50 { l = l.min(2000); }
                env.push((OsString::from_vec(name), OsString::from_vec(rng.bytes(l, b""))));
            }
        }
        let mut model: HashMap<Vec<u8>, Vec<u8>> = HashMap::new();
        if use_env {
            for (k, v) in &env { model.insert(k.as_bytes().to_vec(), v.as_bytes().to_vec()); }
        } else {
            for (k, v) in std::env::vars_os() { model.insert(k.into_vec(), v.into_vec()); }
        }
        let cfg = PopenConfig {
            executable: Some("/bin/sh".into()),
            stdin: Redirection::Pipe,
            env: if use_env { Some(env.clone()) } else { None },
            ..Default::default()
        };
        let mut p = Popen::create(&argv, cfg).unwrap_or_else(|e| panic!("iter {} create: {:?}", iter, e));
        let pid = p.pid().unwrap();
        let got_argv = read_nul_list(format!("/proc/{}/cmdline", pid));
        let got_env_raw = fs::read(format!("/proc/{}/environ", pid)).unwrap();
        let exe = fs::read_link(format!("/proc/{}/exe", pid)).unwrap();
        drop(p.stdin.take());
        p.wait().unwrap();
        let want_argv: Vec<Vec<u8>> = argv.iter().map(|a| a.as_bytes().to_vec()).collect();
        assert_eq!(got_argv.len(), want_argv.len(), "iter {} argc", iter);
        for (i, (g, w)) in got_argv.iter().zip(&want_argv).enumerate() {
            assert!(g == w, "iter {} arg {} differs (len {} vs {})", iter, i, g.len(), w.len());
        }
        assert_eq!(exe, fs::canonicalize("/bin/sh").unwrap());
        let mut got_env: Vec<Vec<u8>> = if got_env_raw.is_empty() { vec![] } else {
            let mut v: Vec<Vec<u8>> = got_env_raw.split(|&b| b == 0).map(|s| s.to_vec()).collect();
            assert_eq!(v.pop().unwrap(), b""); v };
        let mut want_env: Vec<Vec<u8>> = model.iter().map(|(k, v)| { let mut s = k.clone(); s.push(b'='); s.extend_from_slice(v); s }).collect();
        got_env.sort(); want_env.sort();
        assert!(got_env == want_env, "iter {} env differs: got {} entries want {}", iter, got_env.len(), want_env.len());
    }
}

#[test]
fn nul_rejected_nothing_started() {
    let dir = tempfile::tempdir().unwrap();
    let marker = dir.path().join("ran");
    let script = format!(": > {}", marker.display());
    let bad = OsString::from_vec(b"a\0b".to_vec());
    // arg
    let r = Popen::create(&[OsString::from("sh"), "-c".into(), script.clone().into(), bad.clone()], PopenConfig::default());
    assert!(r.is_err());
    // env name / value
    for env in vec![vec![(bad.clone(), OsString::from("v"))], vec![(OsString::from("K"), bad.clone())], vec![(OsString::from("K"), bad.clone()), (OsString::from("K"), OsString::from("fine"))]] {
        let r = Popen::create(&["sh", "-c", &script], PopenConfig { env: Some(env.clone()), ..Default::default() });
        assert!(r.is_err(), "env {:?} accepted", env);
    }
    // cwd
    let r = Popen::create(&["sh", "-c", &script], PopenConfig { cwd: Some(bad.clone()), ..Default::default() });
    assert!(r.is_err());
    std::thread::sleep(std::time::Duration::from_millis(200));
    assert!(!marker.exists());
}
