// C05: full 5x5x5 redirection matrix with identity checks (Linux, /proc based).
use std::fs::{self, File, OpenOptions};
use std::os::unix::io::AsRawFd;
use std::path::{Path, PathBuf};
use std::rc::Rc;
use std::time::{Duration, Instant};
use subprocess::{Popen, PopenConfig, PopenError, Redirection};

#[derive(Clone, Copy, Debug, PartialEq)]
enum K {
    None,
    Pipe,
    File,
    Rc,
    Merge,
}
const ALL: [K; 5] = [K::None, K::Pipe, K::File, K::Rc, K::Merge];

fn fd_flags(pid: u32, fd: i32) -> u32 {
    let s = fs::read_to_string(format!("/proc/{}/fdinfo/{}", pid, fd)).unwrap();
    for l in s.lines() {
        if let Some(v) = l.strip_prefix("flags:") {
            return u32::from_str_radix(v.trim(), 8).unwrap();
        }
    }
    panic!("no flags");
}
fn link(pid: u32, fd: i32) -> String {
    fs::read_link(format!("/proc/{}/fd/{}", pid, fd))
        .map(|p| p.to_string_lossy().into_owned())
        .unwrap_or_else(|e| format!("ERR {}", e))
}

// same open file description: a status flag toggled through our descriptor
// shows up in the child's descriptor
fn same_description(my_fd: i32, pid: u32, child_fd: i32) -> bool {
    let me = std::process::id();
    if link(me, my_fd) != link(pid, child_fd) {
        return false;
    }
    let orig = unsafe { libc::fcntl(my_fd, libc::F_GETFL) };
    assert!(orig >= 0);
    let before = fd_flags(pid, child_fd) & libc::O_APPEND as u32;
    let toggled = orig ^ libc::O_APPEND;
    assert!(unsafe { libc::fcntl(my_fd, libc::F_SETFL, toggled) } >= 0);
    let after = fd_flags(pid, child_fd) & libc::O_APPEND as u32;
    assert!(unsafe { libc::fcntl(my_fd, libc::F_SETFL, orig) } >= 0);
    let restored = fd_flags(pid, child_fd) & libc::O_APPEND as u32;
    before != after && restored == before
}

fn open_rw(p: &Path) -> File {
    OpenOptions::new().read(true).write(true).create(true).open(p).unwrap()
}

fn wait_for(p: &Path) {
    let start = Instant::now();
    while !p.exists() {
        assert!(start.elapsed() < Duration::from_secs(10), "child never reported");
        std::thread::sleep(Duration::from_millis(5));
    }
}

const SCRIPT: &str = r#"ls /proc/$$/fd > "$0.fds"; : > "$0.done"; while [ ! -e "$0.go" ]; do sleep 0.02; done"#;

fn my_inheritable_fds() -> Vec<i32> {
    let mut v = vec![];
    for e in fs::read_dir("/proc/self/fd").unwrap() {
        let fd: i32 = e.unwrap().file_name().to_str().unwrap().parse().unwrap();
        let fl = unsafe { libc::fcntl(fd, libc::F_GETFD) };
        if fl >= 0 && fl & libc::FD_CLOEXEC == 0 {
            v.push(fd);
        }
    }
    v.sort();
    v
}

#[test]
fn matrix() {
    let dir = tempfile::tempdir().unwrap();
    let mut failures: Vec<String> = vec![];
    let mut n = 0;
    let base_inh = my_inheritable_fds();
    println!("parent inheritable fds: {:?}", base_inh);
    let std_links: Vec<String> = (0..3).map(|i| link(std::process::id(), i)).collect();
    let std_fdflags: Vec<i32> = (0..3).map(|i| unsafe { libc::fcntl(i, libc::F_GETFD) }).collect();
    let std_flflags: Vec<i32> = (0..3).map(|i| unsafe { libc::fcntl(i, libc::F_GETFL) }).collect();

    for &ki in &ALL {
        for &ko in &ALL {
            for &ke in &ALL {
                n += 1;
                let tag = format!("{:?}/{:?}/{:?}", ki, ko, ke);
                let base: PathBuf = dir.path().join(format!("c{}", n));
                let shared = Rc::new(open_rw(&dir.path().join(format!("shared{}", n))));
                let mut dups: [Option<File>; 3] = [None, None, None];
                let kinds = [ki, ko, ke];
                let mut mk = |i: usize| -> Redirection {
                    match kinds[i] {
                        K::None => Redirection::None,
                        K::Pipe => Redirection::Pipe,
                        K::Merge => Redirection::Merge,
                        K::Rc => Redirection::RcFile(Rc::clone(&shared)),
                        K::File => {
                            let f = open_rw(&dir.path().join(format!("f{}_{}", n, i)));
                            dups[i] = Some(f.try_clone().unwrap());
                            Redirection::File(f)
                        }
                    }
                };
                let cfg = PopenConfig {
                    stdin: mk(0),
                    stdout: mk(1),
                    stderr: mk(2),
                    ..Default::default()
                };
                let invalid = ki == K::Merge || (ko == K::Merge && ke == K::Merge);
                let argv = vec!["sh".to_string(), "-c".to_string(), SCRIPT.to_string(), base.to_str().unwrap().to_string()];
                let res = Popen::create(&argv, cfg);
                if invalid {
                    match res {
                        Err(PopenError::LogicError(_)) => {}
                        Err(e) => failures.push(format!("{}: invalid combo gave {:?}", tag, e)),
                        Ok(_) => {
                            fs::write(base.with_extension("go"), b"").unwrap();
                            failures.push(format!("{}: invalid combo started a process", tag));
                        }
                    }
                    std::thread::sleep(Duration::from_millis(30));
                    if Path::new(&format!("{}.done", base.display())).exists() {
                        failures.push(format!("{}: process ran despite refusal", tag));
                    }
                    continue;
                }
                let mut p = match res {
                    Ok(p) => p,
                    Err(e) => {
                        failures.push(format!("{}: create failed {:?}", tag, e));
                        continue;
                    }
                };
                let pid = p.pid().unwrap();
                wait_for(Path::new(&format!("{}.done", base.display())));
                let me = std::process::id();
                // exposure iff piped
                let exposed = [p.stdin.is_some(), p.stdout.is_some(), p.stderr.is_some()];
                for i in 0..3 {
                    if exposed[i] != (kinds[i] == K::Pipe) {
                        failures.push(format!("{}: stream {} exposed={} ", tag, i, exposed[i]));
                    }
                }
                let pfd = [
                    p.stdin.as_ref().map(|f| f.as_raw_fd()),
                    p.stdout.as_ref().map(|f| f.as_raw_fd()),
                    p.stderr.as_ref().map(|f| f.as_raw_fd()),
                ];
                // what should fd i be?  resolve merge
                let eff = |i: usize| -> (K, usize) {
                    if kinds[i] == K::Merge {
                        let other = if i == 1 { 2 } else { 1 };
                        (kinds[other], other)
                    } else {
                        (kinds[i], i)
                    }
                };
                for i in 0..3usize {
                    let (k, src) = eff(i);
                    let ok = match k {
                        K::None => same_description(src as i32, pid, i as i32),
                        K::File => same_description(dups[src].as_ref().unwrap().as_raw_fd(), pid, i as i32),
                        K::Rc => same_description(shared.as_raw_fd(), pid, i as i32),
                        K::Pipe => {
                            let want_mode = if src == 0 { libc::O_RDONLY } else { libc::O_WRONLY } as u32;
                            let my_mode = if src == 0 { libc::O_WRONLY } else { libc::O_RDONLY } as u32;
                            link(me, pfd[src].unwrap()) == link(pid, i as i32)
                                && link(pid, i as i32).starts_with("pipe:")
                                && fd_flags(pid, i as i32) & 3 == want_mode
                                && fd_flags(me, pfd[src].unwrap()) & 3 == my_mode
                        }
                        K::Merge => unreachable!(),
                    };
                    if !ok {
                        failures.push(format!(
                            "{}: child fd {} is {} (flags {:o}), expected kind {:?} from stream {}",
                            tag, i, link(pid, i as i32), fd_flags(pid, i as i32), k, src
                        ));
                    }
                }
                // distinct pipes for distinct piped streams
                if ko == K::Pipe && ke == K::Pipe && link(pid, 1) == link(pid, 2) {
                    failures.push(format!("{}: stdout and stderr share one pipe", tag));
                }
                // parent ends must be close-on-exec
                for i in 0..3 {
                    if let Some(fd) = pfd[i] {
                        let fl = unsafe { libc::fcntl(fd, libc::F_GETFD) };
                        if fl & libc::FD_CLOEXEC == 0 {
                            failures.push(format!("{}: parent end {} inheritable", tag, i));
                        }
                    }
                }
                // extra descriptors in the child
                let fds: Vec<i32> = fs::read_dir(format!("/proc/{}/fd", pid))
                    .unwrap()
                    .map(|e| e.unwrap().file_name().to_str().unwrap().parse().unwrap())
                    .collect();
                let extra: Vec<&i32> = fds.iter().filter(|f| **f > 2 && !base_inh.contains(f)).collect();
                if !extra.is_empty() {
                    let desc: Vec<String> = extra.iter().map(|f| format!("{}={}", f, link(pid, **f))).collect();
                    failures.push(format!("{}: child has extra fds {:?}", tag, desc));
                }
                // functional check of pipes: EOF after child exits
                fs::write(format!("{}.go", base.display()), b"").unwrap();
                let st = p.wait().unwrap();
                if !st.success() {
                    failures.push(format!("{}: exit {:?}", tag, st));
                }
                for i in 1..3 {
                    let f = if i == 1 { p.stdout.take() } else { p.stderr.take() };
                    if let Some(mut f) = f {
                        use std::io::Read;
                        let mut v = vec![];
                        f.read_to_end(&mut v).unwrap();
                    }
                }
                // parent's own streams untouched
                for i in 0..3 {
                    if link(me, i) != std_links[i as usize]
                        || unsafe { libc::fcntl(i, libc::F_GETFD) } != std_fdflags[i as usize]
                        || unsafe { libc::fcntl(i, libc::F_GETFL) } != std_flflags[i as usize]
                    {
                        failures.push(format!("{}: parent's fd {} changed", tag, i));
                    }
                }
                let now_inh = my_inheritable_fds();
                if now_inh != base_inh {
                    failures.push(format!("{}: parent inheritable fds now {:?}", tag, now_inh));
                }
            }
        }
    }
    println!("{} combos", n);
    for f in &failures {
        println!("FAIL {}", f);
    }
    assert!(failures.is_empty(), "{} failures", failures.len());
}
