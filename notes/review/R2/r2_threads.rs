use std::fs;
use subprocess::{Popen, PopenConfig, Redirection};

fn nfds() -> usize { fs::read_dir("/proc/self/fd").unwrap().count() }
fn link(fd: i32) -> String { fs::read_link(format!("/proc/self/fd/{}", fd)).map(|p| p.to_string_lossy().into_owned()).unwrap_or_else(|e| format!("ERR {}", e)) }

#[test]
fn threads_and_repeats() {
    let before: Vec<String> = (0..3).map(link).collect();
    let n0 = nfds();
    for round in 0..20 {
        let hs: Vec<_> = (0..8).map(|i| std::thread::spawn(move || {
            let cfg = if i % 2 == 0 {
                PopenConfig { stdout: Redirection::Merge, ..Default::default() }
            } else {
                PopenConfig { stderr: Redirection::Merge, ..Default::default() }
            };
            let mut p = Popen::create(&["sh", "-c", "true"], cfg).unwrap();
            assert!(p.wait().unwrap().success());
            // twice on the same thread
            let cfg = PopenConfig { stdout: Redirection::Merge, stdin: Redirection::Pipe, ..Default::default() };
            let mut p = Popen::create(&["sh", "-c", "true"], cfg).unwrap();
            assert!(p.wait().unwrap().success());
        })).collect();
        for h in hs { h.join().unwrap(); }
        let after: Vec<String> = (0..3).map(link).collect();
        assert_eq!(before, after, "round {}", round);
        for fd in 0..3 { assert!(unsafe { libc::fcntl(fd, libc::F_GETFD) } == 0, "fd {} flags", fd); }
    }
    assert_eq!(n0, nfds());
    // a child can still write to our stderr/stdout
    let mut p = Popen::create(&["sh", "-c", "echo still-works >&2; echo still-works"], PopenConfig::default()).unwrap();
    assert!(p.wait().unwrap().success());
}
