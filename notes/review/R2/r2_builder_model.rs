use std::collections::BTreeMap;
use std::ffi::OsString;
use std::fs;
use std::io::Read;
use std::os::unix::ffi::{OsStrExt, OsStringExt};
use std::path::PathBuf;
use subprocess::{Exec, Redirection};

struct Rng(u64);
impl Rng {
    fn next(&mut self) -> u64 { self.0 ^= self.0 << 13; self.0 ^= self.0 >> 7; self.0 ^= self.0 << 17; self.0 }
    fn below(&mut self, n: u64) -> u64 { self.next() % n }
    fn bytes(&mut self, len: usize, exclude: &[u8]) -> Vec<u8> {
        let mut v = Vec::with_capacity(len);
        while v.len() < len {
            let b = (self.next() & 0xff) as u8;
            if b != 0 && !exclude.contains(&b) { v.push(b); }
        }
        v
    }
}

#[derive(Clone)]
struct Model { args: Vec<Vec<u8>>, env: Option<BTreeMap<Vec<u8>, Vec<u8>>>, cwd: Option<PathBuf> }
fn inherited() -> BTreeMap<Vec<u8>, Vec<u8>> { std::env::vars_os().map(|(k, v)| (k.into_vec(), v.into_vec())).collect() }
impl Model {
    fn env(&mut self) -> &mut BTreeMap<Vec<u8>, Vec<u8>> { if self.env.is_none() { self.env = Some(inherited()); } self.env.as_mut().unwrap() }
}

const SCRIPT: &str = r#"/bin/cat /proc/$$/cmdline > "$0.argv"; /bin/cat /proc/$$/environ > "$0.env"; pwd -P > "$0.cwd""#;

fn name(rng: &mut Rng) -> Vec<u8> {
    match rng.below(8) {
        0 => b"A".to_vec(), 1 => b"B".to_vec(), 2 => b"a".to_vec(), 3 => b"HOME".to_vec(), 4 => b"R2_PARENT_VAR".to_vec(),
        5 => b"PATH".to_vec(),
        _ => { let l = 1 + rng.below(6) as usize; rng.bytes(l, b"=") }
    }
}
fn os(v: Vec<u8>) -> OsString { OsString::from_vec(v) }

fn step(rng: &mut Rng, e: Exec, m: &mut Model, dirs: &[PathBuf]) -> Exec {
    match rng.below(9) {
        0 => { let l = rng.below(20) as usize; let a = rng.bytes(l, b""); m.args.push(a.clone()); e.arg(os(a)) }
        1 => { let n = rng.below(4); let v: Vec<OsString> = (0..n).map(|_| { let l = rng.below(10) as usize; os(rng.bytes(l, b"")) }).collect();
               for a in &v { m.args.push(a.as_bytes().to_vec()); } e.args(&v) }
        2 | 3 => { let k = name(rng); let l = rng.below(12) as usize; let v = rng.bytes(l, b""); m.env().insert(k.clone(), v.clone()); e.env(os(k), os(v)) }
        4 => { let n = rng.below(4); let mut kv = vec![]; for _ in 0..n { let k = name(rng); let l = rng.below(12) as usize; let v = rng.bytes(l, b""); m.env().insert(k.clone(), v.clone()); kv.push((os(k), os(v))); } 
               if kv.is_empty() { m.env(); } e.env_extend(&kv) }
        5 | 6 => { let k = name(rng); m.env().remove(&k); e.env_remove(os(k)) }
        7 => { if rng.below(3) == 0 { m.env = Some(BTreeMap::new()); e.env_clear() } else { e } }
        _ => { let d = dirs[rng.below(dirs.len() as u64) as usize].clone(); m.cwd = Some(d.clone()); e.cwd(d) }
    }
}

fn run_and_check(rng: &mut Rng, e: Exec, m: &Model, base: &PathBuf, tag: &str) {
    let t = rng.below(5);
    match t {
        0 => { assert!(e.join().unwrap().success(), "{}", tag); }
        1 => { let mut p = e.popen().unwrap(); assert!(p.wait().unwrap().success()); }
        2 => { let c = e.capture().unwrap(); assert!(c.success(), "{}", tag); }
        3 => { let mut s = e.stream_stdout().unwrap(); let mut v = vec![]; s.read_to_end(&mut v).unwrap(); drop(s); }
        _ => { let mut c = e.stdout(Redirection::Pipe).communicate().unwrap(); c.read().unwrap();
               // detached: wait for the report
               let start = std::time::Instant::now();
               while !PathBuf::from(format!("{}.cwd", base.display())).exists() || fs::read(format!("{}.cwd", base.display())).unwrap().is_empty() {
                   assert!(start.elapsed().as_secs() < 10); std::thread::sleep(std::time::Duration::from_millis(5)); } }
    }
    let argv = fs::read(format!("{}.argv", base.display())).unwrap();
    let mut want = vec![];
    for a in [b"/bin/sh".to_vec(), b"-c".to_vec(), SCRIPT.as_bytes().to_vec(), base.as_os_str().as_bytes().to_vec()].iter().chain(m.args.iter()) {
        want.extend_from_slice(a); want.push(0);
    }
    assert!(argv == want, "{}: argv differs (terminator {})", tag, t);
    let envraw = fs::read(format!("{}.env", base.display())).unwrap();
    let mut got: Vec<Vec<u8>> = envraw.split(|&b| b == 0).map(|s| s.to_vec()).collect();
    got.pop();
    got.sort();
    let wantenv = m.env.clone().unwrap_or_else(inherited);
    let mut wantv: Vec<Vec<u8>> = wantenv.iter().map(|(k, v)| { let mut s = k.clone(); s.push(b'='); s.extend_from_slice(v); s }).collect();
    wantv.sort();
    if got != wantv {
        for g in &got { if !wantv.contains(g) { println!("unexpected {:?}", String::from_utf8_lossy(g)); } }
        for w in &wantv { if !got.contains(w) { println!("missing {:?}", String::from_utf8_lossy(w)); } }
        panic!("{}: env differs (terminator {})", tag, t);
    }
    let cwd = fs::read_to_string(format!("{}.cwd", base.display())).unwrap();
    let wantcwd = m.cwd.clone().unwrap_or_else(|| std::env::current_dir().unwrap());
    assert_eq!(cwd.trim_end_matches('\n'), wantcwd.to_str().unwrap(), "{}", tag);
}

#[test]
fn builder_sequences() {
    std::env::set_var("R2_PARENT_VAR", "from parent");
    std::env::set_var("a", "lower");
    let dir = tempfile::tempdir().unwrap();
    let root = fs::canonicalize(dir.path()).unwrap();
    let dirs: Vec<PathBuf> = (0..3).map(|i| { let d = root.join(format!("d{}", i)); fs::create_dir(&d).unwrap(); d }).collect();
    let mut rng = Rng(0xDEADBEEFCAFEF00D);
    for iter in 0..300 {
        let base = root.join(format!("r{}", iter));
        let mut m = Model { args: vec![], env: None, cwd: None };
        let mut e = Exec::cmd("/bin/sh").arg("-c").arg(SCRIPT).arg(&base);
        let n = rng.below(14);
        let clone_at = if rng.below(2) == 0 { Some(rng.below(n + 1)) } else { None };
        let mut cloned: Option<(Exec, Model)> = None;
        for i in 0..n {
            if clone_at == Some(i) { cloned = Some((e.clone(), m.clone())); }
            e = step(&mut rng, e, &mut m, &dirs);
        }
        if clone_at == Some(n) { cloned = Some((e.clone(), m.clone())); }
        // edit the clone further as well, it must not affect the original and vice versa
        if let Some((mut ce, mut cm)) = cloned {
            for _ in 0..rng.below(5) { ce = step(&mut rng, ce, &mut cm, &dirs); }
            run_and_check(&mut rng, e, &m, &base, &format!("iter {} original", iter));
            for ext in ["argv", "env", "cwd"] { fs::remove_file(format!("{}.{}", base.display(), ext)).unwrap(); }
            run_and_check(&mut rng, ce, &cm, &base, &format!("iter {} clone", iter));
        } else {
            run_and_check(&mut rng, e, &m, &base, &format!("iter {}", iter));
        }
    }
}
