use std::fs;
use subprocess::{Popen, PopenConfig, Redirection};

fn field(status: &str, name: &str) -> Vec<u32> {
    status.lines().find(|l| l.starts_with(name)).unwrap()[name.len()..].split_whitespace().map(|x| x.parse().unwrap()).collect()
}

#[test]
fn ids_cwd_combos() {
    assert_eq!(unsafe { libc::getuid() }, 0, "needs root");
    let dir = tempfile::tempdir().unwrap();
    let dirc = fs::canonicalize(dir.path()).unwrap();
    use std::os::unix::fs::PermissionsExt;
    fs::set_permissions(&dirc, fs::Permissions::from_mode(0o755)).unwrap();
    let my_pgrp = unsafe { libc::getpgrp() } as u32;
    let mycwd = std::env::current_dir().unwrap();
    for mask in 0..32u32 {
        let uid = if mask & 1 != 0 { Some(1234u32) } else { None };
        let gid = if mask & 2 != 0 { Some(4321u32) } else { None };
        let pg = mask & 4 != 0;
        let cwd = mask & 8 != 0;
        let exe = mask & 16 != 0;
        let argv: Vec<&str> = if exe { vec!["fancy name", "-c", "read x; true"] } else { vec!["sh", "-c", "read x; true"] };
        let cfg = PopenConfig {
            stdin: Redirection::Pipe,
            setuid: uid, setgid: gid, setpgid: pg,
            cwd: if cwd { Some(dirc.clone().into_os_string()) } else { None },
            executable: if exe { Some("sh".into()) } else { None },
            ..Default::default()
        };
        let mut p = Popen::create(&argv, cfg).unwrap_or_else(|e| panic!("mask {}: {:?}", mask, e));
        let pid = p.pid().unwrap();
        let status = fs::read_to_string(format!("/proc/{}/status", pid)).unwrap();
        let stat = fs::read_to_string(format!("/proc/{}/stat", pid)).unwrap();
        let after = &stat[stat.rfind(')').unwrap() + 2..];
        let pgrp: u32 = after.split_whitespace().nth(2).unwrap().parse().unwrap();
        let ccwd = fs::read_link(format!("/proc/{}/cwd", pid)).unwrap();
        let cmdline = fs::read(format!("/proc/{}/cmdline", pid)).unwrap();
        drop(p.stdin.take());
        assert!(p.wait().unwrap().success());
        let u = uid.unwrap_or(0);
        let g = gid.unwrap_or(0);
        assert_eq!(field(&status, "Uid:"), vec![u, u, u, u], "mask {}", mask);
        assert_eq!(field(&status, "Gid:"), vec![g, g, g, g], "mask {}", mask);
        assert_eq!(pgrp, if pg { pid } else { my_pgrp }, "mask {}", mask);
        assert_eq!(ccwd, if cwd { dirc.clone() } else { mycwd.clone() }, "mask {}", mask);
        assert!(cmdline.starts_with(argv[0].as_bytes()), "mask {}", mask);
    }
}
