// Demonstration: poll()/read()/write() in the Unix communicate loop are not
// retried on EINTR.  If the parent has any signal handler installed (here a
// SIGCHLD handler with SA_RESTART, as installed by most signal/async
// libraries) the exit of *another* child while communicate() is waiting
// makes communicate() fail with ErrorKind::Interrupted, and everything the
// child wrote is lost.
#![cfg(unix)]

use std::sync::mpsc;
use std::thread;
use std::time::Duration;

use subprocess::{Popen, PopenConfig, Redirection};

extern "C" fn on_sigchld(_: libc::c_int) {}

fn install_handler() {
    unsafe {
        let mut sa: libc::sigaction = std::mem::zeroed();
        sa.sa_sigaction = on_sigchld as usize;
        sa.sa_flags = libc::SA_RESTART;
        libc::sigemptyset(&mut sa.sa_mask);
        assert_eq!(libc::sigaction(libc::SIGCHLD, &sa, std::ptr::null_mut()), 0);
    }
}

#[test]
fn communicate_survives_a_handled_signal() {
    install_handler();
    let (tx, rx) = mpsc::channel();
    // The exchange runs on a worker thread; SIGCHLD is blocked in the harness
    // thread below (well before the sibling exits), so the kernel delivers it
    // to the worker, which is then inside communicate().
    let t = thread::spawn(move || {
        // a short-lived sibling child: its exit raises SIGCHLD in ~0.3 s
        let mut sibling = Popen::create(&["sleep", "0.3"], PopenConfig::default()).unwrap();
        let mut p = Popen::create(
            &["sh", "-c", "echo out; echo err >&2; sleep 1; echo out2"],
            PopenConfig {
                stdout: Redirection::Pipe,
                stderr: Redirection::Pipe,
                ..Default::default()
            },
        )
        .unwrap();
        let r = p.communicate(None);
        let _ = sibling.wait();
        let _ = tx.send(r.map_err(|e| format!("{:?}: {}", e.kind(), e)));
    });
    // block SIGCHLD in the main (harness) thread so the worker receives it
    unsafe {
        let mut set: libc::sigset_t = std::mem::zeroed();
        libc::sigemptyset(&mut set);
        libc::sigaddset(&mut set, libc::SIGCHLD);
        libc::pthread_sigmask(libc::SIG_BLOCK, &set, std::ptr::null_mut());
    }
    let r = rx.recv_timeout(Duration::from_secs(20)).expect("hung");
    t.join().unwrap();
    println!("communicate -> {:?}", r);
    let (out, err) = r.expect("communicate failed because a signal handler ran");
    assert_eq!(out.unwrap(), "out\nout2\n");
    assert_eq!(err.unwrap(), "err\n");
}
